#ifndef VF_BPF_ENDIAN_H
#define VF_BPF_ENDIAN_H
#define bpf_htons(x) ((__u16)__builtin_bswap16((__u16)(x)))
#define bpf_ntohs(x) ((__u16)__builtin_bswap16((__u16)(x)))
#define bpf_htonl(x) ((__u32)__builtin_bswap32((__u32)(x)))
#define bpf_ntohl(x) ((__u32)__builtin_bswap32((__u32)(x)))
#define bpf_cpu_to_be64(x) ((__u64)__builtin_bswap64((__u64)(x)))
#define bpf_be64_to_cpu(x) ((__u64)__builtin_bswap64((__u64)(x)))
#endif
