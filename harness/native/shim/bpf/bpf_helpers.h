/* Shim for <bpf/bpf_helpers.h>: lets the repository's eBPF C sources be
 * compiled natively and linked into the /verif harness. Map helpers go to the
 * real kernel maps (bpf(2)) that the Go control plane writes; the clock is the
 * simulator's. */
#ifndef VF_BPF_HELPERS_H
#define VF_BPF_HELPERS_H
#include <stddef.h>
#include <linux/types.h>

#define SEC(name)
#ifndef __always_inline
#define __always_inline inline __attribute__((always_inline))
#endif
#define __uint(name, val) int (*name)[val]
#define __type(name, val) typeof(val) *name
#define __array(name, val) typeof(val) *name[]

void *vf_map_lookup(void *map, const void *key);
long vf_map_update(void *map, const void *key, const void *value, unsigned long long flags);
long vf_map_delete(void *map, const void *key);
unsigned long long vf_ktime_get_ns(void);
long vf_xdp_adjust_tail(void *ctx, int delta);

#define bpf_map_lookup_elem(m, k) vf_map_lookup((void *)(m), (k))
#define bpf_map_update_elem(m, k, v, f) vf_map_update((void *)(m), (k), (v), (f))
#define bpf_map_delete_elem(m, k) vf_map_delete((void *)(m), (k))
#define bpf_ktime_get_ns() vf_ktime_get_ns()
#define bpf_xdp_adjust_tail(ctx, delta) vf_xdp_adjust_tail((void *)(ctx), (delta))
#define bpf_printk(fmt, ...) ((void)0)
#define bpf_trace_printk(fmt, ...) ((void)0)

#ifndef BPF_ANY
#define BPF_ANY 0
#endif
#endif
