/* The repository's bpf/dhcp_fastpath.c compiled natively (include path set by /verif/check). */
#include <stdint.h>
#include <string.h>
#include "glue.h"
#define _license vf_xdp_license
#include "dhcp_fastpath.c"

void *vf_xdp_map(int which) {
	switch (which) {
	case 0: return &subscriber_pools;
	case 1: return &vlan_subscriber_pools;
	case 2: return &ip_pools;
	case 3: return &server_config;
	case 4: return &stats_map;
	case 5: return &circuit_id_map;
	case 6: return &circuit_id_subscribers;
	}
	return 0;
}
int vf_xdp_sizeof(int which) {
	switch (which) {
	case 0: return sizeof(struct pool_assignment);
	case 1: return sizeof(struct vlan_key);
	case 2: return sizeof(struct ip_pool);
	case 3: return sizeof(struct dhcp_server_config);
	case 4: return sizeof(struct dhcp_stats);
	case 5: return sizeof(struct circuit_id_key);
	}
	return 0;
}

static struct xdp_md *cur_ctx;
static uint32_t cur_limit;
long vf_xdp_adjust_tail(void *ctx, int delta) {
	struct xdp_md *c = ctx;
	int64_t ne = (int64_t)c->data_end + delta;
	if (ne <= (int64_t)c->data || ne > (int64_t)cur_limit) return -1;
	if (delta > 0) memset((void *)(uintptr_t)c->data_end, 0, (size_t)delta);
	c->data_end = (uint32_t)ne;
	return 0;
}

int vf_run_xdp(void *frame, uint32_t len, uint32_t room, uint32_t *out_len) {
	struct xdp_md ctx;
	memset(&ctx, 0, sizeof ctx);
	ctx.data = (uint32_t)(uintptr_t)frame;
	ctx.data_end = ctx.data + len;
	cur_ctx = &ctx;
	cur_limit = ctx.data + room;
	int v = dhcp_fastpath_prog(&ctx);
	if (out_len) *out_len = ctx.data_end - ctx.data;
	vf_flush();
	return v;
}
