#ifndef VF_GLUE_H
#define VF_GLUE_H
#include <stdint.h>

/* map registry: the address of a map definition in the compiled program -> kernel map fd */
int vf_register_map(void *map, int fd, int key_size, int value_size);
void vf_reset_maps(void);
void vf_set_ktime(uint64_t ns);
/* write back every value the program looked up (kernel programs mutate map values in place) */
int vf_flush(void);
int vf_lookups(void);

/* packet arena below 4 GiB (ctx->data / data_end are 32-bit) */
void *vf_arena(void);
uint32_t vf_arena_size(void);

/* program entry points */
void *vf_qos_map_egress(void);
void *vf_qos_map_ingress(void);
void *vf_qos_map_stats(void);
int vf_run_qos(int ingress, void *frame, uint32_t len, uint32_t skb_len, uint32_t *priority);
void *vf_xdp_map(int which);
int vf_xdp_sizeof(int which);
int vf_run_xdp(void *frame, uint32_t len, uint32_t room, uint32_t *out_len);
#endif
