#define _GNU_SOURCE
#include "glue.h"
#include <string.h>
#include <unistd.h>
#include <sys/mman.h>
#include <sys/syscall.h>
#include <linux/bpf.h>

struct vf_map { void *addr; int fd; int ks; int vs; };
static struct vf_map maps[32];
static int nmaps;
static uint64_t ktime_ns;

#define VF_SLOTS 16
#define VF_SLOT_BYTES 512
struct vf_slot { struct vf_map *m; unsigned char key[64]; unsigned char val[VF_SLOT_BYTES]; };
static struct vf_slot slots[VF_SLOTS];
static int nslots;
static int total_lookups;

static long sys_bpf(int cmd, union bpf_attr *attr) { return syscall(__NR_bpf, cmd, attr, sizeof(*attr)); }

int vf_register_map(void *map, int fd, int key_size, int value_size) {
	if (nmaps >= 32 || key_size > 64 || value_size > VF_SLOT_BYTES) return -1;
	for (int i = 0; i < nmaps; i++) if (maps[i].addr == map) { maps[i].fd = fd; maps[i].ks = key_size; maps[i].vs = value_size; return 0; }
	maps[nmaps].addr = map; maps[nmaps].fd = fd; maps[nmaps].ks = key_size; maps[nmaps].vs = value_size; nmaps++;
	return 0;
}
void vf_reset_maps(void) { nmaps = 0; nslots = 0; total_lookups = 0; }
void vf_set_ktime(uint64_t ns) { ktime_ns = ns; }
unsigned long long vf_ktime_get_ns(void) { return ktime_ns; }
int vf_lookups(void) { return total_lookups; }

static struct vf_map *find(void *addr) {
	for (int i = 0; i < nmaps; i++) if (maps[i].addr == addr) return &maps[i];
	return 0;
}

void *vf_map_lookup(void *map, const void *key) {
	struct vf_map *m = find(map);
	if (!m || m->fd < 0 || nslots >= VF_SLOTS) return 0;
	/* a second lookup of the same key returns the same in-place value */
	for (int i = 0; i < nslots; i++) if (slots[i].m == m && !memcmp(slots[i].key, key, m->ks)) return slots[i].val;
	struct vf_slot *s = &slots[nslots];
	union bpf_attr a; memset(&a, 0, sizeof a);
	a.map_fd = m->fd; a.key = (uint64_t)(uintptr_t)key; a.value = (uint64_t)(uintptr_t)s->val;
	total_lookups++;
	if (sys_bpf(BPF_MAP_LOOKUP_ELEM, &a) != 0) return 0;
	s->m = m; memcpy(s->key, key, m->ks); nslots++;
	return s->val;
}
long vf_map_update(void *map, const void *key, const void *value, unsigned long long flags) {
	struct vf_map *m = find(map);
	if (!m || m->fd < 0) return -1;
	union bpf_attr a; memset(&a, 0, sizeof a);
	a.map_fd = m->fd; a.key = (uint64_t)(uintptr_t)key; a.value = (uint64_t)(uintptr_t)value; a.flags = flags;
	return sys_bpf(BPF_MAP_UPDATE_ELEM, &a);
}
long vf_map_delete(void *map, const void *key) {
	struct vf_map *m = find(map);
	if (!m || m->fd < 0) return -1;
	union bpf_attr a; memset(&a, 0, sizeof a);
	a.map_fd = m->fd; a.key = (uint64_t)(uintptr_t)key;
	return sys_bpf(BPF_MAP_DELETE_ELEM, &a);
}
int vf_flush(void) {
	int rc = 0;
	for (int i = 0; i < nslots; i++) {
		union bpf_attr a; memset(&a, 0, sizeof a);
		a.map_fd = slots[i].m->fd; a.key = (uint64_t)(uintptr_t)slots[i].key; a.value = (uint64_t)(uintptr_t)slots[i].val; a.flags = 2 /* BPF_EXIST */;
		if (sys_bpf(BPF_MAP_UPDATE_ELEM, &a) != 0) rc++;
	}
	nslots = 0;
	return rc;
}

static void *arena;
#define VF_ARENA (1u << 17)
void *vf_arena(void) {
	if (!arena) {
		void *p = mmap(0, VF_ARENA, PROT_READ | PROT_WRITE, MAP_PRIVATE | MAP_ANONYMOUS | MAP_32BIT, -1, 0);
		if (p == MAP_FAILED) return 0;
		arena = p;
	}
	return arena;
}
uint32_t vf_arena_size(void) { return VF_ARENA; }
