/* The repository's bpf/qos_ratelimit.c compiled natively (include path set by /verif/check). */
#include <stdint.h>
#include <string.h>
#include "glue.h"
#define _license vf_qos_license
#include "qos_ratelimit.c"

void *vf_qos_map_egress(void) { return &qos_egress; }
void *vf_qos_map_ingress(void) { return &qos_ingress; }
void *vf_qos_map_stats(void) { return &qos_stats_map; }

int vf_run_qos(int ingress, void *frame, uint32_t len, uint32_t skb_len, uint32_t *priority) {
	struct __sk_buff skb;
	memset(&skb, 0, sizeof skb);
	skb.len = skb_len;
	skb.data = (uint32_t)(uintptr_t)frame;
	skb.data_end = (uint32_t)(uintptr_t)frame + len;
	int v = ingress ? qos_ingress_prog(&skb) : qos_egress_prog(&skb);
	if (priority) *priority = skb.priority;
	vf_flush();
	return v;
}
