// Package native links the repository's eBPF C programs, compiled natively
// against shim helper headers, into the harness. Map helpers operate on real
// kernel maps (bpf(2)) shared with the Go control plane; the kernel clock is
// set by the simulator.
package native

/*
#cgo CFLAGS: -I${SRCDIR}/shim -O1 -g -Wno-unused-function -Wno-address-of-packed-member -Wno-unknown-attributes -Wno-pointer-sign
#include <stdlib.h>
#include "glue.h"
*/
import "C"

import (
	"fmt"
	"unsafe"
)

// SetKtime sets what bpf_ktime_get_ns() returns.
func SetKtime(ns uint64) { C.vf_set_ktime(C.uint64_t(ns)) }

// ResetMaps forgets all registered maps.
func ResetMaps() { C.vf_reset_maps() }

func register(addr unsafe.Pointer, fd, ks, vs int) error {
	if C.vf_register_map(addr, C.int(fd), C.int(ks), C.int(vs)) != 0 {
		return fmt.Errorf("native: cannot register map (fd %d, key %d, value %d)", fd, ks, vs)
	}
	return nil
}

// Frame copies a frame into the sub-4GiB arena and returns its address.
func frame(b []byte, off int) (unsafe.Pointer, error) {
	a := C.vf_arena()
	if a == nil {
		return nil, fmt.Errorf("native: cannot map a packet arena below 4 GiB")
	}
	if off+len(b) > int(C.vf_arena_size()) {
		return nil, fmt.Errorf("native: frame too large")
	}
	p := unsafe.Add(a, off)
	if len(b) > 0 {
		copy(unsafe.Slice((*byte)(p), len(b)), b)
	}
	return p, nil
}

// Lookups returns the number of kernel map lookups performed so far.
func Lookups() int { return int(C.vf_lookups()) }

// TC verdicts.
const (
	TCActOK   = 0
	TCActShot = 2
)

// QoSMaps registers the kernel maps behind the QoS program's map definitions.
func QoSMaps(egressFD, ingressFD, statsFD int) error {
	if err := register(C.vf_qos_map_egress(), egressFD, 4, 32); err != nil {
		return err
	}
	if err := register(C.vf_qos_map_ingress(), ingressFD, 4, 32); err != nil {
		return err
	}
	return register(C.vf_qos_map_stats(), statsFD, 4, 32)
}

// RunQoS runs the egress (ingress=false) or ingress TC program on one frame of
// the given linear bytes and skb->len and returns the verdict and skb->priority.
func RunQoS(ingress bool, fr []byte, skbLen uint32) (verdict int, priority uint32, err error) {
	p, err := frame(fr, 256)
	if err != nil {
		return 0, 0, err
	}
	var prio C.uint32_t
	in := C.int(0)
	if ingress {
		in = 1
	}
	v := C.vf_run_qos(in, p, C.uint32_t(len(fr)), C.uint32_t(skbLen), &prio)
	return int(v), uint32(prio), nil
}
