// Package native links the repository's eBPF C programs, compiled natively
// against shim helper headers, into the harness. Map helpers operate on real
// kernel maps (bpf(2)) shared with the Go control plane; the kernel clock is
// set by the simulator.
package native

/*
#cgo CFLAGS: -I${SRCDIR}/shim -O1 -g -Wno-unused-function -Wno-address-of-packed-member -Wno-unknown-attributes -Wno-pointer-sign
#include <stdlib.h>
#include "glue.h"
*/
import "C"

import (
	"fmt"
	"unsafe"
)

// SetKtime sets what bpf_ktime_get_ns() returns.
func SetKtime(ns uint64) { C.vf_set_ktime(C.uint64_t(ns)) }

// ResetMaps forgets all registered maps.
func ResetMaps() { C.vf_reset_maps() }

func register(addr unsafe.Pointer, fd, ks, vs int) error {
	if C.vf_register_map(addr, C.int(fd), C.int(ks), C.int(vs)) != 0 {
		return fmt.Errorf("native: cannot register map (fd %d, key %d, value %d)", fd, ks, vs)
	}
	return nil
}

// Frame copies a frame into the sub-4GiB arena and returns its address.
func frame(b []byte, off int) (unsafe.Pointer, error) {
	a := C.vf_arena()
	if a == nil {
		return nil, fmt.Errorf("native: cannot map a packet arena below 4 GiB")
	}
	if off+len(b) > int(C.vf_arena_size()) {
		return nil, fmt.Errorf("native: frame too large")
	}
	p := unsafe.Add(a, off)
	if len(b) > 0 {
		copy(unsafe.Slice((*byte)(p), len(b)), b)
	}
	return p, nil
}

// Lookups returns the number of kernel map lookups performed so far.
func Lookups() int { return int(C.vf_lookups()) }

// TC verdicts.
const (
	TCActOK   = 0
	TCActShot = 2
)

// QoSMaps registers the kernel maps behind the QoS program's map definitions.
func QoSMaps(egressFD, ingressFD, statsFD int) error {
	if err := register(C.vf_qos_map_egress(), egressFD, 4, 32); err != nil {
		return err
	}
	if err := register(C.vf_qos_map_ingress(), ingressFD, 4, 32); err != nil {
		return err
	}
	return register(C.vf_qos_map_stats(), statsFD, 4, 32)
}

// RunQoS runs the egress (ingress=false) or ingress TC program on one frame of
// the given linear bytes and skb->len and returns the verdict and skb->priority.
func RunQoS(ingress bool, fr []byte, skbLen uint32) (verdict int, priority uint32, err error) {
	p, err := frame(fr, 256)
	if err != nil {
		return 0, 0, err
	}
	var prio C.uint32_t
	in := C.int(0)
	if ingress {
		in = 1
	}
	v := C.vf_run_qos(in, p, C.uint32_t(len(fr)), C.uint32_t(skbLen), &prio)
	return int(v), uint32(prio), nil
}

// XDP verdicts.
const (
	XDPDrop = 1
	XDPPass = 2
	XDPTx   = 3
)

// XDPSizes are the C-side sizes of the fast path's map keys/values.
type XDPSizes struct {
	PoolAssignment, VLANKey, IPPool, ServerConfig, Stats, CircuitIDKey int
}

func XDPSizeof() XDPSizes {
	return XDPSizes{int(C.vf_xdp_sizeof(0)), int(C.vf_xdp_sizeof(1)), int(C.vf_xdp_sizeof(2)), int(C.vf_xdp_sizeof(3)), int(C.vf_xdp_sizeof(4)), int(C.vf_xdp_sizeof(5))}
}

// XDPMaps registers the kernel maps behind the fast path's map definitions, in
// the order subscriber_pools, vlan_subscriber_pools, ip_pools, server_config,
// stats_map, circuit_id_map, circuit_id_subscribers.
func XDPMaps(fds [7]int) error {
	sz := XDPSizeof()
	ks := [7]int{8, sz.VLANKey, 4, 4, 4, 8, sz.CircuitIDKey}
	vs := [7]int{sz.PoolAssignment, sz.PoolAssignment, sz.IPPool, sz.ServerConfig, sz.Stats, 8, sz.PoolAssignment}
	for i := 0; i < 7; i++ {
		if err := register(C.vf_xdp_map(C.int(i)), fds[i], ks[i], vs[i]); err != nil {
			return err
		}
	}
	return nil
}

// RunXDP runs the DHCP fast path on one frame and returns the verdict and the
// frame as the program left it (length after bpf_xdp_adjust_tail).
func RunXDP(fr []byte) (verdict int, out []byte, err error) {
	const off = 1024
	room := len(fr) + 1024
	p, err := frame(fr, off)
	if err != nil {
		return 0, nil, err
	}
	var outLen C.uint32_t
	v := C.vf_run_xdp(p, C.uint32_t(len(fr)), C.uint32_t(room), &outLen)
	out = append([]byte(nil), unsafe.Slice((*byte)(p), int(outLen))...)
	return int(v), out, nil
}
