// Package sim is the harness side of the /verif deterministic simulator: run
// one case in a synctest bubble, worker loop, replay, shrinking, evidence.
package sim

import (
	"encoding/json"
	"fmt"
	"hash/fnv"
	"os"
	"sort"
	"strings"
	"testing"
	"testing/synctest"
	"time"

	"github.com/codelaboratoryltd/bng/pkg/simrt"
)

// Op is one generated workload or fault step.
type Op struct {
	K string   `json:"k"`
	A []int64  `json:"a,omitempty"`
	S []string `json:"s,omitempty"`
}

func (o Op) Arg(i int) int64 {
	if i < len(o.A) {
		return o.A[i]
	}
	return 0
}

func (o Op) Str(i int) string {
	if i < len(o.S) {
		return o.S[i]
	}
	return ""
}

func (o Op) String() string {
	var b strings.Builder
	b.WriteString(o.K)
	for _, a := range o.A {
		fmt.Fprintf(&b, " %d", a)
	}
	for _, s := range o.S {
		fmt.Fprintf(&b, " %q", s)
	}
	return b.String()
}

// Case is a generated scenario instance: everything but the run-time tape.
type Case struct {
	Scenario string           `json:"scenario"`
	Variant  string           `json:"variant,omitempty"`
	Knobs    map[string]int64 `json:"knobs,omitempty"`
	Ops      []Op             `json:"ops"`
}

func (c *Case) Knob(name string, def int64) int64 {
	if v, ok := c.Knobs[name]; ok {
		return v
	}
	return def
}

func (c *Case) Clone() *Case {
	b, _ := json.Marshal(c)
	var d Case
	json.Unmarshal(b, &d)
	return &d
}

func (c *Case) Hash() uint64 {
	b, _ := json.Marshal(c)
	h := fnv.New64a()
	h.Write(b)
	return h.Sum64()
}

// Violation is one failed invariant.
type Violation struct {
	Invariant   string `json:"invariant"`
	Fingerprint string `json:"fingerprint"`
	Msg         string `json:"message"`
	Step        uint64 `json:"step"`
	OpIndex     int    `json:"op_index"`
}

// Ctx is what a scenario's Run function gets.
type Ctx struct {
	S     *simrt.Sim
	Case  *Case
	Viols []Violation
	OpIdx int
	// OpsDone counts completed API-visible operations (for the non-triviality rule).
	OpsDone int
	// States collects distinct model-state fingerprints visited.
	States map[uint64]struct{}
	Tier   string
	// Known holds the fingerprints listed in known_findings.json for this
	// property: they are recorded but do not end the run, so that the other
	// invariants keep being checked.
	Known  map[string]bool
	propID string
	// NonTrivial lets a scenario without scheduling or faults (a clocked
	// process) state its own non-triviality rule for the evidence count.
	NonTrivial bool
	// FailFilter, when set, decides which violations are recorded (a scenario
	// that reuses another property's composite keeps only its own clauses).
	FailFilter func(invariant, fingerprint string) bool
}

// Fail records a violation (the first one per fingerprint).
func (c *Ctx) Fail(invariant, fingerprint, format string, a ...any) {
	if c.FailFilter != nil && !c.FailFilter(invariant, fingerprint) {
		return
	}
	for _, v := range c.Viols {
		if v.Fingerprint == fingerprint {
			return
		}
	}
	c.Viols = append(c.Viols, Violation{Invariant: invariant, Fingerprint: fingerprint,
		Msg: fmt.Sprintf(format, a...), Step: c.S.Step, OpIndex: c.OpIdx})
	c.S.Logf("VIOLATION %s %s", invariant, fingerprint)
}

// Failed reports whether a violation that is not a listed known finding has
// been recorded.
func (c *Ctx) Failed() bool {
	for _, v := range c.Viols {
		if !c.Known[v.Fingerprint] && !MatchKnown(c.propID, v.Fingerprint) {
			return true
		}
	}
	return false
}

func (c *Ctx) State(fp uint64) {
	if c.States == nil {
		c.States = map[uint64]struct{}{}
	}
	c.States[fp] = struct{}{}
}

// Scenario is one property's workload generator + executor.
type Scenario struct {
	ID   string
	Gen  func(r *Rand, tier string) *Case
	Run  func(c *Ctx)
	Real []string
	Stub []string
	// Rule describes generation and non-triviality for the evidence file.
	Rule string
	// QuickRuns / ThoroughRuns are the default run counts.
	QuickRuns, ThoroughRuns int
	// MsPerRun is a rough cost used for wall-clock caps.
	Assumptions []string
}

var Scenarios = map[string]*Scenario{}

func Register(s *Scenario) { Scenarios[s.ID] = s }

// Result of one run.
type Result struct {
	Viols      []Violation         `json:"violations,omitempty"`
	LogHash    uint64              `json:"log_hash"`
	SchedFP    uint64              `json:"sched_fp"`
	Steps      uint64              `json:"steps"`
	Yields     uint64              `json:"yields"`
	Switches   int                 `json:"switches"`
	Preempts   int                 `json:"preempts"`
	SimTimeNs  int64               `json:"sim_time_ns"`
	Faults     map[string]int      `json:"faults,omitempty"`
	Probes     map[string]int      `json:"probes,omitempty"`
	Aborted    string              `json:"aborted,omitempty"`
	Panics     []string            `json:"panics,omitempty"`
	Tape       map[string][]int    `json:"tape,omitempty"`
	OpsDone    int                 `json:"ops_done"`
	States     map[uint64]struct{} `json:"-"`
	Ring       []string            `json:"ring,omitempty"`
	Leaked     bool                `json:"leaked,omitempty"`
	NonTrivial bool                `json:"-"`
}

// RunOne executes one case under one tape inside a fresh bubble.
func RunOne(t *testing.T, scn *Scenario, cs *Case, tape *simrt.Tape, tier string, trace bool) (res Result) {
	known := map[string]bool{}
	for k := range KnownFPs {
		if strings.HasPrefix(k, scn.ID+"|") {
			known[k[len(scn.ID)+1:]] = true
		}
	}
	defer func() {
		if r := recover(); r != nil {
			msg := fmt.Sprint(r)
			if strings.Contains(msg, "deadlock: main bubble goroutine has exited") {
				res.Leaked = true
				return
			}
			panic(r)
		}
	}()
	synctest.Test(t, func(t *testing.T) {
		s := simrt.New(tape)
		s.Wait = synctest.Wait
		s.Trace = trace
		s.SkipMax = int(cs.Knob("skipmax", 1))
		s.MapOrder = int(cs.Knob("maporder", 0))
		s.StallPm = int(cs.Knob("stall_pm", 0))
		if v := cs.Knob("maxsteps", 0); v > 0 {
			s.MaxSteps = uint64(v)
		}
		ctx := &Ctx{S: s, Case: cs, Tier: tier, Known: known, propID: scn.ID}
		s.Run(func() { scn.Run(ctx) })
		res.Viols = ctx.Viols
		res.LogHash = s.Hash
		res.SchedFP = s.SchedFP
		res.Steps = s.Step
		res.Yields = s.Yields
		res.Switches = s.Switches
		res.Preempts = s.Preempts
		res.SimTimeNs = int64(s.Now())
		res.Faults = s.Faults
		res.Probes = s.Probes
		res.Aborted = s.Aborted
		res.Panics = s.Panics
		res.Tape = tape.Export()
		res.OpsDone = ctx.OpsDone
		res.NonTrivial = ctx.NonTrivial
		res.States = ctx.States
		res.Ring = s.Ring
	})
	return
}

// ReplayFile is the on-disk form of one run.
type ReplayFile struct {
	Property  string           `json:"property"`
	Seed      uint64           `json:"seed"`
	Run       uint64           `json:"run"`
	Tier      string           `json:"tier"`
	Case      *Case            `json:"case"`
	Tape      map[string][]int `json:"tape"`
	Violation *Violation       `json:"violation,omitempty"`
	LogHash   uint64           `json:"log_hash"`
	Minimised bool             `json:"minimised"`
	Ring      []string         `json:"event_log_tail,omitempty"`
	Note      string           `json:"note,omitempty"`
}

func WriteJSON(path string, v any) error {
	b, err := json.MarshalIndent(v, "", " ")
	if err != nil {
		return err
	}
	return os.WriteFile(path, b, 0644)
}

// Known findings -------------------------------------------------------------

type KnownFinding struct {
	Property    string `json:"property"`
	Fingerprint string `json:"fingerprint"`
	What        string `json:"what"`
}

type KnownFile struct {
	Known []KnownFinding `json:"known"`
	Fixed []string       `json:"fixed"`
}

// KnownFPs is the process-wide known-findings table (property|fingerprint).
var KnownFPs = map[string]KnownFinding{}

func LoadKnown(path string) map[string]KnownFinding {
	out := KnownFPs
	b, err := os.ReadFile(path)
	if err != nil {
		return out
	}
	var kf KnownFile
	if json.Unmarshal(b, &kf) != nil {
		return out
	}
	for _, k := range kf.Known {
		out[k.Property+"|"+k.Fingerprint] = k
	}
	return out
}

// MatchKnown reports whether fp is covered by a known-findings entry of the
// property whose fingerprint is a pattern ('*' stands for one whole segment
// between slashes). Patterns name a family of symptoms of one recorded defect
// that is tied to one triggering condition carried in the fingerprint (e.g.
// the variant label "dist-session+echo": runs in which the store echoes the
// node's own writes); exact entries are looked up directly.
func MatchKnown(prop, fp string) bool {
	for k := range KnownFPs {
		if !strings.HasPrefix(k, prop+"|") || !strings.Contains(k, "*") {
			continue
		}
		ps, fs := strings.Split(k[len(prop)+1:], "/"), strings.Split(fp, "/")
		if len(ps) != len(fs) {
			continue
		}
		ok := true
		for i := range ps {
			if ps[i] != "*" && ps[i] != fs[i] {
				ok = false
				break
			}
		}
		if ok {
			return true
		}
	}
	return false
}

// Worker ---------------------------------------------------------------------

type WorkerOut struct {
	Property    string            `json:"property"`
	Seed        uint64            `json:"seed"`
	From, To    uint64            `json:"-"`
	Runs        int               `json:"runs"`
	Nontrivial  []uint64          `json:"nontrivial_fps"`
	SchedFPs    int               `json:"distinct_sched"`
	States      []uint64          `json:"state_fps"`
	Steps       uint64            `json:"steps"`
	Yields      uint64            `json:"yields"`
	Switches    int               `json:"switches"`
	Preempts    int               `json:"preempts"`
	SimTimeNs   int64             `json:"sim_time_ns"`
	Faults      map[string]int    `json:"faults"`
	Probes      map[string]int    `json:"probes"`
	Aborted     map[string]int    `json:"aborted"`
	Leaked      int               `json:"leaked"`
	KnownSeen   map[string]int    `json:"known_seen"`
	Violations  int               `json:"violations"`
	FirstReplay string            `json:"first_replay,omitempty"`
	FirstFP     string            `json:"first_fp,omitempty"`
	Panics      []string          `json:"panics,omitempty"`
	Samples     []map[string]any  `json:"samples"`
	WallS       float64           `json:"wall_s"`
	Variants    map[string]int    `json:"variants"`
	AllFPs      map[string]int    `json:"all_fps,omitempty"`
	AllFPFirst  map[string]uint64 `json:"all_fp_first,omitempty"`
}

// Worker runs indices [from,to) and writes a WorkerOut.
func Worker(t *testing.T, scn *Scenario, seed, from, to uint64, tier, outPath, replayDir string, known map[string]KnownFinding) {
	st := time.Now()
	out := &WorkerOut{Property: scn.ID, Seed: seed, Faults: map[string]int{}, Probes: map[string]int{},
		Aborted: map[string]int{}, KnownSeen: map[string]int{}, Variants: map[string]int{}}
	collect := os.Getenv("VF_COLLECT") != ""
	nt := map[uint64]struct{}{}
	sfp := map[uint64]struct{}{}
	states := map[uint64]struct{}{}
	for run := from; run < to; run++ {
		r := NewRand(seed, run)
		cs := scn.Gen(r, tier)
		cs.Scenario = scn.ID
		tape := simrt.NewTape(seed, run)
		res := RunOne(t, scn, cs, tape, tier, false)
		out.Runs++
		out.Steps += res.Steps
		out.Yields += res.Yields
		out.Switches += res.Switches
		out.Preempts += res.Preempts
		out.SimTimeNs += res.SimTimeNs
		out.Variants[cs.Variant]++
		nf := 0
		for k, v := range res.Faults {
			out.Faults[k] += v
			nf += v
		}
		for k, v := range res.Probes {
			out.Probes[k] += v
		}
		if res.Aborted != "" {
			out.Aborted[res.Aborted]++
		}
		if res.Leaked {
			out.Leaked++
		}
		for s := range res.States {
			states[s] = struct{}{}
		}
		sfp[res.SchedFP] = struct{}{}
		if (nf > 0 || res.Preempts > 0 || res.Switches > 2 || res.NonTrivial) && res.OpsDone >= 3 {
			nt[cs.Hash()^res.SchedFP*0x9E3779B97F4A7C15] = struct{}{}
		}
		if len(out.Samples) < 2 && res.OpsDone >= 3 {
			out.Samples = append(out.Samples, sample(cs, run, &res))
		}
		if len(res.Panics) > 0 {
			out.Panics = append(out.Panics, res.Panics...)
			res.Viols = append(res.Viols, Violation{Invariant: "panic", Fingerprint: "panic/" + panicSite(res.Panics[0]),
				Msg: res.Panics[0], Step: res.Steps})
		}
		for _, v := range res.Viols {
			key := scn.ID + "|" + v.Fingerprint
			if _, ok := known[key]; ok || MatchKnown(scn.ID, v.Fingerprint) {
				out.KnownSeen[v.Fingerprint]++
				continue
			}
			if collect {
				if out.AllFPs == nil {
					out.AllFPs, out.AllFPFirst = map[string]int{}, map[string]uint64{}
				}
				if _, ok := out.AllFPs[v.Fingerprint]; !ok {
					out.AllFPFirst[v.Fingerprint] = run
				}
				out.AllFPs[v.Fingerprint]++
				continue
			}
			out.Violations++
			if out.FirstReplay == "" {
				vv := v
				rf := &ReplayFile{Property: scn.ID, Seed: seed, Run: run, Tier: tier, Case: cs, Tape: res.Tape,
					Violation: &vv, LogHash: res.LogHash}
				p := fmt.Sprintf("%s/%s-raw-%d-%d.json", replayDir, scn.ID, seed, run)
				if err := WriteJSON(p, rf); err == nil {
					out.FirstReplay = p
					out.FirstFP = v.Fingerprint
				}
			}
		}
		if out.Violations > 0 {
			break
		}
	}
	for k := range nt {
		out.Nontrivial = append(out.Nontrivial, k)
	}
	sort.Slice(out.Nontrivial, func(i, j int) bool { return out.Nontrivial[i] < out.Nontrivial[j] })
	for k := range states {
		out.States = append(out.States, k)
	}
	sort.Slice(out.States, func(i, j int) bool { return out.States[i] < out.States[j] })
	out.SchedFPs = len(sfp)
	out.WallS = time.Since(st).Seconds()
	if err := WriteJSON(outPath, out); err != nil {
		fmt.Fprintln(os.Stderr, "worker: write:", err)
		os.Exit(2)
	}
}

func panicSite(p string) string {
	// first frame inside the repository
	for _, l := range strings.Split(p, "\n") {
		l = strings.TrimSpace(l)
		if i := strings.Index(l, "/pkg/"); i >= 0 && strings.Contains(l, ".go:") && !strings.Contains(l, "/pkg/simrt/") {
			l = l[i+1:]
			if j := strings.Index(l, ".go:"); j >= 0 {
				return l[:j+3]
			}
		}
	}
	return "unknown"
}

func sample(cs *Case, run uint64, res *Result) map[string]any {
	ops := []string{}
	for i, o := range cs.Ops {
		if i >= 40 {
			ops = append(ops, "...")
			break
		}
		ops = append(ops, o.String())
	}
	return map[string]any{"run": run, "variant": cs.Variant, "knobs": cs.Knobs, "ops": ops,
		"steps": res.Steps, "switches": res.Switches, "preempts": res.Preempts, "faults": res.Faults,
		"sim_time_s": float64(res.SimTimeNs) / 1e9}
}

// HashRuns prints "run loghash schedfp steps" per run (determinism self-test).
func HashRuns(t *testing.T, scn *Scenario, seed, from, to uint64, tier string) {
	for run := from; run < to; run++ {
		r := NewRand(seed, run)
		cs := scn.Gen(r, tier)
		cs.Scenario = scn.ID
		res := RunOne(t, scn, cs, simrt.NewTape(seed, run), tier, false)
		nv := len(res.Viols)
		fmt.Printf("HASH %d %016x %016x %d %d %s\n", run, res.LogHash, res.SchedFP, res.Steps, nv, res.Aborted)
	}
}

// TraceRun executes one run with tracing and prints its case, event log and violations.
func TraceRun(t *testing.T, scn *Scenario, seed, run uint64, tier string) {
	r := NewRand(seed, run)
	cs := scn.Gen(r, tier)
	cs.Scenario = scn.ID
	res := RunOne(t, scn, cs, simrt.NewTape(seed, run), tier, true)
	b, _ := json.Marshal(cs)
	fmt.Println("CASE", string(b))
	for _, l := range res.Ring {
		fmt.Println(l)
	}
	for _, v := range res.Viols {
		fmt.Printf("VIOL %s %s: %s\n", v.Invariant, v.Fingerprint, v.Msg)
	}
	for _, p := range res.Panics {
		fmt.Println("PANIC", p)
	}
	fmt.Printf("steps=%d aborted=%q faults=%v probes=%v\n", res.Steps, res.Aborted, res.Faults, res.Probes)
}
