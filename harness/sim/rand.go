package sim

// Rand is the generator for case generation (workload + knobs): SplitMix64
// keyed by (seed, run). It is separate from the run-time tape.
type Rand struct{ x uint64 }

func NewRand(seed, run uint64) *Rand {
	r := &Rand{x: seed*0xA24BAED4963EE407 ^ (run+0x51)*0x9FB21C651E98DF25}
	r.U64()
	r.U64()
	return r
}

func (r *Rand) U64() uint64 {
	r.x += 0x9E3779B97F4A7C15
	z := r.x
	z = (z ^ (z >> 30)) * 0xBF58476D1CE4E5B9
	z = (z ^ (z >> 27)) * 0x94D049BB133111EB
	return z ^ (z >> 31)
}

// N returns a value in [0,n).
func (r *Rand) N(n int) int {
	if n <= 1 {
		return 0
	}
	return int(r.U64() % uint64(n))
}

// Range returns a value in [lo,hi].
func (r *Rand) Range(lo, hi int) int { return lo + r.N(hi-lo+1) }

// P returns true with probability pct/100.
func (r *Rand) P(pct int) bool { return r.N(100) < pct }

func Pick[T any](r *Rand, xs ...T) T { return xs[r.N(len(xs))] }

// Weighted picks an index with the given weights.
func (r *Rand) Weighted(w ...int) int {
	t := 0
	for _, x := range w {
		t += x
	}
	v := r.N(t)
	for i, x := range w {
		if v < x {
			return i
		}
		v -= x
	}
	return len(w) - 1
}
