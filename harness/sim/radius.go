package sim

import (
	"context"
	"fmt"
	"time"

	"github.com/codelaboratoryltd/bng/pkg/simrt"
	"layeh.com/radius"
)

// Outcome of one simulated RADIUS exchange.
const (
	RadOK      = iota // request reaches the server, reply reaches the client
	RadDrop           // request lost: the server never sees it, the client times out
	RadAckLoss        // server processes the request, the reply is lost
	RadSlow           // server processes the request, the reply takes SlowBy longer (still inside the client's timeout)
)

// RadiusNet is the simulated RADIUS transport + server front end.
type RadiusNet struct {
	S      *simrt.Sim
	Secret []byte
	// Decide is called when a request is about to be sent.
	Decide func(p *radius.Packet, addr string) int
	// Serve is called when the request reaches the server; it returns the reply.
	Serve func(p *radius.Packet, addr string, raw []byte) *radius.Packet
	// Acked is called when the reply has been handed back to a live client.
	Acked func(p *radius.Packet)
	// Step is a crash-point hook (kind = "radius-send" or "radius-reply").
	Step     func(kind string) bool
	Latency  time.Duration
	SlowBy   time.Duration // extra delay of a RadSlow reply (default 2 s)
	Requests int
}

func (r *RadiusNet) step(kind string) {
	if r.Step != nil && r.Step(kind) {
		r.S.Kill(r.S.CurrentNode())
	}
	r.S.DieIfDead()
}

func (r *RadiusNet) waitDeadline(ctx context.Context) error {
	<-ctx.Done()
	r.S.Pause()
	r.S.DieIfDead()
	return ctx.Err()
}

// Exchange implements simrt.RadiusFunc.
func (r *RadiusNet) Exchange(ctx context.Context, p *radius.Packet, addr string) (*radius.Packet, error) {
	r.Requests++
	raw, err := p.Encode()
	if err != nil {
		return nil, fmt.Errorf("encode: %w", err)
	}
	r.step("radius-send")
	outcome := RadOK
	if r.Decide != nil {
		outcome = r.Decide(p, addr)
	}
	if outcome == RadDrop {
		r.S.Fault("radius.drop")
		return nil, r.waitDeadline(ctx)
	}
	lat := r.Latency
	if lat <= 0 {
		lat = 5 * time.Millisecond
	}
	tm := time.NewTimer(lat)
	select {
	case <-tm.C:
	case <-ctx.Done():
		tm.Stop()
		r.S.Pause()
		r.S.DieIfDead()
		return nil, ctx.Err()
	}
	r.S.Pause()
	r.S.DieIfDead()
	// the bytes on the wire are what the server parses
	parsed, err := radius.Parse(raw, r.Secret)
	if err != nil {
		r.S.Logf("radius: server could not parse request: %v", err)
		return nil, r.waitDeadline(ctx)
	}
	resp := r.Serve(parsed, addr, raw)
	r.step("radius-reply")
	if outcome == RadAckLoss || resp == nil {
		r.S.Fault("radius.ackloss")
		return nil, r.waitDeadline(ctx)
	}
	if outcome == RadSlow {
		r.S.Fault("radius.slow-reply")
		d := r.SlowBy
		if d <= 0 {
			d = 2 * time.Second
		}
		tm := time.NewTimer(d)
		select {
		case <-tm.C:
		case <-ctx.Done():
			tm.Stop()
		}
		r.S.Pause()
		r.S.DieIfDead()
	}
	if ctx.Err() != nil {
		return nil, ctx.Err()
	}
	if r.Acked != nil {
		r.Acked(parsed)
	}
	return resp, nil
}
