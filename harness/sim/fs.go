package sim

import (
	"io/fs"
	"os"
	"path/filepath"
	"sort"
	"strings"
	"syscall"
	"time"

	"github.com/codelaboratoryltd/bng/pkg/simrt"
)

// FS is a process-crash model of a file system: every syscall-level step
// (mkdir, create/truncate, write chunk, close, unlink, readdir, read) is atomic
// and survives a process crash; a crash may land between any two steps,
// including inside WriteFile (leaving an empty or partial file).
type FS struct {
	S     *simrt.Sim
	Files map[string][]byte
	Dirs  map[string]bool
	// Step is called before every step with its kind; returning true crashes
	// the calling node at that point (the step does not happen).
	Step func(kind, path string) bool
	// Steps counts steps by kind.
	Steps map[string]int
	// Fail, when set, is asked before a file is created or replaced; a non-nil error (e.g.
	// syscall.ENOSPC: the disk is full) makes that call fail with no effect.
	Fail func(path string) error
}

func NewFS(s *simrt.Sim) *FS {
	return &FS{S: s, Files: map[string][]byte{}, Dirs: map[string]bool{"/": true}, Steps: map[string]int{}}
}

func (f *FS) step(kind, path string) {
	f.Steps[kind]++
	f.S.Logf("fs %s %s", kind, path)
	if f.Step != nil && f.Step(kind, path) {
		f.S.Kill(f.S.CurrentNode())
	}
	f.S.DieIfDead()
}

func notExist(op, path string) error {
	return &fs.PathError{Op: op, Path: path, Err: syscall.ENOENT}
}

func (f *FS) MkdirAll(path string, perm os.FileMode) error {
	path = filepath.Clean(path)
	f.step("mkdir", path)
	for p := path; p != "/" && p != "."; p = filepath.Dir(p) {
		f.Dirs[p] = true
	}
	return nil
}

func (f *FS) WriteFile(name string, data []byte, perm os.FileMode) error {
	name = filepath.Clean(name)
	if !f.Dirs[filepath.Dir(name)] {
		f.step("open-enoent", name)
		return notExist("open", name)
	}
	if f.Fail != nil {
		if err := f.Fail(name); err != nil {
			f.step("create-refused", name)
			return &fs.PathError{Op: "open", Path: name, Err: err}
		}
	}
	f.step("create", name)
	f.Files[name] = []byte{}
	// two write steps so that a torn (partial) file is a reachable crash state
	half := len(data) / 2
	f.step("write1", name)
	f.Files[name] = append([]byte(nil), data[:half]...)
	f.step("write2", name)
	f.Files[name] = append([]byte(nil), data...)
	f.step("close", name)
	return nil
}

func (f *FS) ReadFile(name string) ([]byte, error) {
	name = filepath.Clean(name)
	f.step("read", name)
	d, ok := f.Files[name]
	if !ok {
		return nil, notExist("open", name)
	}
	return append([]byte(nil), d...), nil
}

type dirEntry struct {
	name string
	dir  bool
}

func (d dirEntry) Name() string { return d.name }
func (d dirEntry) IsDir() bool  { return d.dir }
func (d dirEntry) Type() fs.FileMode {
	if d.dir {
		return fs.ModeDir
	}
	return 0
}
func (d dirEntry) Info() (fs.FileInfo, error) { return fileInfo{d}, nil }

type fileInfo struct{ d dirEntry }

func (i fileInfo) Name() string       { return i.d.name }
func (i fileInfo) Size() int64        { return 0 }
func (i fileInfo) Mode() fs.FileMode  { return i.d.Type() }
func (i fileInfo) ModTime() time.Time { return time.Time{} }
func (i fileInfo) IsDir() bool        { return i.d.dir }
func (i fileInfo) Sys() any           { return nil }

func (f *FS) ReadDir(name string) ([]fs.DirEntry, error) {
	name = filepath.Clean(name)
	f.step("readdir", name)
	if !f.Dirs[name] {
		return nil, notExist("open", name)
	}
	var out []fs.DirEntry
	seen := map[string]bool{}
	pre := name + "/"
	for p := range f.Files {
		if strings.HasPrefix(p, pre) && !strings.Contains(p[len(pre):], "/") {
			out = append(out, dirEntry{p[len(pre):], false})
		}
	}
	for p := range f.Dirs {
		if strings.HasPrefix(p, pre) && !strings.Contains(p[len(pre):], "/") && !seen[p] {
			seen[p] = true
			out = append(out, dirEntry{p[len(pre):], true})
		}
	}
	sort.Slice(out, func(i, j int) bool { return out[i].Name() < out[j].Name() })
	return out, nil
}

func (f *FS) Rename(oldp, newp string) error {
	oldp, newp = filepath.Clean(oldp), filepath.Clean(newp)
	f.step("rename", newp)
	d, ok := f.Files[oldp]
	if !ok {
		return notExist("rename", oldp)
	}
	delete(f.Files, oldp)
	f.Files[newp] = d
	return nil
}

func (f *FS) Remove(name string) error {
	name = filepath.Clean(name)
	f.step("unlink", name)
	if _, ok := f.Files[name]; !ok {
		return notExist("remove", name)
	}
	delete(f.Files, name)
	return nil
}
