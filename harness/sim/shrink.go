package sim

import (
	"fmt"
	"testing"
	"time"

	"github.com/codelaboratoryltd/bng/pkg/simrt"
)

// Replay runs a replay file once and returns the result.
func Replay(t *testing.T, scn *Scenario, rf *ReplayFile, trace bool) Result {
	return RunOne(t, scn, rf.Case.Clone(), simrt.NewReplayTape(rf.Tape), rf.Tier, trace)
}

func hasFP(res *Result, fp string) *Violation {
	for i := range res.Viols {
		if res.Viols[i].Fingerprint == fp {
			return &res.Viols[i]
		}
	}
	if len(res.Panics) > 0 {
		p := "panic/" + panicSite(res.Panics[0])
		if p == fp {
			return &Violation{Invariant: "panic", Fingerprint: p, Msg: res.Panics[0], Step: res.Steps}
		}
	}
	return nil
}

// Shrink minimises a failing replay while the same fingerprint persists.
func Shrink(t *testing.T, scn *Scenario, rf *ReplayFile, budget time.Duration) (*ReplayFile, error) {
	deadline := time.Now().Add(budget)
	fp := rf.Violation.Fingerprint
	cur := &ReplayFile{Property: rf.Property, Seed: rf.Seed, Run: rf.Run, Tier: rf.Tier, Case: rf.Case.Clone(), Tape: rf.Tape}
	res := Replay(t, scn, cur, false)
	v := hasFP(&res, fp)
	if v == nil {
		return nil, fmt.Errorf("replay of the recorded tape did not reproduce %s (log hash %x vs %x)", fp, res.LogHash, rf.LogHash)
	}
	if res.LogHash != rf.LogHash {
		return nil, fmt.Errorf("replay reproduced %s but with a different event log (hash %x vs %x)", fp, res.LogHash, rf.LogHash)
	}
	cur.Tape = res.Tape
	cur.Violation = v
	cur.LogHash = res.LogHash
	tries := 0
	try := func(cand *ReplayFile) bool {
		if time.Now().After(deadline) {
			return false
		}
		tries++
		r := Replay(t, scn, cand, false)
		if vv := hasFP(&r, fp); vv != nil {
			cand.Tape = r.Tape
			cand.Violation = vv
			cand.LogHash = r.LogHash
			cur = cand
			return true
		}
		return false
	}
	clone := func() *ReplayFile {
		c := &ReplayFile{Property: cur.Property, Seed: cur.Seed, Run: cur.Run, Tier: cur.Tier, Case: cur.Case.Clone(), Tape: map[string][]int{}}
		for k, v := range cur.Tape {
			c.Tape[k] = append([]int(nil), v...)
		}
		return c
	}
	for round := 0; round < 6 && time.Now().Before(deadline); round++ {
		progress := false
		// 1. truncate ops after the violating op
		if cur.Violation.OpIndex+1 < len(cur.Case.Ops) {
			c := clone()
			c.Case.Ops = c.Case.Ops[:cur.Violation.OpIndex+1]
			if try(c) {
				progress = true
			}
		}
		// 2. ddmin over ops
		for chunk := len(cur.Case.Ops) / 2; chunk >= 1; chunk /= 2 {
			for i := 0; i+chunk <= len(cur.Case.Ops); {
				c := clone()
				c.Case.Ops = append(append([]Op{}, c.Case.Ops[:i]...), c.Case.Ops[i+chunk:]...)
				if try(c) {
					progress = true
				} else {
					i += chunk
				}
				if time.Now().After(deadline) {
					break
				}
			}
		}
		// 3. zero / truncate tape streams (faults first, then schedule)
		for _, st := range []string{"crash", "disk", "net", "clock", "map", "rand", "sched"} {
			if len(cur.Tape[st]) == 0 {
				continue
			}
			c := clone()
			delete(c.Tape, st)
			if try(c) {
				progress = true
				continue
			}
			for chunk := len(cur.Tape[st]) / 2; chunk >= 1; chunk /= 2 {
				for i := 0; i < len(cur.Tape[st]); i += chunk {
					allZero := true
					for j := i; j < i+chunk && j < len(cur.Tape[st]); j++ {
						if cur.Tape[st][j] != 0 {
							allZero = false
						}
					}
					if allZero {
						continue
					}
					c := clone()
					for j := i; j < i+chunk && j < len(c.Tape[st]); j++ {
						c.Tape[st][j] = 0
					}
					if try(c) {
						progress = true
					}
					if time.Now().After(deadline) {
						break
					}
				}
				if chunk > 64 && tries > 4000 {
					break
				}
			}
		}
		// 4. simplify op arguments
		for i := range cur.Case.Ops {
			for j := range cur.Case.Ops[i].A {
				a := cur.Case.Ops[i].A[j]
				for _, nv := range []int64{0, a / 2, a - 1} {
					if nv == a || nv < 0 || i >= len(cur.Case.Ops) || j >= len(cur.Case.Ops[i].A) {
						continue
					}
					c := clone()
					c.Case.Ops[i].A[j] = nv
					if try(c) {
						progress = true
						break
					}
				}
			}
		}
		// 5. simplify knobs toward zero (skipmax, fault rates)
		for k, v := range cur.Case.Knobs {
			if v == 0 || k == "pool" || k == "geom" {
				continue
			}
			if k == "skipmax" || len(k) > 2 && k[:2] == "f_" {
				c := clone()
				if k == "skipmax" {
					continue
				}
				c.Case.Knobs[k] = 0
				if try(c) {
					progress = true
				}
			}
		}
		if !progress {
			break
		}
	}
	cur.Minimised = true
	cur.Note = fmt.Sprintf("minimised in %d candidate runs", tries)
	// final traced run for the event-log tail
	r := Replay(t, scn, cur, true)
	if vv := hasFP(&r, fp); vv != nil {
		cur.Ring = r.Ring
		if len(cur.Ring) > 120 {
			cur.Ring = cur.Ring[len(cur.Ring)-120:]
		}
		cur.LogHash = r.LogHash
		cur.Tape = r.Tape
		cur.Violation = vv
	}
	return cur, nil
}
