package scn

import (
	"fmt"
	"math"
	"sort"
	"strings"
	"time"

	"verif/harness/sim"
)

// C05 — address pools neither leak nor miscount.
//
// Same driver and variants as C01 (c01_driver.go), sequential histories only,
// biased towards what the property quantifies over: store write failures at
// every call index, bursts of epoch advances beyond the 2-bit generation wrap,
// repeated reloads and re-applied records. The oracle keeps, per subscriber,
// what it was given and when it last renewed, and checks after every operation
// (at a quiescent point):
//
//   (a) drain probe: fresh subscribers obtain exactly the usable units that no
//       live subscriber holds; a refusal while such a unit exists is a leak
//       (unit used before) or a phantom exhaustion (unit never used);
//   (b) a live subscriber (renewed within grace) keeps its value: nobody else is
//       handed it and Lookup keeps answering;
//   (c) released / expired / not-persisted units are obtainable again (via a);
//   (d) every statistics accessor reports allocated = |live|, total = usable
//       units, utilisation = allocated/total (as a fraction or a percentage).
//
// Where a persistence failure leaves the outcome open (a Release or Renew that
// returned the injected error) the subscriber is counted as "maybe live" and
// every count is checked against the resulting interval.

const c05Unknown = "?" // holds (possibly) a unit, which one is not known

type c05sub struct {
	val       string
	lo, hi    int  // epoch of the last renewal: certainly / possibly
	unsureRel bool // a Release failed on the injected store error
	ev        string
}

type c05world struct {
	c      *sim.Ctx
	d      poolDriver
	caps   pdCaps
	label  string
	units  []string
	uidx   map[string]int
	unitEv map[string]string
	subs   map[int]*c05sub
	epoch  int
	grace  int
	nsub   int
	nextID int
	startAt   time.Duration
	ticksSeen int
	wraps     int
	diverged  map[string]bool
	nghost    int
}

func (w *c05world) sure(s *c05sub) bool {
	if s == nil || s.val == "" || s.unsureRel {
		return false
	}
	return !w.caps.Lease || w.epoch-s.lo <= w.grace
}

func (w *c05world) maybe(s *c05sub) bool {
	if s == nil || s.val == "" {
		return false
	}
	return !w.caps.Lease || w.epoch-s.hi <= w.grace
}

func (w *c05world) sortedSubs() []int {
	ids := make([]int, 0, len(w.subs))
	for i := range w.subs {
		ids = append(ids, i)
	}
	sort.Ints(ids)
	return ids
}

func (w *c05world) counts() (sure, maybe int) {
	for _, s := range w.subs {
		if w.sure(s) {
			sure++
		}
		if w.maybe(s) {
			maybe++
		}
	}
	return
}

// resurrected: after a reload, subscribers the model does not count but the
// pool answers for (records loaded although released or expired). They are
// reported through the counters; from here on they are possible holders under
// their own name, so that a later renewal or re-ask of theirs is understood.
func (w *c05world) resurrected() int {
	if !w.caps.Lookup {
		return 0
	}
	n := 0
	try := func(id int) {
		if s := w.subs[id]; s != nil && w.maybe(s) {
			return
		}
		v, ok := w.d.Lookup(id)
		if !ok {
			return
		}
		if _, usable := w.uidx[v]; !usable {
			return
		}
		w.subs[id] = &c05sub{val: v, lo: w.epoch - w.grace - 1, hi: w.epoch, ev: "resurrected"}
		n++
	}
	for id := 0; id < w.nsub; id++ {
		try(id)
	}
	for id := 100; id < w.nextID; id++ {
		try(id)
	}
	return n
}

// addGhost: a holder the model did not expect (reported when it appeared); it
// counts as possibly live and occupies val (or an unknown unit).
func (w *c05world) addGhost(val string) {
	w.nghost++
	w.subs[1000+w.nghost] = &c05sub{val: val, lo: w.epoch, hi: w.epoch, unsureRel: true, ev: "ghost"}
}

func (w *c05world) settle() { w.c.S.Sleep(time.Millisecond) }

func (w *c05world) advance(n int) {
	for i := 0; i < n; i++ {
		w.epoch++
		if w.epoch >= 4 {
			w.wraps++
			if w.wraps == 1 {
				w.c.S.Probe("gen_wrap_reached")
			}
		}
		if !w.caps.Lease {
			continue
		}
		for _, id := range w.sortedSubs() {
			s := w.subs[id]
			if s.val != "" && w.epoch-s.hi > w.grace {
				w.unitEv[s.val] = "expired"
				delete(w.subs, id)
			}
		}
	}
}

func (w *c05world) syncTicks() {
	if !w.caps.Tick {
		return
	}
	n := int((w.c.S.Now() - w.startAt) / pdEpochPeriod)
	if n > w.ticksSeen {
		w.advance(n - w.ticksSeen)
		w.ticksSeen = n
	}
}

// holderOf: a subscriber other than `not` that holds v (sure first).
func (w *c05world) holdersOf(v string, not int) (sure, maybe []int) {
	for _, id := range w.sortedSubs() {
		s := w.subs[id]
		if id == not || s.val != v {
			continue
		}
		if w.sure(s) {
			sure = append(sure, id)
		} else if w.maybe(s) {
			maybe = append(maybe, id)
		}
	}
	return
}

// given: subscriber id was handed v by a successful call.
func (w *c05world) given(id int, v, how string) {
	c := w.c
	if _, ok := w.uidx[v]; !ok {
		// not a usable unit: C01's business, not counted here; whatever the
		// subscriber held before has been replaced by it
		if s := w.subs[id]; s != nil && s.val != "" {
			w.unitEv[s.val] = "replaced"
			delete(w.subs, id)
		}
		return
	}
	sure, maybe := w.holdersOf(v, id)
	for _, t := range sure {
		c.Fail("reclaimed", fmt.Sprintf("reclaimed/%s/handed-out/holder-%s", w.label, w.subs[t].ev),
			"%s: %s was handed %s while subscriber %d still holds it as a live lease (last event of the holder: %s, model epoch +%d, grace %d)",
			w.label, how, v, t, w.subs[t].ev, w.epoch, w.grace)
		delete(w.subs, t)
	}
	for _, t := range maybe {
		// this unit was free after all; the subscriber whose fate is open may still
		// hold some other unit (a lease-mode reload re-assigns addresses)
		w.subs[t].val = c05Unknown
	}
	s := w.subs[id]
	if s == nil {
		s = &c05sub{}
		w.subs[id] = s
	}
	if s.val != "" && s.val != v {
		w.unitEv[s.val] = "replaced"
	}
	if s.val == v && w.maybe(s) {
		s.ev = "reask"
	} else {
		s.ev = "alloc"
	}
	s.val, s.lo, s.hi, s.unsureRel = v, w.epoch, w.epoch, false
	w.unitEv[v] = "held"
}

// unknownHolders: possibly-live subscribers whose unit is not known; each may
// occupy one of the units that look free.
func (w *c05world) unknownHolders() int {
	n := 0
	for _, s := range w.subs {
		if s.val == c05Unknown && w.maybe(s) {
			n++
		}
	}
	return n
}

func (w *c05world) freeUnits() (free []string) {
	held := map[string]bool{}
	for _, s := range w.subs {
		if w.maybe(s) {
			held[s.val] = true
		}
	}
	for _, u := range w.units {
		if !held[u] {
			free = append(free, u)
		}
	}
	return
}

// refused: the pool refused a new subscriber although `missing` units are free.
func (w *c05world) refused(missing []string, how string, err error) {
	evs := map[string]bool{}
	for _, u := range missing {
		evs[w.unitEv[u]] = true
	}
	var names []string
	for e := range evs {
		names = append(names, e)
	}
	sort.Strings(names)
	// the fingerprint names the most telling history among the unobtainable units
	primary := "never-used"
	for _, e := range []string{"release-failed", "lost", "replaced", "expired", "released", "held"} {
		if evs[e] {
			primary = e
			break
		}
	}
	cat := "leak"
	if primary == "never-used" {
		cat = "phantom-exhaustion"
	}
	sure, maybe := w.counts()
	show := missing
	if len(show) > 6 {
		show = show[:6]
	}
	w.c.Fail(cat, fmt.Sprintf("%s/%s/%s", cat, w.label, primary),
		"%s: %s was refused (%v) although %d of %d usable units are held by nobody (live holders: %d certain, at most %d counting those whose fate a store failure left open; model epoch +%d, grace %d); unobtainable units e.g. %v with histories %v",
		w.label, how, err, len(missing), len(w.units), sure, maybe, w.epoch, w.grace, show, names)
}

// drain: fresh subscribers allocate until refused, then give everything back.
func (w *c05world) drain() {
	c, d := w.c, w.d
	d.Disarm()
	d.TakeFired()
	free := w.freeUnits()
	got := map[string]int{}
	var ids []int
	var vals []string
	var lastErr error
	limit := len(w.units) + 2
	for k := 0; k < limit; k++ {
		id := w.nextID
		w.nextID++
		v, err := d.Allocate(id)
		c.OpsDone++
		if err != nil {
			lastErr = err
			break
		}
		ids = append(ids, id)
		vals = append(vals, v)
		if _, ok := w.uidx[v]; !ok {
			continue
		}
		if prev, dup := got[v]; dup {
			c.Fail("reclaimed", fmt.Sprintf("reclaimed/%s/drain-duplicate", w.label), "%s: drain subscribers %d and %d were both handed %s", w.label, prev, id, v)
			continue
		}
		got[v] = id
		w.given(id, v, fmt.Sprintf("drain subscriber %d", id))
	}
	c.S.Logf("drain: %d obtained of %d free (%d usable), refusal=%v", len(got), len(free), len(w.units), lastErr)
	var missing []string
	for _, u := range free {
		if _, ok := got[u]; !ok {
			missing = append(missing, u)
		}
	}
	if len(missing) > w.unknownHolders() && lastErr != nil {
		w.refused(missing, "a fresh subscriber of the drain probe", lastErr)
	}
	if lastErr == nil && len(ids) >= limit {
		c.Fail("miscount", fmt.Sprintf("miscount/%s/never-exhausts", w.label), "%s: %d fresh subscribers all obtained a value from a pool of %d usable units", w.label, len(ids), len(w.units))
	}
	// give everything back
	for i, id := range ids {
		if w.caps.RelBySub {
			d.Release(id)
		} else if w.caps.RelByValue {
			d.ReleaseValue(vals[i])
		}
		if s := w.subs[id]; s != nil {
			w.unitEv[s.val] = "released"
			delete(w.subs, id)
		}
	}
	w.settle()
	w.syncTicks()
}

// audit: (b) lookups of live holders, (d) statistics.
func (w *c05world) audit(after string) {
	c, d := w.c, w.d
	if w.caps.Lookup {
		// a fate that a store failure left open is settled by what the pool says
		// now: it either still answers for the subscriber or it does not
		for _, id := range w.sortedSubs() {
			s := w.subs[id]
			if id >= 1000 || w.sure(s) || !w.maybe(s) {
				continue
			}
			v, ok := d.Lookup(id)
			if !ok {
				delete(w.subs, id)
				continue
			}
			if _, usable := w.uidx[v]; usable {
				s.val = v
				w.unitEv[v] = "held"
			}
			s.unsureRel = false
		}
		for _, id := range w.sortedSubs() {
			s := w.subs[id]
			if !w.sure(s) {
				continue
			}
			v, ok := d.Lookup(id)
			if !ok {
				c.Fail("reclaimed", fmt.Sprintf("reclaimed/%s/lookup-lost/%s/after-%s", w.label, s.ev, after),
					"%s: subscriber %d holds %s as a live lease (last renewal at model epoch +%d, now +%d, grace %d; last event %s) but Lookup no longer answers after %s",
					w.label, id, s.val, s.lo, w.epoch, w.grace, s.ev, after)
				w.unitEv[s.val] = "lost"
				if after == "reload" {
					// displaced while loading the store: the subscriber itself holds
					// nothing any more; whoever the pool gave the unit to instead is
					// picked up by resurrected() below
					delete(w.subs, id)
					continue
				}
				// what became of the unit is open from here on (it may come back, e.g.
				// from a store record on reload): no further obligations, counts as possible
				s.unsureRel = true
				continue
			}
			if v != s.val {
				if _, usable := w.uidx[v]; usable {
					w.unitEv[s.val] = "replaced"
					s.val = v
					w.unitEv[v] = "held"
				}
			}
		}
	}
	if !w.caps.Stats {
		return
	}
	sure, maybe := w.counts()
	named := 0
	if after == "reload" && w.caps.ReloadRefreshes {
		named = w.resurrected()
	}
	for _, st := range d.Stats() {
		// only the first divergence of a counter in a run is causal ("after-<op>");
		// once it has drifted every later reading is a consequence
		if w.diverged[st.Source] {
			continue
		}
		if st.Alloc < sure || st.Alloc > maybe {
			if after == "reload" && st.Alloc > maybe && w.caps.ReloadRefreshes {
				// records that no longer count were loaded as live: from here on they
				// are holders of unknown units (until their fresh lease runs out), so
				// that what follows is checked relative to this reported state
				for k := st.Alloc - maybe - named; k > 0; k-- {
					w.addGhost(c05Unknown)
				}
			} else {
				w.diverged[st.Source] = true
			}
			dir := "high"
			if st.Alloc < sure {
				dir = "low"
			}
			c.Fail("miscount", fmt.Sprintf("miscount/%s/%s-allocated-%s/after-%s", w.label, st.Source, dir, after),
				"%s: %s reports %d allocated after %s; live holders: %d certain, at most %d counting those whose fate a store failure left open (model epoch +%d, grace %d) %s",
				w.label, st.Source, st.Alloc, after, sure, maybe, w.epoch, w.grace, w.describe())
		}
		if st.Total != len(w.units) {
			c.Fail("miscount", fmt.Sprintf("miscount/%s/%s-total", w.label, st.Source),
				"%s: %s reports total %d, the configuration has %d usable units", w.label, st.Source, st.Total, len(w.units))
		}
		if st.HasUtil && st.Total > 0 {
			f := float64(st.Alloc) / float64(st.Total)
			if math.Abs(st.Util-f) > 1e-9 && math.Abs(st.Util-100*f) > 1e-7 {
				c.Fail("miscount", fmt.Sprintf("miscount/%s/%s-utilisation", w.label, st.Source),
					"%s: %s reports utilisation %v with allocated %d of total %d", w.label, st.Source, st.Util, st.Alloc, st.Total)
			}
		}
	}
	h := uint64(14695981039346656037)
	for _, id := range w.sortedSubs() {
		s := w.subs[id]
		if id < 100 && w.maybe(s) {
			h = (h ^ uint64(id*131+w.uidx[s.val])) * 1099511628211
		}
	}
	c.State(h ^ uint64(w.epoch&7)<<56 ^ uint64(len(w.units))<<44)
}

func (w *c05world) describe() string {
	var b strings.Builder
	b.WriteString("{")
	for _, id := range w.sortedSubs() {
		s := w.subs[id]
		if s.val == "" {
			continue
		}
		st := "live"
		if !w.sure(s) {
			st = "maybe"
			if !w.maybe(s) {
				st = "expired"
			}
		}
		fmt.Fprintf(&b, " %d:%s(%s,%s)", id, s.val, st, s.ev)
	}
	b.WriteString(" }")
	return b.String()
}

// ---------------------------------------------------------------------------

func c05Gen(r *sim.Rand, tier string) *sim.Case {
	cs := &sim.Case{Knobs: map[string]int64{}}
	for {
		cs.Variant = pdVariants[r.Weighted(9, 16, 4, 9, 4, 12, 18, 6, 3, 4, 6, 5, 0)]
		if cs.Variant != "nexus-hash" {
			break
		}
	}
	c01Knobs(r, cs)
	cs.Knobs["geo"] = int64(r.Weighted(12, 10, 8, 8, 5, 5, 3, 1, 1, 1, 1, 1, 1))
	// C05 is not quantified over schedules: watch notifications of local writes are
	// either absent or delivered in write order, and every operation runs to quiescence
	cs.Knobs["echo"] = int64(r.N(2))
	cs.Knobs["skipmax"] = int64(sim.Pick(r, 1, 8, 64))
	caps := pdStaticCaps(cs.Variant)
	nsub := int(cs.Knobs["nsub"])
	n := r.Range(5, 20)
	if tier == "thorough" {
		n = r.Range(5, 40)
	}
	b := func(on bool, w int) int {
		if on {
			return w
		}
		return 0
	}
	for i := 0; i < n; i++ {
		s := int64(r.N(nsub))
		switch r.Weighted(26, 12, b(caps.Lease, 9), b(caps.Lease, 12), b(caps.Tick, 3), b(caps.Reload, 6), b(caps.Set, 6), b(caps.Faults, 10), 6, b(caps.RelByValue && caps.RelBySub, 3)) {
		case 0:
			cs.Ops = append(cs.Ops, sim.Op{K: "alloc", A: []int64{s}})
		case 1:
			cs.Ops = append(cs.Ops, sim.Op{K: "rel", A: []int64{s}})
		case 2:
			cs.Ops = append(cs.Ops, sim.Op{K: "renew", A: []int64{s}})
		case 3:
			cs.Ops = append(cs.Ops, sim.Op{K: "adv", A: []int64{int64(r.Weighted(0, 5, 4, 3, 3, 2, 1, 1, 1, 1))}})
		case 4:
			cs.Ops = append(cs.Ops, sim.Op{K: "tick", A: []int64{int64(r.Range(1, 3))}})
		case 5:
			cs.Ops = append(cs.Ops, sim.Op{K: "reload", A: []int64{int64(r.Range(1, 3))}})
		case 6:
			cs.Ops = append(cs.Ops, sim.Op{K: "set", A: []int64{s, int64(r.N(64)), int64(r.Range(1, 3)), int64(r.N(3))}})
		case 7:
			cs.Ops = append(cs.Ops, sim.Op{K: "fail", A: []int64{int64(r.N(pfNum)), int64(r.N(3))}})
		case 8:
			cs.Ops = append(cs.Ops, sim.Op{K: "drain"})
		case 9:
			cs.Ops = append(cs.Ops, sim.Op{K: "relv", A: []int64{s}})
		}
	}
	return cs
}

func c05Run(c *sim.Ctx) {
	cs := c.Case
	d, err := newPoolDriver(c)
	if err != nil {
		if pdConfigRejected(c, err) {
			return // no verdict: the configuration does not exist
		}
		panic(fmt.Sprintf("c05: cannot build %s: %v", cs.Variant, err))
	}
	w := &c05world{c: c, d: d, caps: d.Caps(), units: d.Units(), uidx: map[string]int{}, unitEv: map[string]string{}, subs: map[int]*c05sub{}, diverged: map[string]bool{},
		nsub: int(cs.Knob("nsub", 3)), nextID: 100, grace: int(cs.Knob("grace", 1))}
	if w.nsub < 1 {
		w.nsub = 1
	}
	if w.nsub > 6 {
		w.nsub = 6
	}
	if len(w.units) == 0 {
		panic("c05: pool geometry has no usable unit")
	}
	for i, u := range w.units {
		w.uidx[u] = i
		w.unitEv[u] = "never-used"
	}
	w.label = pdVariantLabel(c, d, true, false)
	w.startAt = c.S.Now()
	defer func() {
		d.Close()
		w.settle()
	}()
	sub := func(a int64) int {
		if a < 0 {
			a = -a
		}
		return int(a % int64(w.nsub))
	}
	w.audit("start")
	for i, op := range cs.Ops {
		c.OpIdx = i
		if c.Failed() {
			return
		}
		after := op.K
		switch op.K {
		case "alloc":
			id := sub(op.Arg(0))
			s := w.subs[id]
			wasSure := w.sure(s)
			v, err := d.Allocate(id)
			fired := d.TakeFired()
			c.OpsDone++
			c.S.Logf("Allocate(%d) -> %q err=%v", id, v, err)
			if err == nil {
				w.given(id, v, fmt.Sprintf("subscriber %d", id))
			} else if fired {
				after = "failed-alloc"
				if s != nil && s.val != "" {
					// a re-ask is a renewal; one that failed on the injected store
					// error may or may not have extended the lease (as a failed Renew)
					s.hi = w.epoch
				}
				if wasSure {
					s.ev = "failed-reask"
					after = "failed-reask"
				}
			} else if !w.maybe(s) {
				// a new subscriber was refused with no fault injected
				if free := w.freeUnits(); len(free) > w.unknownHolders() {
					w.refused(free, fmt.Sprintf("Allocate for new subscriber %d", id), err)
				}
			}
		case "rel", "relv":
			id := sub(op.Arg(0))
			s := w.subs[id]
			var err error
			if op.K == "rel" && w.caps.RelBySub {
				err = d.Release(id)
			} else if w.caps.RelByValue {
				if s == nil || s.val == "" {
					continue
				}
				err = d.ReleaseValue(s.val)
			} else {
				continue
			}
			fired := d.TakeFired()
			c.OpsDone++
			c.S.Logf("Release(%d) -> err=%v", id, err)
			if s != nil && s.val != "" {
				if err != nil && fired {
					s.unsureRel = true
					s.ev = "failed-release"
					w.unitEv[s.val] = "release-failed"
					after = "failed-release"
				} else {
					w.unitEv[s.val] = "released"
					delete(w.subs, id)
				}
			}
		case "renew":
			if !w.caps.Lease {
				continue
			}
			id := sub(op.Arg(0))
			s := w.subs[id]
			wasSure := w.sure(s)
			err := d.Renew(id)
			fired := d.TakeFired()
			c.OpsDone++
			c.S.Logf("Renew(%d) -> err=%v", id, err)
			switch {
			case err == nil && s != nil && s.val != "" && !s.unsureRel:
				if !w.maybe(s) {
					if sure, _ := w.holdersOf(s.val, id); len(sure) > 0 {
						break
					}
				}
				s.lo, s.hi, s.ev = w.epoch, w.epoch, "renew"
				w.unitEv[s.val] = "held"
			case err != nil && fired && s != nil:
				s.hi = w.epoch
				if wasSure {
					s.ev = "failed-renew"
				}
				after = "failed-renew"
			case err != nil && wasSure:
				c.Fail("reclaimed", fmt.Sprintf("reclaimed/%s/renew-refused/%s", w.label, s.ev),
					"%s: Renew(%d) failed with %v although the subscriber holds %s as a live lease (last renewal at model epoch +%d, now +%d, grace %d)", w.label, id, err, s.val, s.lo, w.epoch, w.grace)
			}
		case "adv":
			if !w.caps.Lease {
				continue
			}
			n := int(op.Arg(0))
			if n < 1 {
				n = 1
			}
			if n > 9 {
				n = 9
			}
			for k := 0; k < n; k++ {
				d.Advance()
			}
			w.advance(n)
			c.OpsDone++
			c.S.Logf("AdvanceEpoch x%d -> model epoch +%d", n, w.epoch)
		case "tick":
			if !w.caps.Tick {
				continue
			}
			after = "adv"
			n := int(op.Arg(0))
			if n < 1 {
				n = 1
			}
			if n > 3 {
				n = 3
			}
			for k := 0; k < n; k++ {
				c.S.Sleep(pdEpochPeriod)
				w.settle()
			}
			w.syncTicks()
			c.OpsDone++
			c.S.Logf("tick x%d -> model epoch +%d", n, w.epoch)
		case "reload":
			if !w.caps.Reload {
				continue
			}
			n := int(op.Arg(0))
			if n < 1 {
				n = 1
			}
			if n > 3 {
				n = 3
			}
			d.Disarm()
			for k := 0; k < n; k++ {
				w.settle()
				w.syncTicks()
				if err := d.Reload(); err != nil {
					panic(fmt.Sprintf("c05: reload of %s failed: %v", w.label, err))
				}
				w.startAt, w.ticksSeen = c.S.Now(), 0
			}
			if w.caps.ReloadRefreshes {
				for _, id := range w.sortedSubs() {
					if s := w.subs[id]; s.val != "" {
						s.hi = w.epoch
					}
				}
			}
			for _, id := range w.sortedSubs() {
				if s := w.subs[id]; w.sure(s) {
					s.ev = "reload"
				}
			}
			c.OpsDone++
			c.S.Logf("reload x%d", n)
		case "set":
			if !w.caps.Set {
				continue
			}
			// re-apply a record the way a replay from the authoritative store does:
			// the subscriber's own record (idempotent), or a move to a free unit
			id := sub(op.Arg(0))
			s := w.subs[id]
			v := ""
			if op.Arg(3) != 0 || s == nil || s.val == "" {
				free := w.freeUnits()
				if len(free) == 0 {
					continue
				}
				a := op.Arg(1)
				if a < 0 {
					a = -a
				}
				v = free[int(a)%len(free)]
			} else {
				v = s.val
			}
			n := int(op.Arg(2))
			if n < 1 {
				n = 1
			}
			if n > 3 {
				n = 3
			}
			var err error
			for k := 0; k < n && err == nil; k++ {
				err = d.SetAlloc(id, v)
			}
			c.OpsDone++
			c.S.Logf("SetAllocation(%d,%s) x%d -> err=%v", id, v, n, err)
			if err == nil {
				w.given(id, v, fmt.Sprintf("SetAllocation for subscriber %d", id))
				w.subs[id].ev = "set"
			}
		case "fail":
			if !w.caps.Faults {
				continue
			}
			kind, k := int(op.Arg(0)), int(op.Arg(1))
			if kind < 0 {
				kind = -kind
			}
			if k < 0 {
				k = -k
			}
			if d.ArmFault(kind%pfNum, k%3) {
				c.S.Logf("arm store fault %s +%d", pfNames[kind%pfNum], k%3)
			}
			continue
		case "drain":
			w.settle()
			w.syncTicks()
			w.drain()
		default:
			continue
		}
		w.settle()
		w.syncTicks()
		w.audit(after)
	}
	if c.Failed() {
		return
	}
	c.OpIdx = len(cs.Ops)
	w.drain()
	w.audit("drain")
}

func init() {
	sim.Register(&sim.Scenario{
		ID:  "C05",
		Gen: c05Gen,
		Run: c05Run,
		Real: []string{"allocator.IPAllocator", "allocator.EpochBitmapAllocator", "allocator.PoolAllocator + MemoryAllocationStore", "allocator.LocalAllocator",
			"allocator.DistributedAllocator (session and lease mode, epochLoop ticker + store cleanup, watch handler)", "dhcp.Pool", "dhcpv6.AddressPool", "dhcpv6.PrefixPool",
			"pppoe.IPPool", "pool.PeerPool (single node)"},
		Stub: []string{"allocator.Store (in-memory key-value store: Query order, Put/Delete/Get failures at a chosen call index, watch echo of local writes)",
			"AllocationStore wrapper that fails SaveAllocation/RemoveAllocation at a chosen call", "persistence medium of marshal/unmarshal reloads (a byte slice)"},
		Rule: "cases: one pool variant x geometry x 2-6 subscribers x 5-40 allocate/release/renew/epoch-burst(1-9)/tick/reload(x1-3)/re-applied record/store-fault/drain ops, audited after every op and drained at the end; non-trivial = >=3 completed operations and (a fault fired or >2 context switches or a preemption); distinct = distinct (case hash, schedule fingerprint)",
		QuickRuns:    15000,
		ThoroughRuns: 1500000,
		Assumptions: []string{"a lease is live while (current epoch - epoch of last allocate/renew) <= configured grace", "a Release or Renew that returned the injected store error leaves the subscriber 'possibly live'; counts are checked against the interval",
			"a reload of a store-backed lease pool may restart the lease clock of the records it loads", "usable units are computed from the configuration as documented by each pool; values outside them are C01's concern and are not counted",
			"utilisation may be reported as a fraction or as a percentage"},
	})
}
