package scn

import (
	"context"
	"encoding/binary"
	"fmt"
	"net"
	"time"

	"github.com/codelaboratoryltd/bng/pkg/pppoe"
	bngradius "github.com/codelaboratoryltd/bng/pkg/radius"
	"github.com/codelaboratoryltd/bng/pkg/simrt"
	"go.uber.org/zap"
	"layeh.com/radius"
	"layeh.com/radius/rfc2865"

	"verif/harness/sim"
)

// C04 — no PPPoE session gets IP service without successful authentication;
// frames from a MAC that does not own the session never change it.
//
// Real pppoe.Server discovery/session handlers over an in-memory raw socket,
// real radius.Client.Authenticate against a simulated RADIUS server. Frames
// are delivered in arbitrary (generated) order from owner and foreign MACs.

type pppFrame struct {
	dst   net.HardwareAddr
	etype uint16
	code  uint8
	sid   uint16
	proto uint16
	body  []byte
}

type c04sock struct{ w *c04world }

// Recv feeds the server's own receive loop (rxloop mode): it parks until the
// harness has queued a frame.
func (s c04sock) Recv(buf []byte) (int, error) {
	w := s.w
	w.rxIdle = true
	w.c.S.WaitUntil(func() bool { return len(w.rxq) > 0 || w.rxStop })
	w.rxIdle = false
	if len(w.rxq) == 0 {
		return 0, fmt.Errorf("socket closed")
	}
	f := w.rxq[0]
	w.rxq = w.rxq[1:]
	return copy(buf, f), nil
}

func (s c04sock) Send(iface string, dst net.HardwareAddr, etherType uint16, frame []byte) error {
	s.w.onSend(dst, etherType, frame)
	return nil
}

type c04peer struct {
	idx    int
	mac    net.HardwareAddr
	sid    uint16 // PPPoE session id from the last PADS
	cookie []byte
	papID  byte
	cfgID  byte
}

type c04world struct {
	c        *sim.Ctx
	srv      *pppoe.Server
	peers    []*c04peer
	byMAC    map[string]*c04peer
	radius   bool
	sent     []pppFrame
	accepted map[string]bool // session.SessionID -> authentication accepted
	radAcc   map[string]int  // user name -> Access-Accepts returned by the RADIUS server
	radOut   []int64         // outcomes for successive Access-Requests (0 accept,1 reject,2 timeout)
	radIdx   int
	curSrc   net.HardwareAddr
	curKind  string
	emitted  int
	sidOwner map[uint16]string // PPPoE session id -> MAC the PADS was sent to
	rxq      [][]byte
	rxIdle   bool
	rxStop   bool
}

func (w *c04world) sessionByID(id uint16) *pppoe.Session {
	return w.srv.VerifSessionManager().GetSession(id)
}

func (w *c04world) onSend(dst net.HardwareAddr, etype uint16, frame []byte) {
	c := w.c
	w.emitted++
	if len(frame) < 14+6 {
		return
	}
	p := frame[14:]
	code, sid, ln := p[1], binary.BigEndian.Uint16(p[2:4]), int(binary.BigEndian.Uint16(p[4:6]))
	if 6+ln > len(p) {
		ln = len(p) - 6
	}
	f := pppFrame{dst: dst, etype: etype, code: code, sid: sid}
	if etype == pppoe.EtherTypePPPoESession && ln >= 2 {
		f.proto = binary.BigEndian.Uint16(p[6:8])
		f.body = append([]byte(nil), p[8:6+ln]...)
	} else {
		f.body = append([]byte(nil), p[6:6+ln]...)
	}
	w.sent = append(w.sent, f)
	c.S.Logf("sent etype=%04x code=%d sid=%d proto=%04x len=%d to %s", etype, code, sid, f.proto, len(f.body), dst)
	if etype == pppoe.EtherTypePPPoEDiscovery {
		if code == pppoe.CodePADS {
			w.sidOwner[sid] = dst.String()
		}
		if peer := w.byMAC[dst.String()]; peer != nil && code == pppoe.CodePADS {
			peer.sid = sid
		}
		if peer := w.byMAC[dst.String()]; peer != nil && code == pppoe.CodePADO {
			if tags, err := pppoe.ParseTags(f.body); err == nil {
				if ck := pppoe.FindTag(tags, pppoe.TagACCookie); ck != nil {
					peer.cookie = ck.Value
				}
			}
		}
		return
	}
	sess := w.sessionByID(sid)
	if sess == nil || len(f.body) < 4 {
		return
	}
	key := sess.SessionID
	switch f.proto {
	case pppoe.ProtocolPAP:
		if f.body[0] == pppoe.PAPCodeAuthAck && dst.String() == w.sidOwner[sid] {
			if !w.radius || w.radAcc[sess.Username] > 0 {
				w.accepted[key] = true
			} else {
				c.Fail("auth", "auth/ack-without-radius-accept", "PAP Authenticate-Ack sent for session %d (user %q) although RADIUS never accepted that user", sid, sess.Username)
			}
		}
	case pppoe.ProtocolIPCP:
		if w.accepted[key] {
			return
		}
		switch f.body[0] {
		case pppoe.LCPCodeConfigAck:
			c.Fail("ip-before-auth", "ipservice-unauth/ipcp-ack/"+w.curKind, "IPCP Configure-Ack sent for session %d before its authentication was accepted (triggered by %s)", sid, w.curKind)
		case pppoe.LCPCodeConfigNak, pppoe.LCPCodeConfigRequest:
			opts, _ := parseOpts(f.body[4:])
			for _, o := range opts {
				if o.Type == pppoe.IPCPOptIPAddress && f.body[0] == pppoe.LCPCodeConfigNak {
					c.Fail("ip-before-auth", "ipservice-unauth/ipcp-nak-address/"+w.curKind, "IPCP Configure-Nak assigning %v sent for session %d before its authentication was accepted", net.IP(o.Data), sid)
				}
			}
		}
	}
}

type c04snap struct {
	exists bool
	state  pppoe.SessionState
	auth   bool
	ip     string
	key    string
}

func (w *c04world) snap(id uint16) c04snap {
	s := w.sessionByID(id)
	if s == nil {
		return c04snap{}
	}
	return c04snap{true, s.GetState(), s.Authenticated, s.ClientIP.String(), s.SessionID}
}

// checkAll: IP service implies accepted authentication, for every session.
func (w *c04world) checkAll(after string) {
	c := w.c
	for _, s := range w.srv.VerifSessionManager().GetAllSessions() {
		if w.accepted[s.SessionID] {
			continue
		}
		if s.GetState() == pppoe.StateEstablished {
			c.Fail("ip-before-auth", "ipservice-unauth/established/"+after, "session %d is Established after %s although its authentication was never accepted (Authenticated=%v)", s.ID, after, s.Authenticated)
		}
		if s.ClientIP != nil {
			c.Fail("ip-before-auth", "ipservice-unauth/client-ip/"+after, "session %d holds client address %v after %s although its authentication was never accepted", s.ID, s.ClientIP, after)
		}
	}
}

func c04Gen(r *sim.Rand, tier string) *sim.Case {
	cs := &sim.Case{Knobs: map[string]int64{}}
	cs.Variant = sim.Pick(r, "radius", "radius", "noradius")
	cs.Knobs["peers"] = int64(r.Range(1, 3))
	cs.Knobs["skipmax"] = int64(sim.Pick(r, 1, 2, 8))
	cs.Knobs["maporder"] = int64(r.N(4))
	cs.Knobs["rxloop"] = int64(r.N(2))
	np := int(cs.Knobs["peers"])
	n := r.Range(4, 14)
	if tier == "thorough" {
		n = r.Range(4, 26)
	}
	// most runs begin with a discovery so that there is a session to talk about
	for p := 0; p < np && r.P(80); p++ {
		cs.Ops = append(cs.Ops, sim.Op{K: "padi", A: []int64{int64(p)}}, sim.Op{K: "padr", A: []int64{int64(p)}})
	}
	for i := 0; i < n; i++ {
		p := int64(r.N(np))         // whose session the frame names
		src := int64(r.Weighted(7, 2, 1)) // 0 owner, 1 another peer's MAC, 2 an outsider MAC
		switch r.Weighted(2, 3, 2, 4, 2, 1, 2, 2, 8, 5, 6, 2, 2, 2) {
		case 13:
			cs.Ops = append(cs.Ops, sim.Op{K: "admindisc", A: []int64{p}})
		case 0:
			cs.Ops = append(cs.Ops, sim.Op{K: "padi", A: []int64{p}})
		case 1:
			cs.Ops = append(cs.Ops, sim.Op{K: "padr", A: []int64{p}})
		case 2:
			cs.Ops = append(cs.Ops, sim.Op{K: "padt", A: []int64{p, src}})
		case 3:
			cs.Ops = append(cs.Ops, sim.Op{K: "lcp-req", A: []int64{p, src}})
		case 4:
			cs.Ops = append(cs.Ops, sim.Op{K: "lcp-ack", A: []int64{p, src}})
		case 5:
			cs.Ops = append(cs.Ops, sim.Op{K: "lcp-nak", A: []int64{p, src}})
		case 6:
			cs.Ops = append(cs.Ops, sim.Op{K: "lcp-term", A: []int64{p, src}})
		case 7:
			cs.Ops = append(cs.Ops, sim.Op{K: "lcp-echo", A: []int64{p, src}})
		case 8:
			// pap: good/bad password, RADIUS outcome 0 accept (if good) / 1 reject / 2 timeout
			cs.Ops = append(cs.Ops, sim.Op{K: "pap", A: []int64{p, src, int64(r.Weighted(6, 4)), int64(r.Weighted(7, 2, 1))}})
		case 9:
			cs.Ops = append(cs.Ops, sim.Op{K: "ipcp-req", A: []int64{p, src, int64(r.N(3))}})
		case 10:
			cs.Ops = append(cs.Ops, sim.Op{K: "ipcp-ack", A: []int64{p, src}})
		case 11:
			cs.Ops = append(cs.Ops, sim.Op{K: "ip", A: []int64{p, src}})
		case 12:
			cs.Ops = append(cs.Ops, sim.Op{K: "sleep", A: []int64{int64(sim.Pick(r, 1, 31, 301))}})
		}
	}
	return cs
}

func c04Run(c *sim.Ctx) {
	cs := c.Case
	w := &c04world{c: c, byMAC: map[string]*c04peer{}, accepted: map[string]bool{}, radAcc: map[string]int{}, radius: cs.Variant == "radius",
		sidOwner: map[uint16]string{}}
	rxloop := cs.Knob("rxloop", 0) == 1
	iface := &net.Interface{Index: 2, MTU: 1500, Name: "sim0", HardwareAddr: net.HardwareAddr{0x02, 0xbb, 0, 0, 0, 1}}
	srv, err := pppoe.VerifNewServerWithSocket(pppoe.ServerConfig{Interface: "sim0", ACName: "ac", ServiceName: "internet",
		ServerIP: "10.0.0.1", ClientPool: "10.0.0.0/29", PoolGateway: "10.0.0.1", PrimaryDNS: "9.9.9.9", SessionTimeout: 5 * time.Minute},
		zap.NewNop(), iface, c04sock{w})
	if err != nil {
		panic(err)
	}
	w.srv = srv
	// server-initiated disconnects go through the package's SessionTeardown over the server's own
	// session table and pool (PADT, retry after a delay, cleanup)
	td := pppoe.NewSessionTeardown(pppoe.DefaultTeardownConfig(), zap.NewNop())
	td.SetSessionManager(srv.VerifSessionManager())
	td.SetIPPool(srv.VerifPool())
	td.SetSendPADT(func(s *pppoe.Session, _ []pppoe.Tag) { c.S.Logf("teardown sends PADT for session %d", s.ID) })
	var tdTasks []*simrt.Task
	tearing := map[uint16]bool{}
	if w.radius {
		cl, err := bngradius.NewClient(bngradius.ClientConfig{Servers: []bngradius.ServerConfig{{Host: "radius.sim", Port: 1812, Secret: "s3cret"}},
			NASID: "bng", Timeout: 3 * time.Second, Retries: 3}, zap.NewNop())
		if err != nil {
			panic(err)
		}
		srv.SetRADIUSClient(cl)
		rn := &sim.RadiusNet{S: c.S, Secret: []byte("s3cret"), Latency: 5 * time.Millisecond}
		rn.Decide = func(p *radius.Packet, addr string) int {
			if w.radIdx < len(w.radOut) && w.radOut[w.radIdx] == 2 {
				return sim.RadDrop
			}
			return sim.RadOK
		}
		rn.Serve = func(p *radius.Packet, addr string, raw []byte) *radius.Packet {
			out := int64(0)
			if w.radIdx < len(w.radOut) {
				out = w.radOut[w.radIdx]
			}
			user := rfc2865.UserName_GetString(p)
			pass := rfc2865.UserPassword_GetString(p)
			if p.Code == radius.CodeAccessRequest && out == 0 && pass == "good" {
				w.radAcc[user]++
				c.S.Logf("radius accept %s", user)
				return p.Response(radius.CodeAccessAccept)
			}
			c.S.Logf("radius reject %s", user)
			c.S.Fault("radius.reject")
			return p.Response(radius.CodeAccessReject)
		}
		c.S.Radius = rn.Exchange
	}
	np := int(cs.Knob("peers", 1))
	if np < 1 {
		np = 1
	}
	for i := 0; i < np; i++ {
		p := &c04peer{idx: i, mac: net.HardwareAddr{0x02, 0xaa, 0, 0, 0, byte(i + 1)}}
		w.peers = append(w.peers, p)
		w.byMAC[p.mac.String()] = p
	}
	outsider := net.HardwareAddr{0x02, 0xee, 0, 0, 0, 0x99}
	ctx, cancel := context.WithCancel(context.Background())
	defer cancel()
	c.S.Spawn("pppoe-cleanup", nil, func() { srv.VerifRunCleanup(ctx) })
	if rxloop {
		// frames travel through the server's real receive loop (and its reused
		// receive buffer) instead of being handed to the handlers directly
		c.S.Spawn("pppoe-rx", nil, func() { srv.VerifRunReceiveLoop(ctx) })
		defer func() { w.rxStop = true }()
	}

	pppoeHdr := func(code uint8, sid uint16, payload []byte) []byte {
		b := make([]byte, 6+len(payload))
		b[0], b[1] = 0x11, code
		binary.BigEndian.PutUint16(b[2:], sid)
		binary.BigEndian.PutUint16(b[4:], uint16(len(payload)))
		copy(b[6:], payload)
		return b
	}
	tag := func(t uint16, v []byte) []byte {
		b := make([]byte, 4+len(v))
		binary.BigEndian.PutUint16(b, t)
		binary.BigEndian.PutUint16(b[2:], uint16(len(v)))
		copy(b[4:], v)
		return b
	}
	ppp := func(sid uint16, proto uint16, body []byte) []byte {
		pl := make([]byte, 2+len(body))
		binary.BigEndian.PutUint16(pl, proto)
		copy(pl[2:], body)
		return pppoeHdr(pppoe.CodeSession, sid, pl)
	}
	srcOf := func(p *c04peer, sel int64) (net.HardwareAddr, bool) {
		switch sel {
		case 1:
			if len(w.peers) > 1 {
				return w.peers[(p.idx+1)%len(w.peers)].mac, false
			}
			return outsider, false
		case 2:
			return outsider, false
		}
		return p.mac, true
	}

	deliver := func(kind string, disc bool, src net.HardwareAddr, owner bool, sid uint16, payload []byte) {
		before := w.snap(sid)
		em0 := w.emitted
		w.curSrc, w.curKind = src, kind
		if !owner {
			c.S.Fault("frame.foreign-mac")
		}
		c.S.Logf("deliver %s sid=%d src=%s owner=%v", kind, sid, src, owner)
		if rxloop {
			dst := iface.HardwareAddr
			if kind == "padi" {
				dst = net.HardwareAddr{0xff, 0xff, 0xff, 0xff, 0xff, 0xff}
			}
			et := uint16(pppoe.EtherTypePPPoESession)
			if disc {
				et = pppoe.EtherTypePPPoEDiscovery
			}
			fr := append(append(append([]byte{}, dst...), src...), byte(et>>8), byte(et))
			w.rxq = append(w.rxq, append(fr, payload...))
			c.S.WaitUntil(func() bool { return len(w.rxq) == 0 && w.rxIdle })
		} else {
			t := c.S.Spawn("rx", nil, func() {
				if disc {
					srv.VerifDiscovery(src, payload)
				} else {
					srv.VerifSession(src, payload)
				}
			})
			c.S.Join(t)
		}
		c.OpsDone++
		// let goroutines the handler started (LCP start) finish
		c.S.Sleep(time.Millisecond)
		if !owner && before.exists && !tearing[sid] { // (a session under server-initiated teardown changes on its own)
			after := w.snap(sid)
			switch {
			case !after.exists || after.key != before.key:
				c.Fail("foreign-mac", "foreign/"+kind+"/terminated", "%s from %s (not the owner) removed session %d", kind, src, sid)
			case after.state != before.state:
				c.Fail("foreign-mac", "foreign/"+kind+"/state", "%s from %s (not the owner) moved session %d from %v to %v", kind, src, sid, before.state, after.state)
			case after.auth != before.auth:
				c.Fail("foreign-mac", "foreign/"+kind+"/authenticated", "%s from %s (not the owner) changed the authenticated flag of session %d", kind, src, sid)
			case after.ip != before.ip:
				c.Fail("foreign-mac", "foreign/"+kind+"/client-ip", "%s from %s (not the owner) changed the client address of session %d", kind, src, sid)
			}
			for _, f := range w.sent[len(w.sent)-(w.emitted-em0):] {
				if f.sid == sid && f.etype == pppoe.EtherTypePPPoESession {
					c.Fail("foreign-mac", "foreign/"+kind+"/answered", "%s from %s (not the owner) made the server emit a frame for session %d", kind, src, sid)
				}
			}
		}
		w.checkAll(kind)
	}

	for i, op := range cs.Ops {
		c.OpIdx = i
		if c.Failed() {
			break
		}
		pi := int(op.Arg(0))
		if op.K != "sleep" && (pi < 0 || pi >= len(w.peers)) {
			continue
		}
		switch op.K {
		case "sleep":
			if op.Arg(0) > 30 {
				c.S.Fault("clock.jump-past-cleanup-tick")
			}
			c.S.Sleep(time.Duration(op.Arg(0)) * time.Second)
			w.checkAll("sleep")
		case "admindisc":
			// an operator disconnects the peer's session while its frames keep arriving
			p := w.peers[pi]
			if p.sid == 0 {
				continue
			}
			if sess := srv.VerifSessionManager().GetSession(p.sid); sess != nil {
				c.S.Fault("terminate.server-initiated")
				tearing[p.sid] = true
				tdTasks = append(tdTasks, c.S.Spawn("admin-disconnect", nil, func() {
					td.TerminateSession(sess, pppoe.TerminateCauseAdminReset, "")
				}))
				c.S.Pause()
				w.checkAll("admindisc")
			}
		case "padi":
			p := w.peers[pi]
			deliver("padi", true, p.mac, true, 0, pppoeHdr(pppoe.CodePADI, 0, append(tag(pppoe.TagServiceName, nil), tag(pppoe.TagHostUniq, []byte{byte(pi), 1})...)))
		case "padr":
			p := w.peers[pi]
			tags := tag(pppoe.TagServiceName, []byte("internet"))
			if p.cookie != nil {
				tags = append(tags, tag(pppoe.TagACCookie, p.cookie)...)
			}
			deliver("padr", true, p.mac, true, 0, pppoeHdr(pppoe.CodePADR, 0, tags))
		default:
			p := w.peers[pi]
			if p.sid == 0 {
				continue
			}
			src, owner := srcOf(p, op.Arg(1))
			// the owner of a session is the MAC its PADS was sent to (the harness's
			// own record, not the server's bookkeeping)
			if o, ok := w.sidOwner[p.sid]; ok {
				owner = o == src.String()
			}
			switch op.K {
			case "padt":
				deliver("padt", true, src, owner, p.sid, pppoeHdr(pppoe.CodePADT, p.sid, nil))
			case "lcp-req":
				p.cfgID++
				deliver("lcp-req", false, src, owner, p.sid, ppp(p.sid, pppoe.ProtocolLCP, cpPacket(1, p.cfgID, serOpts([]cpOpt{{1, []byte{0x05, 0xd4}}, {5, []byte{1, 2, 3, byte(pi)}}}))))
			case "lcp-ack":
				deliver("lcp-ack", false, src, owner, p.sid, ppp(p.sid, pppoe.ProtocolLCP, cpPacket(2, 1, nil)))
			case "lcp-nak":
				deliver("lcp-nak", false, src, owner, p.sid, ppp(p.sid, pppoe.ProtocolLCP, cpPacket(3, 1, serOpts([]cpOpt{{1, []byte{0x05, 0x78}}}))))
			case "lcp-term":
				deliver("lcp-term", false, src, owner, p.sid, ppp(p.sid, pppoe.ProtocolLCP, cpPacket(5, 9, nil)))
			case "lcp-echo":
				deliver("lcp-echo", false, src, owner, p.sid, ppp(p.sid, pppoe.ProtocolLCP, cpPacket(9, 3, []byte{0, 0, 0, 0})))
			case "pap":
				p.papID++
				user := fmt.Sprintf("user%d", pi)
				pass := "good"
				if op.Arg(2) == 1 {
					pass = "bad"
				}
				body := []byte{byte(len(user))}
				body = append(body, user...)
				body = append(body, byte(len(pass)))
				body = append(body, pass...)
				// outcome applies to every exchange of this authentication attempt
				w.radOut = append(w.radOut[:w.radIdx], op.Arg(3), op.Arg(3), op.Arg(3))
				if op.Arg(3) == 2 {
					c.S.Fault("radius.timeout")
				}
				deliver("pap", false, src, owner, p.sid, ppp(p.sid, pppoe.ProtocolPAP, cpPacket(1, p.papID, body)))
				w.radIdx = len(w.radOut)
			case "ipcp-req":
				p.cfgID++
				var opts []cpOpt
				switch op.Arg(2) {
				case 0:
					opts = []cpOpt{{3, []byte{0, 0, 0, 0}}}
				case 1:
					opts = []cpOpt{{3, []byte{10, 0, 0, 5}}, {129, []byte{0, 0, 0, 0}}}
				default:
					opts = nil // empty request: nothing to negotiate
				}
				deliver("ipcp-req", false, src, owner, p.sid, ppp(p.sid, pppoe.ProtocolIPCP, cpPacket(1, p.cfgID, serOpts(opts))))
			case "ipcp-ack":
				deliver("ipcp-ack", false, src, owner, p.sid, ppp(p.sid, pppoe.ProtocolIPCP, cpPacket(2, 1, serOpts([]cpOpt{{3, []byte{10, 0, 0, 1}}}))))
			case "ip":
				deliver("ip", false, src, owner, p.sid, ppp(p.sid, pppoe.ProtocolIP, []byte{0x45, 0, 0, 20, 0, 0, 0, 0, 64, 17, 0, 0, 10, 0, 0, 2, 8, 8, 8, 8}))
			}
		}
		n := 0
		for _, s := range srv.VerifSessionManager().GetAllSessions() {
			n = n*7 + int(s.GetState()) + 1
			if s.Authenticated {
				n += 3
			}
		}
		c.State(uint64(n))
	}
	if len(tdTasks) > 0 && !c.Failed() {
		c.S.Join(tdTasks...)
		w.checkAll("teardown")
	}
}

func init() {
	sim.Register(&sim.Scenario{
		ID:  "C04",
		Gen: c04Gen,
		Run: c04Run,
		Real: []string{"pppoe.Server handleDiscovery/handleSession and everything below (PADI/PADR/PADT, LCP, PAP, IPCP, IP handlers)", "pppoe.SessionManager", "pppoe.IPPool",
			"radius.Client.Authenticate (3 attempts, rate limiter)", "pppoe.Server.cleanupLoop on the virtual clock", "the go startLCPNegotiation goroutine as a scheduler task"},
		Stub:         []string{"raw socket (in-memory, via the package's rawSocket seam)", "RADIUS server and transport", "peers"},
		Rule:         "cases: 4-30 discovery/session frames (PADI, PADR, PADT, LCP cfg-req/ack/nak/term/echo, PAP good/bad, IPCP cfg-req/ack, IP) in generated (out-of-protocol) order from 1-3 peers, each from the owner MAC, another peer's MAC or an outsider MAC, with RADIUS accept/reject/timeout, and server-initiated disconnects (pppoe.SessionTeardown over the server's session table) running while the peer's frames keep arriving; non-trivial = >=3 frames handled and (a fault fired or >2 context switches); distinct = distinct (case hash, schedule fingerprint)",
		QuickRuns:    20000,
		ThoroughRuns: 1500000,
		Assumptions: []string{"frames are handed to the handlers one at a time, as the single receive loop does", "activity counters/timestamps are not part of 'changing' a session",
			"authentication accepted = a PAP Authenticate-Ack was sent to the owner for that session and (RADIUS configured) RADIUS returned Access-Accept for that user"},
	})
}
