package scn

import (
	"errors"
	"fmt"
	"time"

	"github.com/codelaboratoryltd/bng/pkg/ha"
	"github.com/codelaboratoryltd/bng/pkg/simrt"
	"go.uber.org/zap"

	"verif/harness/sim"
)

// C14 — a standby promotes itself only after sustained partner failure.
//
// Real FailoverController + real HealthMonitor, wired as cmd/bng/main.go wires
// them for --ha-role=standby, probing a simulated partner (the real handleHealth
// of an active HASyncer) through the simulated HTTP network. The control loop,
// the monitor loop and both AfterFunc timers are scheduler tasks, so the tape
// orders a timer that became due against the health event that cancels it.
// The oracle is a timed monitor over the recorded HealthEvent stream, the
// FailoverEvent stream, the role-change callback invocations and sampled
// Status() snapshots.

const (
	c14Partner = "active.sim:9000"
	c14Self    = "standby.sim"
)

type c14ev struct {
	seq  int
	at   time.Duration
	kind string // health: partner_down/partner_up; failover: event type
	a, b string // old/new role or detail
}

type c14cb struct {
	seq        int
	role       ha.Role
	start, end time.Duration
	ok         bool
	done       bool
	forced     bool // a successful ForceFailover preceded it (promotions only)
	completed  int  // completed events attributed to it
	repeat     bool // a successful callback for active while the successful callbacks so far already imply active: not a new promotion
	roleBefore ha.Role
}

type c14world struct {
	c    *sim.Ctx
	net  *vhNet
	mon  *ha.HealthMonitor
	fc   *ha.FailoverController
	fcfg ha.FailoverConfig
	hcfg ha.HealthConfig

	selfNode    *simrt.Node
	partnerNode *simrt.Node
	partnerGen  int

	seq     int
	health  []c14ev // partner_down / partner_up only
	fevents []c14ev
	cbs     []*c14cb

	unreachSince time.Duration // since when the partner has been continuously unreachable (crashed or cut off); -1: reachable
	detectBound  time.Duration // within this time an unreachable partner is reported down (threshold+1 probes, one timeout, slack)
	forcePending bool   // ForceFailover returned nil and the controller has not been back at rest (standby, normal) since
	forceCtx     string // controller state when the last successful ForceFailover was issued
	cbFailNext   int
	cbSlowNext   int
	cbFailPct    int

	dirty, stop bool
	lastRole    ha.Role
	lastState   ha.FailoverState
	inProgSince time.Duration // -1: not in progress at the last sample
	lastSampleT time.Duration
	samples     int
	stuckBound  time.Duration
}

func (w *c14world) ev(list *[]c14ev, kind, a, b string) {
	w.seq++
	*list = append(*list, c14ev{seq: w.seq, at: w.c.S.Now(), kind: kind, a: a, b: b})
	w.dirty = true
	w.c.OpsDone++
}

// impliedRole is the role the successful callbacks imply: strict = only the
// callbacks that returned strictly before t.
func (w *c14world) impliedRole(t time.Duration, strict bool) ha.Role {
	r := ha.RoleStandby
	for _, cb := range w.cbs {
		if !cb.done || !cb.ok {
			continue
		}
		if cb.end < t || (!strict && cb.end == t) {
			r = cb.role
		}
	}
	return r
}

// partnerReportedDownBefore: the last partner_up/partner_down event strictly
// before t is a partner_down, and so is the last event up to and including
// instant t (an event at the very instant t may or may not have reached the
// controller yet, so it can excuse but never accuse).
func (w *c14world) partnerReportedDownBefore(t time.Duration) (bool, time.Duration) {
	down, at := false, time.Duration(0)
	downIncl := false
	for _, e := range w.health {
		if e.at > t {
			break
		}
		downIncl = e.kind == "partner_down"
		if e.at < t {
			down, at = downIncl, e.at
		}
	}
	return down && downIncl, at
}

func (w *c14world) onCallback(newRole ha.Role) error {
	c := w.c
	w.seq++
	cb := &c14cb{seq: w.seq, role: newRole, start: c.S.Now()}
	w.cbs = append(w.cbs, cb)
	cb.roleBefore = w.fc.CurrentRole()
	c.S.Logf("callback(%s) invoked; CurrentRole=%s", newRole, cb.roleBefore)
	if cb.roleBefore == newRole && w.impliedRole(cb.start, false) != newRole {
		c.Fail("role-after-callback", "role/changed-before-callback/"+string(newRole),
			"CurrentRole() already reports %s while the role-change callback for it is only being invoked (role implied by successful callbacks: %s)", newRole, w.impliedRole(cb.start, false))
	}
	if newRole == ha.RoleActive {
		cb.forced = w.forcePending
		if !cb.forced {
			c.S.Probe("promotion_attempt_unforced")
			w.checkUnforced(cb)
		} else {
			c.S.Probe("promotion_attempt_forced")
		}
		if n := len(w.health); n > 0 && w.health[n-1].kind == "partner_up" {
			c.S.Probe("promotion_attempt_after_recovery_in_grace_or_forced")
		}
	} else {
		// failback: only while the partner is healthy
		if down, at := w.partnerReportedDownBefore(cb.start); down {
			c.Fail("failback-partner-healthy", "failback/partner-reported-down",
				"failback role change to %s is being carried out at %v although the partner has been reported down since %v (no partner_up since)", newRole, cb.start, at)
		} else if w.unreachSince >= 0 && cb.start-w.unreachSince >= w.detectBound {
			// ground truth, for when the reports themselves are what is broken
			c.Fail("failback-partner-healthy", "failback/partner-unreachable",
				"failback role change to %s is being carried out at %v although the partner has not answered a probe since %v (longer than %v = (failure threshold + 1) probe intervals + one probe timeout + 2 s)", newRole, cb.start, w.unreachSince, w.detectBound)
		}
	}
	if w.cbSlowNext > 0 {
		w.cbSlowNext--
		c.S.Sleep(1500 * time.Millisecond)
	}
	fail := false
	if w.cbFailNext > 0 {
		w.cbFailNext--
		fail = true
	} else if w.cbFailPct > 0 && c.S.Choose(simrt.StWorkload, 100) >= 100-w.cbFailPct {
		fail = true
	}
	if !fail && newRole == ha.RoleActive {
		// role implied by the callbacks that succeeded before this one returns (in order of return)
		prev := ha.RoleStandby
		for _, o := range w.cbs {
			if o != cb && o.done && o.ok {
				prev = o.role
			}
		}
		if prev == ha.RoleActive {
			cb.repeat = true
			c.S.Probe("callback_active_repeated_while_active")
		}
	}
	cb.end, cb.done, cb.ok = c.S.Now(), true, !fail
	w.dirty = true
	c.OpsDone++
	if fail {
		c.S.Fault("cb.fail")
		c.S.Logf("callback(%s) -> error", newRole)
		return errors.New("role change refused")
	}
	c.S.Logf("callback(%s) -> ok", newRole)
	return nil
}

// checkUnforced: an unforced promotion needs a partner_down at td with
// td + FailoverDelay <= now and no partner_up strictly inside the delay.
func (w *c14world) checkUnforced(cb *c14cb) {
	c := w.c
	d := w.fcfg.FailoverDelay
	okEpisode := false
	var lastDown time.Duration = -1
	for i, e := range w.health {
		if e.kind != "partner_down" {
			continue
		}
		lastDown = e.at
		if e.at+d > cb.start {
			continue
		}
		recovered := false
		for _, u := range w.health[i+1:] {
			if u.kind == "partner_up" && u.at > e.at && u.at < e.at+d {
				recovered = true
			}
		}
		if !recovered {
			okEpisode = true
		}
	}
	if okEpisode {
		return
	}
	detail := "no-partner-down"
	if lastDown >= 0 {
		detail = "down-shorter-than-delay"
		for _, e := range w.health {
			if e.kind == "partner_up" && e.at > lastDown {
				detail = "recovered-inside-delay"
			}
		}
	}
	c.Fail("promotion-needs-sustained-failure", "promotion/unforced/"+detail,
		"unforced promotion to active at %v: no partner_down episode lasted the failover delay %v without a partner_up inside it (health events: %s)", cb.start, d, w.showHealth())
}

func (w *c14world) showHealth() string {
	s := ""
	for _, e := range w.health {
		s += fmt.Sprintf("%s@%v ", e.kind, e.at)
	}
	return s
}

func (w *c14world) onFailoverEvent(e ha.FailoverEvent) {
	c := w.c
	w.ev(&w.fevents, string(e.Type), string(e.OldRole), string(e.NewRole))
	c.S.Logf("failover event %s %s->%s (%s)", e.Type, e.OldRole, e.NewRole, e.Reason)
	c.S.Probe("event_" + string(e.Type))
	if e.Type == ha.FailoverEventCanceled {
		// how close to the expiry of the delay did the recovery land?
		for i := len(w.health) - 1; i >= 0; i-- {
			if w.health[i].kind == "partner_down" {
				left := w.health[i].at + w.fcfg.FailoverDelay - c.S.Now()
				if left <= w.hcfg.CheckInterval {
					c.S.Probe("cancel_within_one_probe_of_expiry")
				}
				if left == 0 {
					c.S.Probe("cancel_at_expiry_instant")
				}
				break
			}
		}
	}
	if e.Type == ha.FailoverEventCompleted {
		// attribute to the oldest successful promotion that has no completed event yet
		var p, last *c14cb
		for _, cb := range w.cbs {
			if cb.done && cb.ok && cb.role == ha.RoleActive && !cb.repeat {
				last = cb
				if p == nil && cb.completed == 0 {
					p = cb
				}
			}
		}
		switch {
		case last == nil:
			c.Fail("one-completed-per-promotion", "completed/without-promotion", "a completed failover event was emitted although no role-change callback for active has succeeded")
		case p == nil:
			last.completed++
			c.Fail("one-completed-per-promotion", "completed/duplicate", "promotion at %v produced %d completed events", last.end, last.completed)
		default:
			p.completed++
		}
	}
}

// sample takes one Status() snapshot and runs the state-based clauses.
func (w *c14world) sample() {
	c := w.c
	st := w.fc.Status()
	now := c.S.Now()
	w.samples++
	role, state := st.CurrentRole, st.State
	if role != w.lastRole || state != w.lastState {
		c.S.Logf("sample role=%s state=%s partner_healthy=%v", role, state, st.PartnerHealthy)
	}
	// reported role changes only after the callback succeeded
	if a, b := w.impliedRole(now, true), w.impliedRole(now, false); role != a && role != b {
		c.Fail("role-after-callback", "role/"+string(role)+"/without-successful-callback",
			"CurrentRole() reports %s at %v but the role-change callbacks that succeeded so far imply %s", role, now, b)
	}
	// a recovery cancels a pending promotion
	if state == ha.FailoverStatePending {
		if n := len(w.health); n > 0 && w.health[n-1].kind == "partner_up" && w.health[n-1].at < now {
			c.Fail("recovery-cancels", "pending/after-partner-up", "state is still pending at %v although the partner was reported up at %v", now, w.health[n-1].at)
		}
	}
	// never stuck in progress
	if state == ha.FailoverStateInProgress {
		if w.inProgSince < 0 {
			w.inProgSince = now
		}
		if now-w.inProgSince > w.stuckBound {
			cause := "timer"
			if w.forceCtx != "" {
				cause = "force-failover-in-" + w.forceCtx
			}
			c.Fail("no-stuck-in-progress", "stuck/in_progress/"+cause,
				"State() has been in_progress since %v (now %v, bound %v = failover delay + grace period + callback + one control tick) with no transition pending; role=%s", w.inProgSince, now, w.stuckBound, role)
		}
	} else {
		w.inProgSince = -1
		if state == ha.FailoverStateNormal || state == ha.FailoverStateComplete {
			w.forceCtx = ""
		}
		if state == ha.FailoverStateNormal && role == ha.RoleStandby {
			w.forcePending = false // whatever the operator forced is over: the controller is back at rest
		}
	}
	w.lastRole, w.lastState, w.lastSampleT = role, state, now
	c.State(uint64(state)<<8 | map[ha.Role]uint64{ha.RoleActive: 1, ha.RoleStandby: 2}[role]<<4 | map[bool]uint64{true: 1}[st.PartnerHealthy]<<1 | map[bool]uint64{true: 1}[w.forcePending])
}

func (w *c14world) startPartner() {
	c := w.c
	w.partnerGen++
	w.partnerNode = &simrt.Node{Name: fmt.Sprintf("partner-%d", w.partnerGen)}
	cfg := ha.DefaultSyncConfig()
	cfg.NodeID, cfg.Role = "bng-a", ha.RoleActive
	p := ha.NewHASyncer(cfg, ha.NewInMemorySessionStore(), zap.NewNop())
	w.net.Listen(c14Partner, w.partnerNode, p.VerifHandler())
	c.S.Join(c.S.Spawn("boot-partner", w.partnerNode, func() { p.VerifStartActiveLoops() }))
}

func c14Gen(r *sim.Rand, tier string) *sim.Case {
	cs := &sim.Case{Knobs: map[string]int64{}}
	cs.Variant = sim.Pick(r, "flap", "flap", "flap", "force", "cbfail", "mixed", "mixed")
	cs.Knobs["skipmax"] = int64(sim.Pick(r, 1, 2, 4, 16))
	cs.Knobs["maporder"] = int64(r.N(4))
	// main.go uses the defaults; the swarm varies them
	if r.P(50) {
		cs.Knobs["interval_s"] = int64(sim.Pick(r, 2, 5, 10))
		cs.Knobs["timeout_s"] = int64(sim.Pick(r, 1, 3))
		cs.Knobs["fthr"] = int64(sim.Pick(r, 1, 2, 3))
		cs.Knobs["rthr"] = int64(sim.Pick(r, 1, 2))
		cs.Knobs["fdelay_s"] = int64(sim.Pick(r, 4, 10, 12))
		cs.Knobs["fbdelay_s"] = int64(sim.Pick(r, 10, 30))
		cs.Knobs["grace_s"] = int64(sim.Pick(r, 0, 1, 5))
		cs.Knobs["failback"] = int64(sim.Pick(r, 1, 1, 1, 0))
		// delays need not be whole multiples of the probe interval or of the controller's 1 s tick
		cs.Knobs["fbd_extra_ms"] = int64(sim.Pick(r, 0, 0, 500, 300, 700))
		cs.Knobs["fd_extra_ms"] = int64(sim.Pick(r, 0, 0, 0, 500))
	}
	cs.Knobs["lat_us"] = int64(sim.Pick(r, 100, 300, 20000))
	switch cs.Variant {
	case "cbfail", "mixed":
		cs.Knobs["cbfail_pct"] = int64(sim.Pick(r, 0, 20, 50))
	}
	n := r.Range(4, 12)
	if tier == "thorough" {
		n = r.Range(4, 24)
	}
	force := cs.Variant == "force" || cs.Variant == "mixed"
	cbf := cs.Variant == "cbfail" || cs.Variant == "mixed"
	if r.P(20) {
		// motif: promote, let the partner recover, and report it down again while the failback
		// (timer fired, grace period running) is being carried out
		cs.Ops = append(cs.Ops, sim.Op{K: "down", A: []int64{int64(r.N(3))}}, sim.Op{K: "sleep", A: []int64{5, 0}}, sim.Op{K: "sleep", A: []int64{8, 2}},
			sim.Op{K: "up"}, sim.Op{K: "sleep", A: []int64{13, int64(r.N(5))}}, sim.Op{K: "down", A: []int64{int64(r.N(3))}},
			sim.Op{K: "sleep", A: []int64{8, int64(r.N(5))}})
	}
	for i := 0; i < n; i++ {
		w := []int{8, 8, 14, 2, 0, 0, 0, 0, 2}
		if force {
			w[4], w[5] = 3, 2
		}
		if cbf {
			w[6], w[7] = 3, 1
		}
		switch r.Weighted(w...) {
		case 0:
			cs.Ops = append(cs.Ops, sim.Op{K: "down", A: []int64{int64(r.N(3))}})
		case 1:
			cs.Ops = append(cs.Ops, sim.Op{K: "up"})
		case 2:
			cs.Ops = append(cs.Ops, sim.Op{K: "sleep", A: []int64{int64(r.N(14)), int64(r.N(5))}})
		case 3:
			cs.Ops = append(cs.Ops, sim.Op{K: "loss", A: []int64{int64(r.Range(1, 4))}})
		case 4:
			cs.Ops = append(cs.Ops, sim.Op{K: "ff"})
		case 5:
			cs.Ops = append(cs.Ops, sim.Op{K: "fb"})
		case 6:
			cs.Ops = append(cs.Ops, sim.Op{K: "cbfail", A: []int64{int64(r.Range(1, 2))}})
		case 7:
			cs.Ops = append(cs.Ops, sim.Op{K: "cbslow"})
		case 8:
			cs.Ops = append(cs.Ops, sim.Op{K: "sleep", A: []int64{12, int64(r.N(5))}})
		}
	}
	return cs
}

func c14Run(c *sim.Ctx) {
	cs := c.Case
	w := &c14world{c: c, inProgSince: -1, lastRole: ha.RoleStandby, unreachSince: -1}
	n := newVHNet(c)
	w.net = n
	n.BaseLat = time.Duration(cs.Knob("lat_us", 300)) * time.Microsecond
	w.cbFailPct = int(cs.Knob("cbfail_pct", 0))

	w.hcfg = ha.DefaultHealthConfig()
	w.fcfg = ha.DefaultFailoverConfig()
	if v, ok := cs.Knobs["interval_s"]; ok {
		w.hcfg.CheckInterval = time.Duration(v) * time.Second
		w.hcfg.Timeout = time.Duration(cs.Knob("timeout_s", 3)) * time.Second
		w.hcfg.FailureThreshold = int(cs.Knob("fthr", 3))
		w.hcfg.RecoveryThreshold = int(cs.Knob("rthr", 2))
		w.fcfg.FailoverDelay = time.Duration(cs.Knob("fdelay_s", 10))*time.Second + time.Duration(cs.Knob("fd_extra_ms", 0))*time.Millisecond
		w.fcfg.FailbackDelay = time.Duration(cs.Knob("fbdelay_s", 30))*time.Second + time.Duration(cs.Knob("fbd_extra_ms", 0))*time.Millisecond
		w.fcfg.GracePeriod = time.Duration(cs.Knob("grace_s", 5)) * time.Second
		w.fcfg.FailbackEnabled = cs.Knob("failback", 1) == 1
	}
	if w.hcfg.Timeout >= w.hcfg.CheckInterval {
		w.hcfg.Timeout = w.hcfg.CheckInterval / 2
	}
	const cbMax = 1500 * time.Millisecond
	w.stuckBound = w.fcfg.FailoverDelay + w.fcfg.GracePeriod + cbMax + 2*time.Second

	w.startPartner()

	// the node under test, wired as cmd/bng/main.go does for --ha-role=standby
	w.selfNode = &simrt.Node{Name: "self"}
	c.S.Join(c.S.Spawn("boot-self", w.selfNode, func() {
		partnerInfo := &ha.PartnerInfo{NodeID: "active", Endpoint: c14Partner}
		mon := ha.NewHealthMonitor(w.hcfg, partnerInfo, zap.NewNop())
		mon.VerifSetHTTPClient(n.Client(c14Self))
		mon.OnHealthChange(func(e ha.HealthEvent) {
			switch e.Type {
			case ha.HealthEventPartnerDown, ha.HealthEventPartnerUp:
				w.ev(&w.health, string(e.Type), "", "")
				c.S.Logf("health event %s", e.Type)
			}
		})
		if err := mon.Start(); err != nil {
			panic(err)
		}
		fc := ha.NewFailoverController(w.fcfg, "bng-s", ha.RoleStandby, 50, mon, zap.NewNop())
		w.mon, w.fc = mon, fc
		fc.SetRoleChangeCallback(w.onCallback)
		fc.OnFailoverEvent(w.onFailoverEvent)
		if err := fc.Start(); err != nil {
			panic(err)
		}
	}))

	sampler := c.S.Spawn("sampler", nil, func() {
		for {
			c.S.WaitUntil(func() bool { return w.dirty || w.stop })
			if w.stop || c.Failed() {
				return
			}
			w.dirty = false
			w.sample()
			// a transition may be committing at this very instant: look again once it has settled
			c.S.Sleep(20 * time.Millisecond)
			if w.stop || c.Failed() {
				return
			}
			w.sample()
		}
	})

	w.detectBound = time.Duration(w.hcfg.FailureThreshold+1)*w.hcfg.CheckInterval + w.hcfg.Timeout + 2*time.Second
	iv, thr := w.hcfg.CheckInterval, time.Duration(w.hcfg.FailureThreshold)
	fd, fbd, gp := w.fcfg.FailoverDelay, w.fcfg.FailbackDelay, w.fcfg.GracePeriod
	bases := []time.Duration{time.Second, iv, thr * iv, thr*iv + fd - iv, thr*iv + fd, thr*iv + fd + iv, fd, fd + gp, gp,
		fbd - iv, fbd, fbd + gp, 2 * (fbd + fd),
		// from an "up" op: so that the next down is reported inside the failback grace period
		fbd + (time.Duration(w.hcfg.RecoveryThreshold)-thr)*iv + gp/2}
	jit := []time.Duration{0, -time.Second, time.Second, 2500 * time.Millisecond, -300 * time.Millisecond}
	partition := false

	for i, op := range cs.Ops {
		c.OpIdx = i
		if c.Failed() {
			break
		}
		switch op.K {
		case "down":
			if w.unreachSince < 0 {
				w.unreachSince = c.S.Now()
			}
			switch op.Arg(0) % 3 {
			case 0, 1:
				if !partition {
					n.Partition(c14Self, c14Partner, true, false) // probes hang until the monitor's timeout
					partition = true
				}
			default:
				if !w.partnerNode.Dead() {
					c.S.Fault("crash.process")
					c.S.Kill(w.partnerNode)
					n.NodeDown(w.partnerNode) // probes are refused at once
				}
			}
		case "up":
			if partition {
				n.Heal(c14Self, c14Partner)
				partition = false
			}
			if w.partnerNode.Dead() {
				w.startPartner()
			}
			w.unreachSince = -1
		case "sleep":
			d := bases[int(op.Arg(0))%len(bases)] + jit[int(op.Arg(1))%len(jit)]
			if d < 100*time.Millisecond {
				d = 100 * time.Millisecond
			}
			c.S.Sleep(d)
		case "loss":
			n.LoseNext["/ha/health"] += int(op.Arg(0))
		case "ff":
			st := w.fc.State()
			err := w.fc.ForceFailover("operator")
			c.S.Logf("ForceFailover in state %s -> %v", st, err)
			c.S.Probe("force_failover_in_" + st.String())
			if err == nil {
				w.forcePending = true
				if w.forceCtx == "" {
					w.forceCtx = st.String()
				}
			}
			c.OpsDone++
		case "fb":
			st := w.fc.State()
			err := w.fc.ForceFailback("operator")
			c.S.Logf("ForceFailback in state %s -> %v", st, err)
			c.S.Probe("force_failback_in_" + st.String())
			c.OpsDone++
		case "cbfail":
			w.cbFailNext += int(op.Arg(0))
		case "cbslow":
			w.cbSlowNext++
		}
		w.dirty = true
		c.S.Pause()
	}
	if !c.Failed() {
		// ---- faults stop; give every pending transition time to finish ---------
		c.OpIdx = len(cs.Ops)
		n.Quiet = true
		delete(n.LoseNext, "/ha/health")
		c.S.Sleep(w.stuckBound + time.Second)
		w.dirty = true
		c.S.Sleep(10 * time.Millisecond)
		// each promotion emitted exactly one completed event
		for _, cb := range w.cbs {
			if cb.role == ha.RoleActive && cb.done && cb.ok && !cb.repeat && cb.completed != 1 && c.S.Now()-cb.end > time.Second {
				c.Fail("one-completed-per-promotion", fmt.Sprintf("completed/count-%d", cb.completed), "promotion at %v emitted %d completed events", cb.end, cb.completed)
			}
		}
		_, comp, _, _ := w.fc.Stats()
		np := 0
		for _, cb := range w.cbs {
			if cb.role == ha.RoleActive && cb.done && cb.ok && !cb.repeat {
				np++
			}
		}
		if int(comp) != np {
			c.S.Probe("stats_completed_differs")
		}
		if np > 0 {
			c.S.Probe("promotion")
		}
	}
	w.stop = true
	c.S.Join(sampler)
}

func init() {
	sim.Register(&sim.Scenario{
		ID:  "C14",
		Gen: c14Gen,
		Run: c14Run,
		Real: []string{"ha.FailoverController (handleHealthEvent, executeFailover, executeFailback, evaluateState control loop, ForceFailover/ForceFailback, both AfterFunc timers)",
			"ha.HealthMonitor (monitorLoop, performCheck, thresholds, event emission)", "ha.HASyncer.handleHealth on the partner", "net/http.Client timeouts"},
		Stub: []string{"network between the nodes (scn.vhNet)", "role-change callback (harness: ok / error / slow per case and tape)"},
		Rule: "cases: 4-24 ops {partner down (partition: probes time out | crash: probes refused), up, sleep around threshold*interval, failover delay +-1 probe, grace, failback delay, lost probes, ForceFailover, ForceFailback, callback fail/slow, and a motif promote -> partner recovers -> partner fails inside the failback grace} over default and varied Health/Failover configs (delays with sub-second parts, so that reports, controller ticks and timers do not all fall on one instant), then a settle period; non-trivial = >=3 completed operations and (a fault fired or >2 context switches); distinct = distinct (case hash, schedule fingerprint)",
		QuickRuns:    6000,
		ThoroughRuns: 300000,
		Assumptions: []string{"a promotion is forced when a ForceFailover call returned nil and the controller has not been observed at rest (role standby, state normal) since; only unforced promotions are held to the sustained-failure clause",
			"partner reported down/up = the HealthMonitor's partner_down/partner_up events; a recovery exactly at the instant the delay expires may go either way",
			"a failback 'happens' when the role-change callback for the original role is invoked; it violates the clause when the last partner_up/down event strictly before that instant is partner_down",
			"in_progress is stuck when State() stays in_progress longer than failover delay + grace period + callback time + 2 s",
			"ground truth for the failback clause: a partner that has not answered a probe (crashed or cut off) for (failure threshold + 1) probe intervals + one probe timeout + 2 s is not healthy, whatever was reported"},
	})
}
