package scn

import (
	"context"
	"fmt"
	"net"
	"sort"
	"strings"
	"time"

	"github.com/codelaboratoryltd/bng/pkg/pool"
	"github.com/codelaboratoryltd/bng/pkg/simrt"

	"verif/harness/sim"
)

// C17 — all peers agree on who owns a subscriber.
//
// 1-5 real PeerPool nodes (thorough: up to 8) over the simulated HTTP network:
// GetOwner / IsLocalOwner / ranked list, Allocate / Release with forwarding,
// the health-check loop, AddPeer / RemovePeer and the HTTP handlers are all the
// repository's. Node ids are generated strings (they double as addresses, as
// getPeerAddr assumes), every node gets the peer list in its own order, with or
// without itself, partly via AddPeer later.

type c17node struct {
	id    string
	node  *simrt.Node
	p     *pool.PeerPool
	gen   int
	stop  context.CancelFunc
	peers []string // initial config (own order)
	// cfg is the harness's own record of the peer set this node was given
	// (initial configuration + AddPeer - RemovePeer). The oracle groups nodes by
	// it, never by what the node reports: a node that loses or gains members on
	// its own must not escape the agreement checks.
	cfg map[string]bool
}

func (nd *c17node) addPeer(id string) {
	nd.p.AddPeer(id)
	nd.cfg[id] = true
}

func (nd *c17node) removePeer(id string) {
	nd.p.RemovePeer(id)
	delete(nd.cfg, id)
}

// set is the configured peer set, sorted.
func (nd *c17node) set() []string {
	out := make([]string, 0, len(nd.cfg))
	for k := range nd.cfg {
		out = append(out, k)
	}
	sort.Strings(out)
	return out
}

type c17world struct {
	forceSubs []string // subscriber ids the next stable end-to-end check must include
	c      *sim.Ctx
	net    *vhNet
	ids    []string
	nodes  []*c17node
	subSeq int
	iv     time.Duration
	thr    int
	parts  map[[2]int]bool
	alias  bool // the id set contains x and x:8081
}

func (n *c17node) live() bool { return n.p != nil && !n.node.Dead() }

var c17alpha = []string{"a", "b", "c", "d", "e", "f", "g", "h", "i", "j", "k", "l", "m", "n", "o", "p", "q", "r", "s", "t", "u", "v", "w", "x", "y", "z",
	"A", "B", "Q", "Z", "0", "1", "2", "7", "9", "-", ".", "_"}

func c17GenID(r *sim.Rand) string {
	switch r.N(6) {
	case 0:
		return fmt.Sprintf("10.%d.%d.%d:%d", r.N(3), r.N(2), r.N(250)+1, sim.Pick(r, 8081, 8081, 9000, 80))
	case 1:
		return fmt.Sprintf("bng-%d", r.N(12))
	case 2:
		return fmt.Sprintf("bng%d.pop%d.example:8081", r.N(4), r.N(3))
	default:
		n := r.Range(1, 9)
		var b strings.Builder
		for i := 0; i < n; i++ {
			ch := c17alpha[r.N(len(c17alpha))]
			if (i == 0 || i == n-1) && (ch == "-" || ch == "." || ch == "_") {
				ch = "n"
			}
			b.WriteString(ch)
		}
		return b.String()
	}
}

func c17Gen(r *sim.Rand, tier string) *sim.Case {
	cs := &sim.Case{Knobs: map[string]int64{}}
	cs.Variant = sim.Pick(r, "membership", "membership", "faults", "faults", "mixed", "mixed", "static")
	cs.Knobs["skipmax"] = int64(sim.Pick(r, 2, 4, 16))
	cs.Knobs["maporder"] = int64(r.N(4))
	cs.Knobs["lat_us"] = int64(sim.Pick(r, 100, 300, 20000))
	nn := r.Weighted(0, 1, 3, 4, 3, 2)
	if tier == "thorough" && r.P(20) {
		nn = r.Range(6, 8)
	}
	seen := map[string]bool{}
	var ids []string
	for len(ids) < nn {
		id := c17GenID(r)
		// Not generated: a peer set containing both x and x:8081. The repository's
		// address rule (getPeerAddr) treats "x:8081" as the address of node "x",
		// so such a set names one node twice; it is excluded as a configuration
		// the property is not read to cover (see Assumptions).
		if seen[id+":8081"] || (strings.HasSuffix(id, ":8081") && seen[strings.TrimSuffix(id, ":8081")]) {
			continue
		}
		if seen[id] || seen[strings.ToLower(id)] {
			continue
		}
		seen[id], seen[strings.ToLower(id)] = true, true
		ids = append(ids, id)
	}
	// op "cfg": S = this node's id followed by its initial peer list (own order); the rest arrives via AddPeer
	for i := 0; i < nn; i++ {
		var others []string
		for j, id := range ids {
			if j != i {
				others = append(others, id)
			}
		}
		for k := len(others) - 1; k > 0; k-- {
			j := r.N(k + 1)
			others[k], others[j] = others[j], others[k]
		}
		later := 0
		if cs.Variant != "static" && len(others) > 0 {
			later = r.N(len(others) + 1)
			if r.P(50) {
				later = 0
			}
		}
		list := append([]string(nil), others[:len(others)-later]...)
		if r.P(50) {
			pos := r.N(len(list) + 1)
			list = append(list[:pos], append([]string{ids[i]}, list[pos:]...)...)
		}
		cs.Ops = append(cs.Ops, sim.Op{K: "cfg", S: append([]string{ids[i]}, list...)})
	}
	n := r.Range(5, 14)
	if tier == "thorough" {
		n = r.Range(5, 24)
	}
	for i := 0; i < n; i++ {
		w := []int{6, 6, 0, 0, 0, 0, 0, 0, 0, 4, 3, 0, 0}
		switch cs.Variant {
		case "membership":
			w[2], w[3], w[4] = 8, 3, 2
		case "faults":
			w[2], w[5], w[6], w[7], w[8], w[11], w[12] = 6, 4, 3, 3, 3, 3, 3
		case "mixed":
			w[2], w[3], w[4], w[5], w[6], w[7], w[8], w[11], w[12] = 6, 2, 1, 3, 3, 2, 2, 3, 2
		case "static":
			w[12] = 3
		}
		a, b := int64(r.N(nn)), int64(r.N(nn))
		switch r.Weighted(w...) {
		case 0:
			cs.Ops = append(cs.Ops, sim.Op{K: "check", A: []int64{int64(r.U64() >> 8), int64(r.N(nn))}})
		case 1:
			cs.Ops = append(cs.Ops, sim.Op{K: "hash", A: []int64{int64(r.U64() >> 8)}})
		case 2:
			if r.P(35) {
				cs.Ops = append(cs.Ops, sim.Op{K: "addall", A: []int64{int64(r.U64() >> 8)}})
			} else {
				cs.Ops = append(cs.Ops, sim.Op{K: "addpeer", A: []int64{a, b}})
			}
		case 3:
			cs.Ops = append(cs.Ops, sim.Op{K: "rmall", A: []int64{a, int64(r.U64() >> 8)}})
		case 4:
			if r.P(50) {
				cs.Ops = append(cs.Ops, sim.Op{K: "rmrace", A: []int64{a, b, int64(r.U64() >> 8)}})
			} else {
				cs.Ops = append(cs.Ops, sim.Op{K: "rmone", A: []int64{a, b}})
			}
		case 5:
			cs.Ops = append(cs.Ops, sim.Op{K: "part", A: []int64{a, b, int64(r.N(2)), int64(r.N(2))}})
		case 6:
			cs.Ops = append(cs.Ops, sim.Op{K: "heal"})
		case 7:
			cs.Ops = append(cs.Ops, sim.Op{K: "crash", A: []int64{a}})
		case 8:
			cs.Ops = append(cs.Ops, sim.Op{K: "restart", A: []int64{a}})
		case 9:
			cs.Ops = append(cs.Ops, sim.Op{K: "sleep", A: []int64{int64(r.Weighted(3, 3, 2, 2, 1))}})
		case 10:
			cs.Ops = append(cs.Ops, sim.Op{K: "alloc", A: []int64{a, int64(r.N(6))}})
		case 12:
			cs.Ops = append(cs.Ops, sim.Op{K: "lostforward", A: []int64{int64(r.U64() >> 8), int64(r.N(nn))}})
		case 11:
			if r.P(40) {
				cs.Ops = append(cs.Ops, sim.Op{K: "loss", A: []int64{int64(r.Range(1, 4))}})
			} else if r.P(50) {
				cs.Ops = append(cs.Ops, sim.Op{K: "darklaw", A: []int64{a, b, int64(r.U64() >> 8)}})
			} else {
				cs.Ops = append(cs.Ops, sim.Op{K: "downlaw", A: []int64{a, int64(r.U64() >> 8)}})
			}
		}
	}
	return cs
}

func (w *c17world) startNode(nd *c17node) {
	c := w.c
	nd.gen++
	nd.node = &simrt.Node{Name: fmt.Sprintf("%s#%d", nd.id, nd.gen)}
	p, err := pool.NewPeerPool(pool.PeerPoolConfig{NodeID: nd.id, Peers: append([]string(nil), nd.peers...), Network: "10.77.0.0/24",
		Gateway: "10.77.0.1", DNSServers: []string{"9.9.9.9"}, LeaseTime: time.Hour, ListenAddr: nd.id})
	if err != nil {
		panic(err)
	}
	p.VerifSetHTTPClients(w.net.Client(nd.id), w.net.Client(nd.id))
	nd.p = p
	nd.cfg = map[string]bool{nd.id: true}
	for _, k := range nd.peers {
		nd.cfg[k] = true
	}
	w.net.Listen(nd.id, nd.node, p.VerifHandler())
	ctx, cancel := context.WithCancel(context.Background())
	nd.stop = cancel
	c.S.Join(c.S.Spawn("boot-"+nd.id, nd.node, func() { p.Start(ctx) }))
	ivNs, thr := p.VerifHealthParams()
	w.iv, w.thr = time.Duration(ivNs), thr
}

// addAll completes the membership: every live node learns every member.
// Each membership announcement reaches a node twice at the same time (two
// sources announcing the same member), as overlapping AddPeer calls.
func (w *c17world) addAll() {
	var ts []*simrt.Task
	for _, nd := range w.liveNodes() {
		for _, o := range w.nodes {
			if o != nd && o.p != nil {
				nd, id := nd, o.id
				nd.cfg[id] = true
				for k := 0; k < 2; k++ {
					ts = append(ts, w.c.S.Spawn("addpeer@"+nd.id, nd.node, func() { nd.p.AddPeer(id) }))
				}
			}
		}
	}
	w.c.S.Join(ts...)
}

func (w *c17world) liveNodes() []*c17node {
	var out []*c17node
	for _, nd := range w.nodes {
		if nd.live() {
			out = append(out, nd)
		}
	}
	return out
}

func c17SetKey(s []string) string {
	t := append([]string(nil), s...)
	sort.Strings(t)
	return strings.Join(t, "\x00")
}

func (w *c17world) subs(seed int64, n int) []string {
	out := make([]string, 0, n)
	x := uint64(seed)*0x9E3779B97F4A7C15 + 0x1234567
	for i := 0; i < n; i++ {
		x ^= x >> 29
		x *= 0xBF58476D1CE4E5B9
		x ^= x >> 32
		w.subSeq++
		switch x % 21 / 4 {
		case 0:
			out = append(out, fmt.Sprintf("sub-%d", w.subSeq))
		case 5:
			// rare: characters that have a meaning inside a URL
			out = append(out, fmt.Sprintf("olt%d port%d#%d?x", x>>8&3, x>>12&7, w.subSeq))
		case 1:
			out = append(out, fmt.Sprintf("%02x:%02x:%02x:%02x:%02x:%02x.%d", byte(x>>8), byte(x>>16), byte(x>>24), byte(x>>32), byte(x>>40), byte(x>>48), w.subSeq))
		case 2:
			out = append(out, fmt.Sprintf("user%d@isp%d.example/%d", x>>20&0xfff, x>>40&7, w.subSeq))
		case 3:
			out = append(out, fmt.Sprintf("%d", x^uint64(w.subSeq)))
		default:
			out = append(out, fmt.Sprintf("%x-%d", x, w.subSeq))
		}
	}
	return out
}

// hashChecks: clauses 1 and 2 for a fresh batch of subscriber ids.
func (w *c17world) hashChecks(seed int64, after string) {
	c := w.c
	groups := map[string][]*c17node{}
	var keys []string
	for _, nd := range w.liveNodes() {
		k := c17SetKey(nd.set())
		if _, ok := groups[k]; !ok {
			keys = append(keys, k)
		}
		groups[k] = append(groups[k], nd)
	}
	sort.Strings(keys)
	for _, s := range w.subs(seed, 24) {
		for _, k := range keys {
			g := groups[k]
			set := g[0].set()
			owner := g[0].p.GetOwner(s)
			for _, nd := range g {
				if o := nd.p.GetOwner(s); o != owner {
					c.Fail("same-owner", "owner/differs/after="+after,
						"nodes %q and %q hold the same peer set %q but compute owners %q and %q for subscriber %q", g[0].id, nd.id, set, owner, o, s)
					return
				}
				if nd.p.IsLocalOwner(s) != (owner == nd.id) {
					c.Fail("same-owner", "owner/islocal-inconsistent", "node %q: IsLocalOwner(%q)=%v but GetOwner=%q", nd.id, s, nd.p.IsLocalOwner(s), owner)
					return
				}
				ranked := nd.p.VerifRanked(s)
				if len(ranked) == 0 || ranked[0] != owner {
					c.Fail("ranked", "ranked/first-not-owner", "node %q: ranked list %q for %q does not start with the owner %q", nd.id, ranked, s, owner)
					return
				}
				if c17SetKey(ranked) != c17SetKey(set) || len(ranked) != len(set) {
					c.Fail("ranked", "ranked/not-a-permutation", "node %q: ranked list %q for %q is not a permutation of the configured peer set %q", nd.id, ranked, s, set)
					return
				}
			}
			c.OpsDone++
		}
	}
}

// stable reports whether all live nodes hold the same peer set and the same
// health view and no fault is in flight.
func (w *c17world) stable() (bool, string) {
	if len(w.net.down) > 0 {
		return false, "partition"
	}
	for _, k := range w.net.LoseNext {
		if k > 0 {
			return false, "probe-loss-pending"
		}
	}
	live := w.liveNodes()
	if len(live) == 0 {
		return false, "no-live-node"
	}
	set := c17SetKey(live[0].set())
	for _, nd := range live {
		if c17SetKey(nd.set()) != set {
			return false, "peer-sets-differ"
		}
	}
	isLive := map[string]bool{}
	for _, nd := range live {
		isLive[nd.id] = true
	}
	for _, k := range live[0].set() {
		first, have := false, false
		for _, nd := range live {
			v := nd.p.IsPeerHealthy(k) // a node always regards itself as healthy
			if have && v != first {
				return false, "health-views-differ"
			}
			first, have = v, true
		}
		if have && first && !isLive[k] && w.knownID(k) {
			return false, "dead-peer-still-considered-healthy"
		}
	}
	// every live node must be part of the set it is asked about
	for _, nd := range live {
		found := false
		for _, k := range nd.set() {
			if k == nd.id {
				found = true
			}
		}
		if !found {
			return false, "node-removed-itself"
		}
	}
	return true, ""
}

func (w *c17world) knownID(id string) bool {
	for _, x := range w.ids {
		if x == id {
			return true
		}
	}
	return false
}

// c17fp: in a cluster whose id set contains both x and x:8081 every end-to-end
// mismatch is attributed to that address aliasing (one fingerprint).
func c17fp(fp, alias string) string {
	if alias != "" {
		return "e2e/ids-x-and-x:8081"
	}
	return fp
}

type c17resp struct {
	from string
	r    *pool.AllocationResponse
	err  error
}

// e2e: clause 4 for fresh subscriber ids, requests entering at every live node concurrently.
func (w *c17world) e2e(seed int64, relAt int64) {
	c := w.c
	if ok, why := w.stable(); !ok {
		c.S.Probe("check_skipped_" + why)
		return
	}
	live := w.liveNodes()
	subjects := append(append([]string(nil), w.forceSubs...), w.subs(seed, 2)...)
	w.forceSubs = nil
	for _, s := range subjects {
		res := make([]*c17resp, len(live))
		var ts []*simrt.Task
		for i, nd := range live {
			i, nd := i, nd
			res[i] = &c17resp{from: nd.id}
			ts = append(ts, c.S.Spawn("alloc@"+nd.id, nd.node, func() {
				r, err := nd.p.Allocate(context.Background(), s, net.HardwareAddr{2, 0, 0, 0, 0, byte(i)})
				res[i].r, res[i].err = r, err
			}))
		}
		c.S.Join(ts...)
		if ok, _ := w.stable(); !ok {
			c.S.Probe("check_became_unstable")
			return
		}
		var ref *c17resp
		nerr := 0
		for _, x := range res {
			if x.err != nil {
				nerr++
				continue
			}
			if ref == nil {
				ref = x
			}
		}
		c.OpsDone++
		if ref == nil {
			c.S.Probe("check_all_requests_failed")
			continue
		}
		alias := ""
		if w.alias {
			alias = "\x00"
		}
		if nerr > 0 {
			for _, x := range res {
				if x.err != nil {
					c.Fail("one-pool", c17fp("e2e/some-entries-fail", alias), "stable cluster: request for %q entering at %q failed (%v) while the same request entering at %q was served by %q", s, x.from, x.err, ref.from, ref.r.NodeID)
					return
				}
			}
		}
		for _, x := range res {
			if x.r.NodeID != ref.r.NodeID {
				c.Fail("one-pool", c17fp("e2e/served-by-different-nodes", alias), "stable cluster: request for %q entering at %q was answered by node %q (address %s), entering at %q by node %q (address %s)",
					s, ref.from, ref.r.NodeID, ref.r.IP, x.from, x.r.NodeID, x.r.IP)
				return
			}
			if x.r.IP != ref.r.IP {
				c.Fail("one-pool", c17fp("e2e/different-addresses", alias), "stable cluster: request for %q answered with %s at %q and %s at %q (both by node %q)", s, ref.r.IP, ref.from, x.r.IP, x.from, x.r.NodeID)
				return
			}
		}
		for _, nd := range live {
			ip, holds := nd.p.VerifLocalHolds(s)
			switch {
			case holds && nd.id != ref.r.NodeID:
				c.Fail("one-pool", c17fp("e2e/held-by-second-pool", alias), "stable cluster: %q was answered by node %q, yet node %q's local pool also holds it (%s)", s, ref.r.NodeID, nd.id, ip)
				return
			case !holds && nd.id == ref.r.NodeID:
				c.Fail("one-pool", c17fp("e2e/not-held-by-answering-node", alias), "stable cluster: %q was answered by node %q (%s) but that node's local pool does not hold it", s, ref.r.NodeID, ref.r.IP)
				return
			case holds && ip != ref.r.IP:
				c.Fail("one-pool", c17fp("e2e/pool-holds-other-address", alias), "stable cluster: %q answered with %s but node %q's pool holds %s", s, ref.r.IP, nd.id, ip)
				return
			}
		}
		c.S.Probe("e2e_checked")
		// the release request, entering at some node, must reach that same pool
		rn := live[int(relAt)%len(live)]
		var rerr error
		c.S.Join(c.S.Spawn("release@"+rn.id, rn.node, func() { rerr = rn.p.Release(context.Background(), s) }))
		if rerr == nil {
			for _, nd := range live {
				if ip, holds := nd.p.VerifLocalHolds(s); holds {
					fp := c17fp("e2e/release-missed-the-pool", alias)
					if strings.ContainsAny(s, "#?%") {
						fp = "e2e/release-missed-the-pool/id-needs-url-escaping"
					}
					c.Fail("one-pool", fp, "stable cluster: Release(%q) entering at %q returned nil but node %q's pool still holds it (%s)", s, rn.id, nd.id, ip)
					return
				}
			}
		}
	}
}

func c17Run(c *sim.Ctx) {
	cs := c.Case
	w := &c17world{c: c, parts: map[[2]int]bool{}}
	n := newVHNet(c)
	w.net = n
	n.BaseLat = time.Duration(cs.Knob("lat_us", 300)) * time.Microsecond

	for _, op := range cs.Ops {
		if op.K == "cfg" && len(op.S) > 0 {
			dup := false
			for _, id := range w.ids {
				if id == op.S[0] {
					dup = true
				}
			}
			if dup || op.S[0] == "" {
				continue
			}
			w.ids = append(w.ids, op.S[0])
			w.nodes = append(w.nodes, &c17node{id: op.S[0], peers: append([]string(nil), op.S[1:]...)})
		}
	}
	if len(w.nodes) == 0 {
		return
	}
	for _, a := range w.ids {
		for _, b := range w.ids {
			if b == a+":8081" {
				w.alias = true
			}
		}
	}
	for _, nd := range w.nodes {
		w.startNode(nd)
	}
	nn := len(w.nodes)
	pick := func(v int64) *c17node { return w.nodes[int(v%int64(nn)+int64(nn))%nn] }
	w.hashChecks(1, "config")

	for i, op := range cs.Ops {
		c.OpIdx = i
		if c.Failed() {
			break
		}
		switch op.K {
		case "check":
			w.e2e(op.Arg(0), op.Arg(1))
		case "hash":
			w.hashChecks(op.Arg(0), "none")
		case "addpeer":
			a, b := pick(op.Arg(0)), pick(op.Arg(1))
			if a.live() && a != b {
				a.addPeer(b.id)
				w.hashChecks(op.Arg(0)^op.Arg(1)<<8^int64(i), "addpeer")
			}
		case "addall":
			w.addAll()
			w.hashChecks(op.Arg(0)^int64(i), "addpeer")
		case "rmone":
			a, b := pick(op.Arg(0)), pick(op.Arg(1))
			if a.live() && a != b && len(a.cfg) > 1 {
				a.removePeer(b.id)
				w.hashChecks(op.Arg(0)^op.Arg(1)<<8^int64(i), "removepeer")
			}
		case "rmrace":
			// a peer is removed at one node while requests for subscribers that node owns itself
			// enter there: removing the peer does not change their owner, so whichever membership
			// a request sees it is served from this node's pool
			a, b := pick(op.Arg(0)), pick(op.Arg(1))
			if !a.live() || a == b || len(a.cfg) < 2 || !a.cfg[b.id] {
				break
			}
			var mine []string
			for _, s := range w.subs(op.Arg(2)^int64(i)<<6, 24) {
				if a.p.GetOwner(s) == a.id && len(mine) < 4 {
					mine = append(mine, s)
				}
			}
			if len(mine) == 0 {
				break
			}
			c.S.Fault("membership.remove-peer-during-requests")
			errs := make([]error, len(mine))
			ts := []*simrt.Task{c.S.Spawn("rmpeer@"+a.id, a.node, func() { a.p.RemovePeer(b.id) })}
			for k, s := range mine {
				ts = append(ts, c.S.Spawn("alloc@"+a.id, a.node, func() { _, errs[k] = a.p.Allocate(context.Background(), s, nil) }))
			}
			c.S.Join(ts...)
			delete(a.cfg, b.id)
			for k, s := range mine {
				if errs[k] != nil && !strings.Contains(errs[k].Error(), "exhausted") {
					c.Fail("minimal-disruption", "disruption/remove-peer/concurrent-request", "node %q: a request for subscriber %q, which the node owns before and after RemovePeer(%q), failed while the peer was being removed: %v", a.id, s, b.id, errs[k])
				}
				c.S.Join(c.S.Spawn("release@"+a.id, a.node, func() { a.p.Release(context.Background(), s) }))
				c.OpsDone++
			}
			w.hashChecks(op.Arg(0)^op.Arg(1)<<8^int64(i), "removepeer")
		case "rmall":
			// removing a peer everywhere changes ownership only for subscribers it owned
			x := pick(op.Arg(0))
			if x.p == nil || len(w.liveNodes()) < 2 || (len(w.liveNodes()) == 2 && !x.live()) {
				break
			}
			subs := w.subs(op.Arg(1), 24)
			type bk struct{ nd *c17node; own []string }
			var before []bk
			for _, nd := range w.liveNodes() {
				if nd == x {
					continue
				}
				b := bk{nd: nd}
				for _, s := range subs {
					b.own = append(b.own, nd.p.GetOwner(s))
				}
				before = append(before, b)
			}
			for _, b := range before {
				if len(b.nd.cfg) > 1 {
					b.nd.removePeer(x.id)
				}
			}
			for _, b := range before {
				for k, s := range subs {
					after := b.nd.p.GetOwner(s)
					if b.own[k] != x.id && after != b.own[k] {
						c.Fail("minimal-disruption", "disruption/remove-peer", "node %q: removing peer %q moved subscriber %q from %q to %q although %q did not own it", b.nd.id, x.id, s, b.own[k], after, x.id)
					}
					if after == x.id {
						c.Fail("minimal-disruption", "disruption/removed-peer-still-owner", "node %q: after RemovePeer(%q) it still owns %q", b.nd.id, x.id, s)
					}
				}
				c.OpsDone++
			}
			if x.live() {
				// the removed node leaves the cluster
				c.S.Kill(x.node)
				n.NodeDown(x.node)
				x.p = nil
			}
			w.hashChecks(op.Arg(1)^int64(i), "removepeer-everywhere")
		case "downlaw":
			// marking a peer unhealthy everywhere changes ownership only for subscribers it owned
			x := pick(op.Arg(0))
			if ok, _ := w.stable(); !ok || !x.live() || len(w.liveNodes()) < 2 {
				c.S.Probe("downlaw_skipped")
				break
			}
			subs := w.subs(op.Arg(1), 24)
			type bk struct{ nd *c17node; own []string }
			var before []bk
			for _, nd := range w.liveNodes() {
				if nd == x {
					continue
				}
				b := bk{nd: nd}
				for _, s := range subs {
					b.own = append(b.own, nd.p.VerifHealthyOwner(s))
				}
				before = append(before, b)
			}
			c.S.Fault("crash.process")
			c.S.Kill(x.node)
			n.NodeDown(x.node)
			c.S.Sleep(time.Duration(w.thr+2) * w.iv)
			if ok, why := w.stable(); !ok {
				c.S.Probe("downlaw_unstable_" + why)
				break
			}
			for _, b := range before {
				if b.nd.p.IsPeerHealthy(x.id) {
					c.S.Probe("downlaw_not_marked")
					continue
				}
				for k, s := range subs {
					after := b.nd.p.VerifHealthyOwner(s)
					if b.own[k] != x.id && after != b.own[k] {
						c.Fail("minimal-disruption", "disruption/mark-unhealthy", "node %q: marking peer %q unhealthy moved subscriber %q from %q to %q although %q did not own it", b.nd.id, x.id, s, b.own[k], after, x.id)
					}
					if after == x.id {
						c.Fail("minimal-disruption", "disruption/unhealthy-peer-still-addressed", "node %q: peer %q is marked unhealthy, yet requests for %q still go to it", b.nd.id, x.id, s)
					}
				}
				c.OpsDone++
				c.S.Probe("downlaw_checked")
			}
		case "darklaw":
			// one or two peers go dark (their packets are dropped, nothing is refused: every probe
			// runs into its timeout) for long enough to be marked unhealthy everywhere else; that
			// changes ownership only for subscribers the dark peers owned
			x, y := pick(op.Arg(0)), pick(op.Arg(1))
			// (whatever else was going on is healed first and given time to settle; each remaining
			// node is then checked on its own view, the peer sets need not agree)
			if !x.live() || !y.live() || len(w.liveNodes()) < 3 {
				c.S.Probe("darklaw_skipped_too-few-live-nodes")
				break
			}
			n.HealAll()
			for k := range n.LoseNext {
				delete(n.LoseNext, k)
			}
			c.S.Sleep(time.Duration(w.thr+2) * w.iv)
			settled := func(nd *c17node) bool {
				for _, k := range nd.set() {
					if k == nd.id {
						continue
					}
					up := false
					for _, o := range w.liveNodes() {
						if o.id == k {
							up = true
						}
					}
					if nd.p.IsPeerHealthy(k) != up {
						return false
					}
				}
				return true
			}
			dark := map[string]bool{x.id: true, y.id: true}
			subs := w.subs(op.Arg(2), 24)
			type bk struct{ nd *c17node; own []string }
			var before []bk
			for _, nd := range w.liveNodes() {
				if dark[nd.id] {
					continue
				}
				if !settled(nd) {
					c.S.Probe("darklaw_node_not_settled")
					continue
				}
				b := bk{nd: nd}
				for _, s := range subs {
					b.own = append(b.own, nd.p.VerifHealthyOwner(s))
				}
				before = append(before, b)
			}
			for _, nd := range w.liveNodes() {
				for id := range dark {
					if nd.id != id {
						n.Partition(nd.id, id, true, false)
					}
				}
			}
			c.S.Fault("net.blackhole.peers-dark")
			c.S.Sleep(2 * time.Duration(w.thr+2) * w.iv)
			for _, b := range before {
				marked := true
				for id := range dark {
					if b.nd.cfg[id] && b.nd.p.IsPeerHealthy(id) {
						marked = false
					}
				}
				if !marked {
					c.S.Probe("darklaw_not_marked")
					continue
				}
				for k, s := range subs {
					after := b.nd.p.VerifHealthyOwner(s)
					if !dark[b.own[k]] && after != b.own[k] {
						c.Fail("minimal-disruption", "disruption/mark-unhealthy/dark-peers", "node %q: with peers %q and %q dark and marked unhealthy, subscriber %q moved from %q to %q although neither of them owned it", b.nd.id, x.id, y.id, s, b.own[k], after)
					}
					if dark[after] {
						c.Fail("minimal-disruption", "disruption/unhealthy-peer-still-addressed", "node %q: peer %q is marked unhealthy, yet requests for %q still go to it", b.nd.id, after, s)
					}
				}
				c.OpsDone++
				c.S.Probe("darklaw_checked")
			}
			// a subscriber of a dark peer is served by whoever stands in for it; when the peer is
			// reachable again but not yet regarded as healthy, the release - entering where the
			// request entered - must reach the pool that served it
			var entry *c17node
			var fsub string
			for _, b := range before {
				for k, s := range subs {
					if dark[b.own[k]] && !b.nd.p.IsPeerHealthy(b.own[k]) && entry == nil {
						entry, fsub = b.nd, s
					}
				}
			}
			var aerr error
			if entry != nil && !c.Failed() {
				c.S.Join(c.S.Spawn("alloc@"+entry.id, entry.node, func() { _, aerr = entry.p.Allocate(context.Background(), fsub, nil) }))
			}
			n.HealAll()
			if entry != nil && aerr == nil && !c.Failed() {
				var rerr error
				c.S.Join(c.S.Spawn("release@"+entry.id, entry.node, func() { rerr = entry.p.Release(context.Background(), fsub) }))
				c.S.Probe("darklaw_failover_release")
				if rerr == nil {
					for _, nd := range w.liveNodes() {
						if ip, holds := nd.p.VerifLocalHolds(fsub); holds {
							c.Fail("one-pool", "e2e/release-missed-the-pool/stand-in", "peers %q/%q dark and marked unhealthy at %q: the request for their subscriber %q entering there was served by a stand-in; once the peers were reachable again (still marked unhealthy) Release entering at %q returned nil but node %q's pool still holds it (%s)", x.id, y.id, entry.id, fsub, entry.id, nd.id, ip)
							break
						}
					}
				}
			}
		case "part":
			a, b := pick(op.Arg(0)), pick(op.Arg(1))
			if a != b {
				n.Partition(a.id, b.id, op.Arg(2) == 0, op.Arg(3) == 1)
			}
		case "heal":
			n.HealAll()
		case "crash":
			x := pick(op.Arg(0))
			if x.live() && len(w.liveNodes()) > 1 {
				c.S.Fault("crash.process")
				c.S.Kill(x.node)
				n.NodeDown(x.node)
			}
		case "restart":
			x := pick(op.Arg(0))
			if x.p != nil && x.node.Dead() {
				w.startNode(x)
				// a restarted process reads the same configuration; peers it learnt via AddPeer are re-added by the operator
				for _, o := range w.nodes {
					if o != x && o.p != nil {
						x.addPeer(o.id)
					}
				}
			}
		case "loss":
			n.LoseNext["/pool/status"] += int(op.Arg(0))
			c.S.Fault("net.ackloss.armed")
		case "sleep":
			d := []time.Duration{time.Second, w.iv + time.Second, time.Duration(w.thr-1)*w.iv + time.Second, time.Duration(w.thr+1)*w.iv + time.Second, 2 * time.Duration(w.thr+1) * w.iv}[int(op.Arg(0))%5]
			c.S.Sleep(d)
		case "lostforward":
			// one forwarded request's answer is lost while every node still regards the owner as
			// healthy (below the failure threshold); then the same subscriber is asked for everywhere
			if ok, _ := w.stable(); !ok || len(w.liveNodes()) < 2 {
				break
			}
			live := w.liveNodes()
			s := w.subs(op.Arg(0)^int64(i)<<4, 1)[0]
			owner := live[0].p.GetOwner(s)
			var entry *c17node
			for k := range live {
				if nd := live[(int(op.Arg(1))+k)%len(live)]; nd.id != owner {
					entry = nd
					break
				}
			}
			if entry == nil {
				break
			}
			n.LoseNext["/pool/allocate"]++
			c.S.Fault("net.ackloss.forwarded-allocate")
			var ferr error
			c.S.Join(c.S.Spawn("alloc@"+entry.id, entry.node, func() { _, ferr = entry.p.Allocate(context.Background(), s, nil) }))
			delete(n.LoseNext, "/pool/allocate")
			c.S.Logf("forwarded allocate for %q entering at %q (owner %q) with its answer lost -> err=%v", s, entry.id, owner, ferr != nil)
			c.OpsDone++
			w.forceSubs = []string{s}
			w.e2e(op.Arg(0), op.Arg(1))
			w.forceSubs = nil
		case "alloc":
			// a request under whatever faults are in flight: it may leave residue; nothing is asserted about it
			x := pick(op.Arg(0))
			if x.live() {
				s := fmt.Sprintf("roaming-%d", op.Arg(1))
				c.S.Join(c.S.Spawn("alloc@"+x.id, x.node, func() { x.p.Allocate(context.Background(), s, nil) }))
				c.OpsDone++
			}
		}
		h := uint64(len(w.liveNodes()))
		for _, nd := range w.liveNodes() {
			h = h*31 + uint64(len(nd.p.VerifPeerNodes()))
			for _, k := range nd.p.VerifPeerNodes() {
				if !nd.p.IsPeerHealthy(k) {
					h = h*7 + 1
				}
			}
		}
		c.State(h)
	}
	if c.Failed() {
		return
	}
	// ---- faults stop: once the views agree again, check end to end -------------
	c.OpIdx = len(cs.Ops)
	n.HealAll()
	for k := range n.LoseNext {
		delete(n.LoseNext, k)
	}
	w.addAll()
	c.S.Sleep(time.Duration(w.thr+2) * w.iv)
	w.hashChecks(int64(len(cs.Ops))*7919, "final")
	w.e2e(int64(len(cs.Ops))*104729, 1)
	for _, nd := range w.nodes {
		if nd.stop != nil {
			nd.stop()
		}
	}
}

func init() {
	sim.Register(&sim.Scenario{
		ID:  "C17",
		Gen: c17Gen,
		Run: c17Run,
		Real: []string{"pool.PeerPool (GetOwner, IsLocalOwner, rendezvousHash/rendezvousRanked, getHealthyOwner, Allocate/Release with forwarding, healthCheckLoop/checkPeer, AddPeer/RemovePeer, HTTP handlers)",
			"net/http.Client timeouts, http.ServeMux routing"},
		Stub:         []string{"network between the nodes (scn.vhNet)"},
		Rule:         "cases: 1-5 (thorough: up to 8) nodes with generated ids, per-node peer list order/with-or-without-self/partly via AddPeer, then 5-24 ops {stable end-to-end check, hash check, AddPeer, RemovePeer on one/all nodes, partition (sym/one-way, stall/reset), heal, crash, restart, probe loss, sleep around threshold*interval, unhealthy-everywhere law, a forwarded allocate whose answer is lost while the owner stays healthy (then the subscriber is requested everywhere), membership announcements as two overlapping AddPeer calls, RemovePeer at a node while requests for subscribers it owns itself enter there, one or two peers going dark (black-holed: probes time out) until marked unhealthy - ownership may then move only for their subscribers, and a subscriber served by a stand-in is released through the same node once the peer is reachable again but still marked unhealthy -, request under faults}; non-trivial = >=3 completed operations and (a fault fired or >2 context switches); distinct = distinct (case hash, schedule fingerprint)",
		QuickRuns:    4000,
		ThoroughRuns: 200000,
		Assumptions: []string{"node ids double as addresses (getPeerAddr) and are therefore generated from URL-host-safe strings; no duplicate ids in a configured list; a peer set never contains both x and x:8081 (the repository's address rule makes these two names of one node)",
			"the end-to-end clause is evaluated only while all live nodes hold the same peer set and the same health view (a node always regards itself as healthy), no partition or probe loss is pending and no dead peer is still regarded as healthy; it uses subscriber ids never requested before, so residue of requests made under divergent views is not held against the code",
			"ownership under health = the node Allocate/Release would address (getHealthyOwner)",
			"the dark-peers law judges every remaining node on its own view, after everything else was healed and given (threshold+2) probe intervals to settle; the peers stay dark for 2 x (threshold+2) intervals"},
	})
}
