package scn

import (
	"context"
	"errors"
	"fmt"
	"net"

	"github.com/codelaboratoryltd/bng/pkg/allocator"

	"github.com/codelaboratoryltd/bng/pkg/simrt"

	"verif/harness/sim"
)

// The "pool" variant: a real PoolAllocator over the real MemoryAllocationStore
// behind a wrapper that fails chosen writes (clean failure: no effect).

type c12failStore struct {
	c      *sim.Ctx
	inner  *allocator.MemoryAllocationStore
	failIn int
	writes int
}

func (f *c12failStore) write(kind string) error {
	f.writes++
	if f.failIn > 0 {
		f.failIn--
		if f.failIn == 0 {
			f.c.S.Fault("store.err." + kind)
			return fmt.Errorf("%s: %w", kind, errC12Injected)
		}
	}
	return nil
}

func (f *c12failStore) SaveAllocation(ctx context.Context, a allocator.AllocationRecord) error {
	if err := f.write("save"); err != nil {
		return err
	}
	return f.inner.SaveAllocation(ctx, a)
}

func (f *c12failStore) RemoveAllocation(ctx context.Context, poolID, subscriberID string) error {
	if err := f.write("remove"); err != nil {
		return err
	}
	return f.inner.RemoveAllocation(ctx, poolID, subscriberID)
}

func (f *c12failStore) GetBySubscriber(ctx context.Context, s string) ([]allocator.AllocationRecord, error) {
	return f.inner.GetBySubscriber(ctx, s)
}
func (f *c12failStore) GetByPool(ctx context.Context, p string) ([]allocator.AllocationRecord, error) {
	return f.inner.GetByPool(ctx, p)
}
func (f *c12failStore) GetByPoolType(ctx context.Context, t allocator.PoolType) ([]allocator.AllocationRecord, error) {
	return f.inner.GetByPoolType(ctx, t)
}
func (f *c12failStore) GetByIP(ctx context.Context, ip net.IP) (*allocator.AllocationRecord, error) {
	return f.inner.GetByIP(ctx, ip)
}
func (f *c12failStore) GetPoolUtilization(ctx context.Context, p string) (int, int, error) {
	return f.inner.GetPoolUtilization(ctx, p)
}
func (f *c12failStore) ListPools(ctx context.Context) ([]string, error) {
	return f.inner.ListPools(ctx)
}

func c12GenPool(r *sim.Rand, cs *sim.Case, n int) {
	cs.Knobs["pool"] = int64(r.N(2))
	nsub := r.Range(2, 6)
	for i := 0; i < n; i++ {
		s := int64(r.N(nsub))
		switch r.Weighted(10, 5, 4, 1, 3) {
		case 4:
			// two overlapping requests for one subscriber (a retransmission), one of the two saves failing
			cs.Ops = append(cs.Ops, sim.Op{K: "alloc2", A: []int64{s, int64(r.N(3))}})
		case 0:
			cs.Ops = append(cs.Ops, sim.Op{K: "alloc", A: []int64{s}})
		case 1:
			cs.Ops = append(cs.Ops, sim.Op{K: "release", A: []int64{s}})
		case 2:
			cs.Ops = append(cs.Ops, sim.Op{K: "errat", A: []int64{int64(r.Weighted(6, 2, 1))}})
		case 3:
			cs.Ops = append(cs.Ops, sim.Op{K: "json"})
		}
	}
}

func c12RunPool(c *sim.Ctx) {
	cs := c.Case
	ctx := context.Background()
	pc := c12sessionPools[c12mod(cs.Knob("pool", 0), 2)]
	fs := &c12failStore{c: c, inner: allocator.NewMemoryAllocationStore()}
	pa, err := allocator.NewPoolAllocator(c12PoolID, pc.base, pc.prefixLen, fs)
	if err != nil {
		panic(err)
	}
	var subs []string
	for i := 0; i < 6; i++ {
		subs = append(subs, fmt.Sprintf("s%d", i))
	}
	mem := func(s string) string {
		if p := pa.Lookup(s); p != nil {
			return p.String()
		}
		return ""
	}
	rec := func(s string) string {
		rs, _ := fs.inner.GetByPool(ctx, c12PoolID)
		for _, r := range rs {
			if r.SubscriberID == s {
				return c12ipnetStr(r.Prefix)
			}
		}
		return ""
	}
	for i, op := range cs.Ops {
		c.OpIdx = i
		if c.Failed() {
			return
		}
		switch op.K {
		case "errat":
			fs.failIn = 1 + c12mod(op.Arg(0), 3)
		case "json":
			c12CheckStoreJSON(c, "pool", fs.inner, subs)
			c12CheckIPJSON(c, "pool", pa.VerifC12Inner(), subs)
		case "alloc2":
			s := c12sub(op.Arg(0))
			preMem, preRec := mem(s), rec(s)
			if k := c12mod(op.Arg(1), 3); k > 0 {
				fs.failIn = k
			}
			var errs [2]error
			var ts []*simrt.Task
			for k := 0; k < 2; k++ {
				k := k
				ts = append(ts, c.S.Spawn(fmt.Sprintf("pool-alloc-%d", k), nil, func() {
					_, errs[k] = pa.Allocate(ctx, s, "02:00:00:00:12:0"+s[1:])
				}))
			}
			c.S.Join(ts...)
			c.OpsDone += 2
			c.S.Logf("pool alloc2 %s -> err=%v err=%v", s, errs[0] != nil, errs[1] != nil)
			if preMem != preRec {
				c.S.Probe("storefail_skipped_disagreed_before")
			} else if m, r := mem(s), rec(s); m != r {
				detail := "differ"
				if m == "" {
					detail = "memory-absent-store-present"
				} else if r == "" {
					detail = "memory-present-store-absent"
				}
				c.Fail("store-failure-agreement", "storefail/pool/alloc-overlapping/"+detail,
					"two overlapping PoolAllocator.Allocate(%s) calls returned (%v, %v); before them memory=%q store=%q, after both Lookup answers %q but the store record says %q",
					s, errs[0], errs[1], preMem, preRec, m, r)
			} else if errs[0] != nil || errs[1] != nil {
				c.S.Probe("storefail_checked_pool_alloc_overlapping")
			}
		case "alloc", "release":
			s := c12sub(op.Arg(0))
			preMem, preRec := mem(s), rec(s)
			var err error
			var got *net.IPNet
			if op.K == "alloc" {
				got, err = pa.Allocate(ctx, s, "02:00:00:00:12:0"+s[1:])
			} else {
				err = pa.Release(ctx, s)
			}
			c.OpsDone++
			c.S.Logf("pool %s %s -> %s err=%v", op.K, s, c12ipnetStr(got), err != nil)
			if err != nil && errors.Is(err, errC12Injected) {
				if preMem != preRec {
					c.S.Probe("storefail_skipped_disagreed_before")
				} else if m, r := mem(s), rec(s); m != r {
					kind := op.K
					if kind == "alloc" {
						kind = "alloc-new"
						if preMem != "" {
							kind = "alloc-existing"
						}
					}
					detail := "differ"
					if m == "" {
						detail = "memory-absent-store-present"
					} else if r == "" {
						detail = "memory-present-store-absent"
					}
					c.Fail("store-failure-agreement", fmt.Sprintf("storefail/pool/%s/%s", kind, detail),
						"PoolAllocator.%s(%s) returned a store error (%v); before the call memory=%q store=%q, after it Lookup answers %q but the store record says %q",
						op.K, s, err, preMem, preRec, m, r)
				} else {
					c.S.Probe("storefail_checked_pool_" + op.K)
				}
			}
		}
		a, _, _ := pa.Stats()
		c.State(a<<8 | uint64(fs.inner.Count()))
	}
	if c.Failed() {
		return
	}
	c12CheckStoreJSON(c, "pool", fs.inner, subs)
	c12CheckIPJSON(c, "pool", pa.VerifC12Inner(), subs)
}
