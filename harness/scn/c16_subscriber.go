package scn

import (
	"context"
	"fmt"
	"net"
	"time"

	bngradius "github.com/codelaboratoryltd/bng/pkg/radius"
	"github.com/codelaboratoryltd/bng/pkg/simrt"
	"github.com/codelaboratoryltd/bng/pkg/subscriber"
	"github.com/google/uuid"
	"go.uber.org/zap"

	"verif/harness/sim"
)

// C16 variant subscriber-manager: the real subscriber.Manager (CreateSession,
// Authenticate, AssignAddress, ActivateSession, TerminateSession, its cleanup
// loop on the virtual clock) with a stub Authenticator and a recording
// AddressAllocator (a small pool model whose calls may be preempted, as a
// remote allocator's would), and the real radius.CoAProcessor whose
// Disconnect-Request handling is routed to the manager through its setters.
//
// Sessions are taken up to a generated prefix (created / authenticated /
// address assigned / activated) and ended by TerminateSession with each
// reason, by the idle timeout and the session timeout through the cleanup
// loop, by a RADIUS Disconnect-Request (named by session id, framed address or
// calling station), by one of them twice, by two back to back and by two at
// the same time from two tasks (for a timeout: at the instant of the cleanup
// tick that expires the session).

type c16sAllocRec struct {
	ip       net.IP
	releases int
	freed    bool
}

type c16sAlloc struct {
	s       *simrt.Sim
	free4   []net.IP
	free6   []net.IP
	cur     map[string]*c16sAllocRec // address -> current allocation
	unheld  int                      // releases of an address that was not allocated at the time
	allocs  int
	lastRec *c16sAllocRec
	abandoned       int // releases not carried out because their context was done
	cancelOnRelease context.CancelFunc // armed by a terminate call: its context is cancelled when the next release starts
}

func (a *c16sAlloc) alloc(free *[]net.IP) (*c16sAllocRec, error) {
	a.s.Pause() // the allocator may be remote: the caller can be preempted here
	if len(*free) == 0 {
		return nil, fmt.Errorf("pool exhausted")
	}
	ip := (*free)[0]
	*free = (*free)[1:]
	r := &c16sAllocRec{ip: ip}
	a.cur[ip.String()] = r
	a.allocs++
	a.lastRec = r
	a.s.Logf("alloc %v", ip)
	return r, nil
}

func (a *c16sAlloc) release(free *[]net.IP, ip net.IP) error {
	a.s.Pause()
	a.s.Logf("release %v", ip)
	r := a.cur[ip.String()]
	if r == nil {
		a.unheld++
		return fmt.Errorf("unknown address")
	}
	r.releases++
	if r.freed {
		a.unheld++
		return fmt.Errorf("address not allocated")
	}
	r.freed = true
	*free = append(*free, r.ip)
	return nil
}

func (a *c16sAlloc) AllocateIPv4(ctx context.Context, s *subscriber.Session, poolID string) (net.IP, net.IPMask, net.IP, error) {
	r, err := a.alloc(&a.free4)
	if err != nil {
		return nil, nil, nil, err
	}
	return r.ip, net.CIDRMask(24, 32), net.IPv4(10, 8, 0, 1), nil
}

func (a *c16sAlloc) AllocateIPv6(ctx context.Context, s *subscriber.Session, poolID string) (net.IP, *net.IPNet, error) {
	r, err := a.alloc(&a.free6)
	if err != nil {
		return nil, nil, err
	}
	return r.ip, nil, nil
}

// Like the repository's remote allocators (HTTP calls bound to ctx), a release
// whose context is done by the time the request would go out is abandoned.
func (a *c16sAlloc) ReleaseIPv4(ctx context.Context, ip net.IP) error {
	return a.releaseCtx(ctx, &a.free4, ip)
}
func (a *c16sAlloc) ReleaseIPv6(ctx context.Context, ip net.IP) error {
	return a.releaseCtx(ctx, &a.free6, ip)
}

func (a *c16sAlloc) releaseCtx(ctx context.Context, free *[]net.IP, ip net.IP) error {
	if a.cancelOnRelease != nil {
		// the caller's deadline runs out just as its release request is about to go out
		a.cancelOnRelease()
		a.cancelOnRelease = nil
	}
	if err := ctx.Err(); err != nil {
		a.s.Logf("release %v abandoned: %v", ip, err)
		a.abandoned++
		return err
	}
	return a.release(free, ip)
}

type c16sAuth struct {
	s        *simrt.Sim
	stimeout map[string]time.Duration // MAC -> Session-Timeout returned for it
}

func (a *c16sAuth) Authenticate(ctx context.Context, req *subscriber.SessionRequest) (*subscriber.AuthResult, error) {
	a.s.Pause()
	return &subscriber.AuthResult{Success: true, SubscriberID: "sub-" + req.MAC.String(), ISPID: "isp", SessionTimeout: a.stimeout[req.MAC.String()]}, nil
}

// c16sReader feeds google/uuid (uuid.SetRand): tape-derived bytes, so that the
// run stays deterministic, with a counter in the tail, so that two sessions
// never share an id even when the shrinker zeroes the tape.
type c16sReader struct {
	s *simrt.Sim
	n *uint32
}

func (r c16sReader) Read(b []byte) (int, error) {
	for i := range b {
		b[i] = byte(r.s.Choose(simrt.StRand, 256))
	}
	if len(b) >= 8 {
		*r.n++
		b[len(b)-1], b[len(b)-2], b[len(b)-3] = byte(*r.n), byte(*r.n>>8), byte(*r.n>>16)
	}
	return len(b), nil
}

type c16sSess struct {
	idx      int
	mac      net.HardwareAddr
	id       string
	stage    int // 0 none, 1 created, 2 authenticated, 3 address assigned, 4 active
	rec4     *c16sAllocRec
	rec6     *c16sAllocRec
	start    time.Duration
	lastAct  time.Duration
	stimeout time.Duration
	ended    string
	pending  bool // may or may not have been collected by the cleanup loop yet
	// kinds of residue already reported for this session
	reported map[string]bool
}

var c16sReasons = []subscriber.TerminateReason{subscriber.TerminateUserRequest, subscriber.TerminateAdminReset, subscriber.TerminateSessionTimeout,
	subscriber.TerminateIdleTimeout, subscriber.TerminateLostCarrier, subscriber.TerminatePortError, subscriber.TerminateNASRequest,
	subscriber.TerminateNASReboot, subscriber.TerminateAuthFailed}

func c16sClass(path string) string {
	if path == "idle" || path == "session-timeout" {
		return "timeout"
	}
	return path
}

func c16GenSubscriber(r *sim.Rand, tier string, cs *sim.Case) {
	n := r.Range(1, 3)
	cs.Knobs["sessions"] = int64(n)
	cs.Knobs["v6"] = int64(r.N(2))
	cs.Knobs["idle_s"] = int64(sim.Pick(r, 60, 120))
	cs.Knobs["pool"] = int64(r.Range(2, 4))
	cs.Knobs["deadline"] = int64(r.Weighted(3, 1)) // 1: the context of TerminateSession calls is cancelled while the first address release is in flight
	paths := []string{"terminate", "disconnect", "idle", "session-timeout"}
	pick := func() string { return paths[r.Weighted(5, 4, 3, 2)] }
	type plan struct {
		k  string
		ps []string
	}
	plans := make([]*plan, n)
	stages := []string{"create", "auth", "assign", "activate"}
	for s := 0; s < n; s++ {
		if !r.P(15) {
			p := &plan{k: "end", ps: []string{pick()}}
			switch r.Weighted(5, 2, 4) {
			case 1:
				p.ps = append(p.ps, pick())
			case 2:
				p.k = "end2"
				p.ps = append(p.ps, pick())
			}
			plans[s] = p
		}
		st := int64(0)
		if plans[s] != nil {
			for _, p := range plans[s].ps {
				if p == "session-timeout" {
					st = 400
				}
			}
		}
		prefix := r.Weighted(1, 1, 2, 3, 10)
		for i := 0; i < prefix; i++ {
			op := sim.Op{K: stages[i], A: []int64{int64(s)}}
			if stages[i] == "auth" {
				op.A = append(op.A, st)
			}
			cs.Ops = append(cs.Ops, op)
		}
	}
	for s := 0; s < n; s++ {
		if p := plans[s]; p != nil {
			// A[3]=1: a new subscriber connects while the session is being ended
			cs.Ops = append(cs.Ops, sim.Op{K: p.k, A: []int64{int64(s), int64(r.N(len(c16sReasons))), int64(r.N(3)), int64(r.Weighted(3, 2))}, S: p.ps})
		}
	}
}

func c16RunSubscriber(c *sim.Ctx) {
	cs := c.Case
	uuid.SetRand(c16sReader{c.S, new(uint32)})
	defer uuid.SetRand(nil)
	idle := time.Duration(cs.Knob("idle_s", 60)) * time.Second
	if idle < 20*time.Second {
		idle = 20 * time.Second
	}
	interval := 10 * time.Second // configuration chosen by the harness
	withV6 := cs.Knob("v6", 0) == 1
	npool := int(cs.Knob("pool", 3))
	if npool < 1 || npool > 6 {
		npool = 3
	}
	al := &c16sAlloc{s: c.S, cur: map[string]*c16sAllocRec{}}
	for i := 0; i < npool; i++ {
		al.free4 = append(al.free4, net.IPv4(10, 8, 0, byte(10+i)).To4())
		al.free6 = append(al.free6, net.ParseIP(fmt.Sprintf("2001:db8::%x", 0x10+i)))
	}
	au := &c16sAuth{s: c.S, stimeout: map[string]time.Duration{}}
	m := subscriber.NewManager(subscriber.ManagerConfig{CleanupInterval: interval, DefaultSessionTimeout: 0, DefaultIdleTimeout: idle,
		AuthTimeout: 5 * time.Second, MaxAuthAttempts: 3, MaxSessions: 32}, au, al, zap.NewNop())
	termEvents := map[string]int{}
	m.OnEvent(func(e *subscriber.SessionEvent) {
		if e.Type == subscriber.EventSessionTerminate {
			termEvents[e.SessionID]++
			c.S.Logf("event terminate reason=%s", e.Reason)
		}
	})
	if err := m.Start(); err != nil {
		panic(err)
	}
	t0 := c.S.Now()
	defer m.Stop()

	// RADIUS CoA/Disconnect processing routed to the manager through the processor's setters
	info := func(s *subscriber.Session) *bngradius.SessionInfo {
		return &bngradius.SessionInfo{SessionID: s.ID, Username: s.Username, MAC: s.MAC, FramedIP: s.IPv4, State: string(s.State)}
	}
	coa := bngradius.NewCoAProcessor(zap.NewNop())
	coa.SetSessionLookup(func(id string) (*bngradius.SessionInfo, bool) {
		if s, ok := m.GetSession(id); ok && s != nil {
			return info(s), true
		}
		return nil, false
	})
	coa.SetSessionLookupByIP(func(ip net.IP) (*bngradius.SessionInfo, bool) {
		if s, ok := m.GetSessionByIP(ip); ok && s != nil {
			return info(s), true
		}
		return nil, false
	})
	coa.SetSessionLookupByMAC(func(mac string) (*bngradius.SessionInfo, bool) {
		hw, err := net.ParseMAC(mac)
		if err != nil {
			return nil, false
		}
		if s, ok := m.GetSessionByMAC(hw); ok && s != nil {
			return info(s), true
		}
		return nil, false
	})
	coa.SetSessionTerminator(func(ctx context.Context, id string, reason uint32) error {
		return m.TerminateSession(ctx, id, subscriber.TerminateNASRequest)
	})

	n := int(cs.Knob("sessions", 1))
	if n < 1 {
		n = 1
	}
	if n > 4 {
		n = 4
	}
	var ss []*c16sSess
	for i := 0; i < n; i++ {
		ss = append(ss, &c16sSess{idx: i, mac: net.HardwareAddr{0x02, 0xaa, 0, 0, 2, byte(i + 1)}})
	}
	up := func(x *c16sSess) bool { return x.stage >= 1 && x.ended == "" }
	bg := context.Background()

	// expire applies the timeouts the harness itself configured to its model
	expire := func() {
		now := c.S.Now()
		for _, x := range ss {
			if !up(x) {
				continue
			}
			due := time.Duration(-1)
			why := ""
			if x.stimeout > 0 {
				due, why = x.start+x.stimeout, "session-timeout"
			}
			if d := x.lastAct + idle; due < 0 || d < due {
				due, why = d, "idle"
			}
			switch {
			case now > due+2*interval+time.Second:
				x.ended = why
			case now > due:
				x.pending = true
			}
		}
	}
	touch := func(skip *c16sSess) {
		for _, x := range ss {
			if x != skip && up(x) {
				if m.UpdateActivity(x.id, 100, 100, 1, 1) == nil {
					x.lastAct = c.S.Now()
				}
			}
		}
	}
	// sleepBusy advances time while every session that is up, except skip, shows traffic
	sleepBusy := func(d time.Duration, skip *c16sSess) {
		for d > 0 {
			st := idle / 3
			if st > d {
				st = d
			}
			c.S.Sleep(st)
			d -= st
			expire()
			touch(skip)
		}
	}
	call := func(x *c16sSess, path string, reason subscriber.TerminateReason, sel int64) {
		switch path {
		case "terminate":
			ctx, cancel := bg, context.CancelFunc(func() {})
			if cs.Knob("deadline", 0) == 1 {
				ctx, cancel = context.WithCancel(bg)
				al.cancelOnRelease = cancel
			}
			err := m.TerminateSession(ctx, x.id, reason)
			al.cancelOnRelease = nil
			cancel()
			c.S.Logf("terminate s%d reason=%s err=%v", x.idx, reason, err != nil)
			if err != nil && ctx.Err() != nil {
				// the caller gave up; the operator (or the next cleanup pass) asks again
				c.S.Fault("caller.deadline-during-release")
				err = m.TerminateSession(bg, x.id, reason)
				c.S.Logf("terminate s%d again err=%v", x.idx, err != nil)
			} else if ctx.Err() != nil {
				c.S.Probe("caller_deadline_during_release_ignored")
			}
		case "disconnect":
			req := &bngradius.DisconnectRequest{Username: "u"}
			switch {
			case sel == 1 && x.rec4 != nil:
				req.FramedIP = x.rec4.ip
			case sel == 2:
				req.CallingStation = x.mac.String()
			default:
				req.SessionID = x.id
			}
			resp := coa.HandleDisconnect(bg, req)
			c.S.Logf("disconnect s%d sel=%d success=%v", x.idx, sel, resp.Success)
		}
		c.OpsDone++
	}
	// timeoutAt: when the harness's own configuration makes x expire by path
	timeoutAt := func(x *c16sSess, path string) (time.Duration, bool) {
		if path == "session-timeout" {
			if x.stimeout <= 0 {
				return 0, false
			}
			return x.start + x.stimeout, true
		}
		return x.lastAct + idle, true
	}

	// newcomer: a new subscriber gets a session and an address (it stays up)
	newcomers := 0
	newcomer := func() *simrt.Task {
		newcomers++
		f := &c16sSess{idx: 10 + newcomers, mac: net.HardwareAddr{0x02, 0xdd, 0, 0, 2, byte(newcomers)}}
		return c.S.Spawn("newcomer", nil, func() {
			s, err := m.CreateSession(bg, &subscriber.SessionRequest{MAC: f.mac, Type: subscriber.SessionTypeIPoE})
			if err != nil {
				return
			}
			f.id, f.stage, f.start, f.lastAct = s.ID, 1, c.S.Now(), c.S.Now()
			ss = append(ss, f)
			if m.AssignAddress(bg, s.ID, "v4", "") == nil && s.IPv4 != nil {
				f.rec4 = al.cur[s.IPv4.String()]
				f.stage = 3
			}
			c.OpsDone++
		})
	}

	// auditAll audits every session that has been ended, under the label of the
	// steps that ended it so far; it runs after every termination step and once
	// more at the end. A residue that was reported for a session under a shorter
	// label is not reported again when a later step leaves it as it was.
	auditAll := func() {
		for _, x := range ss {
			if x.stage < 1 || x.ended == "" {
				continue
			}
			l := x.ended
			once := func(kind string) bool {
				if x.reported[kind] {
					return false
				}
				if x.reported == nil {
					x.reported = map[string]bool{}
				}
				x.reported[kind] = true
				return true
			}
			if s, ok := m.GetSession(x.id); ok && once("table") {
				st := subscriber.SessionState("?")
				if s != nil {
					st = s.State
				}
				c.Fail("session-not-removed", "subscriber-manager/session-table/"+l, "session s%d was ended by %s but GetSession still returns it (state %s)", x.idx, l, st)
			}
			if s, ok := m.GetSessionByMAC(x.mac); ok && (s == nil || s.ID == x.id) && once("table-mac") {
				c.Fail("session-not-removed", "subscriber-manager/session-table-mac/"+l, "session s%d was ended by %s but GetSessionByMAC(%s) still answers for it (session present: %v)", x.idx, l, x.mac, s != nil)
			}
			for _, r := range []*c16sAllocRec{x.rec4, x.rec6} {
				if r == nil {
					continue
				}
				fam := "IPv4"
				if r == x.rec6 {
					fam = "IPv6"
				}
				if s, ok := m.GetSessionByIP(r.ip); ok && (s == nil || s.ID == x.id) && once("table-ip"+fam) {
					c.Fail("session-not-removed", "subscriber-manager/session-table-ip/"+l, "session s%d was ended by %s but GetSessionByIP(%v) still answers for it (session present: %v)", x.idx, l, r.ip, s != nil)
				}
				switch {
				case r.releases == 0 && once("address"+fam):
					c.Fail("address-not-released", "subscriber-manager/address/"+l, "session s%d (%s address %v) was ended by %s but the allocator was never asked to release the address", x.idx, fam, r.ip, l)
				case r.releases > 1 && once("address-twice"+fam):
					c.Fail("double-release", "subscriber-manager/address-released-twice/"+l, "session s%d (%s address %v) was ended by %s: the allocator was asked to release the address %d times (%d session_terminate events were emitted)", x.idx, fam, r.ip, l, r.releases, termEvents[x.id])
				}
			}
		}
	}

	for i, op := range cs.Ops {
		c.OpIdx = i
		if c.Failed() {
			break
		}
		si := int(op.Arg(0))
		if si < 0 || si >= n {
			continue
		}
		x := ss[si]
		expire()
		switch op.K {
		case "create":
			if x.stage != 0 {
				continue
			}
			t := c.S.Spawn("op", nil, func() {
				s, err := m.CreateSession(bg, &subscriber.SessionRequest{MAC: x.mac, Type: subscriber.SessionTypeIPoE, Username: fmt.Sprintf("user%d", x.idx)})
				if err == nil {
					x.id, x.stage, x.start, x.lastAct = s.ID, 1, c.S.Now(), c.S.Now()
				}
			})
			c.S.Join(t)
			c.OpsDone++
		case "auth":
			if x.stage != 1 || !up(x) {
				continue
			}
			st := time.Duration(op.Arg(1)) * time.Second
			if st < 0 || st > time.Hour {
				st = 0
			}
			au.stimeout[x.mac.String()] = st
			t := c.S.Spawn("op", nil, func() {
				if res, err := m.Authenticate(bg, x.id); err == nil && res.Success {
					x.stage, x.stimeout = 2, st
				}
			})
			c.S.Join(t)
			c.OpsDone++
		case "assign":
			if x.stage != 2 || !up(x) {
				continue
			}
			t := c.S.Spawn("op", nil, func() {
				p6 := ""
				if withV6 {
					p6 = "v6"
				}
				before := al.allocs
				err := m.AssignAddress(bg, x.id, "v4", p6)
				if s, ok := m.GetSession(x.id); ok && s != nil {
					if s.IPv4 != nil {
						x.rec4 = al.cur[s.IPv4.String()]
					}
					if s.IPv6 != nil {
						x.rec6 = al.cur[s.IPv6.String()]
					}
				}
				if err == nil && al.allocs > before {
					x.stage = 3
				}
			})
			c.S.Join(t)
			c.OpsDone++
		case "activate":
			if x.stage != 3 || !up(x) {
				continue
			}
			t := c.S.Spawn("op", nil, func() {
				if m.ActivateSession(x.id) == nil {
					x.stage, x.lastAct = 4, c.S.Now()
				}
			})
			c.S.Join(t)
			c.OpsDone++
		case "end":
			if !up(x) {
				continue
			}
			reason := c16sReasons[int(op.Arg(1))%len(c16sReasons)]
			if op.Arg(1) < 0 {
				reason = c16sReasons[0]
			}
			label := ""
			for k := 0; k < 2 && k < len(op.S); k++ {
				path := op.Str(k)
				switch path {
				case "terminate", "disconnect":
					t := c.S.Spawn("end", nil, func() { call(x, path, reason, op.Arg(2)) })
					c.S.Join(t)
				case "idle", "session-timeout":
					if x.ended != "" {
						continue // nothing left that could time out
					}
					at, ok := timeoutAt(x, path)
					if !ok {
						continue
					}
					skip := x
					if path == "session-timeout" {
						skip = nil // traffic does not stop the session timeout
					}
					if d := at + 3*interval - c.S.Now(); d > 0 {
						sleepBusy(d, skip)
					}
					expire()
				default:
					continue
				}
				if label == "" {
					label = path
				} else {
					label += "+" + path
				}
				x.ended, x.pending = label, false
				auditAll()
				if c.Failed() {
					break
				}
			}
		case "end2":
			if !up(x) {
				continue
			}
			reason := c16sReasons[int(op.Arg(1))%len(c16sReasons)]
			if op.Arg(1) < 0 {
				reason = c16sReasons[0]
			}
			p1, p2 := op.Str(0), op.Str(1)
			if c16sClass(p1) == "timeout" && c16sClass(p2) == "timeout" {
				p2 = "terminate"
			}
			if c16sClass(p2) == "timeout" {
				p1, p2 = p2, p1
			}
			if p1 == "session-timeout" && x.stimeout <= 0 {
				p1 = "idle"
			}
			a, b := c16sClass(p1), c16sClass(p2)
			if a > b {
				a, b = b, a
			}
			label := a + "|" + b
			c.S.Fault("terminate.concurrent")
			if c16sClass(p1) == "timeout" {
				// p2 is called at the instant of the cleanup tick that finds x expired
				at, _ := timeoutAt(x, p1)
				skip := x
				if p1 == "session-timeout" {
					skip = nil
				}
				tick := t0 + (at-t0)/interval*interval + interval
				for tick-c.S.Now() > idle/3 {
					sleepBusy(idle/3, skip)
				}
				if !up(x) {
					continue
				}
				if d := tick - c.S.Now(); d > 0 {
					c.S.Sleep(d)
				}
				ts := []*simrt.Task{c.S.Spawn("end", nil, func() { call(x, p2, reason, op.Arg(2)) })}
				// a Disconnect-Request addressed by Framed-IP legitimately ends whoever
				// holds the address when it is processed: no newcomer may take the
				// address over in the meantime, or the ledger would misattribute it
				if op.Arg(3) == 1 && !(p2 == "disconnect" && op.Arg(2) == 1) {
					ts = append(ts, newcomer())
				}
				c.S.Join(ts...)
				touch(x)
				sleepBusy(3*interval, x)
			} else {
				ts := []*simrt.Task{c.S.Spawn("end", nil, func() { call(x, p1, reason, op.Arg(2)) }),
					c.S.Spawn("end", nil, func() { call(x, p2, reason, (op.Arg(2)+1)%3) })}
				byIP := (p1 == "disconnect" && op.Arg(2) == 1) || (p2 == "disconnect" && (op.Arg(2)+1)%3 == 1)
				if op.Arg(3) == 1 && !byIP {
					ts = append(ts, newcomer())
				}
				c.S.Join(ts...)
			}
			x.ended, x.pending = label, false
			auditAll()
		}
	}
	// quiescence
	c.S.Sleep(time.Second)
	expire()

	// ---- audit -------------------------------------------------------------------
	auditAll()
	live4 := map[string]bool{}
	indet := 0
	for _, x := range ss {
		if x.stage >= 1 && x.ended == "" {
			if x.pending {
				indet++
			} else if x.rec4 != nil {
				live4[x.rec4.ip.String()] = true
			}
		}
	}
	// every address that is not held by a session that is up can be assigned
	// again, to exactly one fresh session
	got := map[string]int{}
	if !c.Failed() {
		for i := 0; i < npool+1; i++ {
			f := &c16sSess{idx: 50 + i, mac: net.HardwareAddr{0x02, 0xcc, 0, 0, 2, byte(i + 1)}}
			t := c.S.Spawn("fresh", nil, func() {
				s, err := m.CreateSession(bg, &subscriber.SessionRequest{MAC: f.mac, Type: subscriber.SessionTypeIPoE})
				if err != nil {
					return
				}
				if m.AssignAddress(bg, s.ID, "v4", "") == nil && s.IPv4 != nil {
					got[s.IPv4.String()]++
					if live4[s.IPv4.String()] {
						c.Fail("double-free", "subscriber-manager/address-of-live-session-reassigned", "address %v belongs to a session that is still up and was assigned to a fresh session", s.IPv4)
					}
				}
			})
			c.S.Join(t)
		}
		for a, k := range got {
			if k > 1 {
				c.Fail("double-free", "subscriber-manager/address-handed-out-twice", "address %s was assigned to %d fresh sessions", a, k)
			}
		}
		if want := npool - len(live4) - indet; len(got) < want {
			c.Fail("address-not-released", "subscriber-manager/address-not-obtainable", "fresh sessions obtained %d distinct addresses, %d should be free (pool %d, %d held by sessions that are up, %d awaiting cleanup)", len(got), want, npool, len(live4), indet)
		}
	}
	c.State(uint64(len(live4))<<8 | uint64(len(got)))
}

func init() {
	c16Variants["subscriber-manager"] = &c16Variant{gen: c16GenSubscriber, run: c16RunSubscriber, weight: 6}
}
