package scn

import (
	"bytes"
	"context"
	"errors"
	"fmt"
	"io"
	"net"
	"net/http"
	"net/url"
	"strings"
	"syscall"
	"time"

	"github.com/codelaboratoryltd/bng/pkg/simrt"

	"verif/harness/sim"
)

// vhNet is a simulated HTTP network shared by C13, C14 and C17: an
// http.RoundTripper that, instead of opening sockets, runs the destination
// node's real http.Handler in a scheduler task of that node, with a streaming,
// flushable ResponseWriter whose body the client reads through a pipe.
//
// Blocking discipline: a party that has to wait (for the response head, for
// body bytes, for a latency to elapse, for its deadline) blocks on real
// in-bubble channels/timers and visits the scheduler (S.Pause) right after
// waking, before it touches shared state -- the same pattern as sim/radius.go.
// No sockets, no net/http server, no raw goroutines.
//
// Faults (each counted with S.Fault when it fires): partition (per directed
// link; new requests fail with a net error after a virtual delay, established
// bodies stall or are reset), request loss, response loss, mid-body disconnect
// at a byte offset, extra latency (also beyond the client's timeout), node
// crash (connections of a dead node are reset).

type vhHost struct {
	Name    string // URL host, e.g. "active.sim:9000"
	Node    *simrt.Node
	Handler http.Handler
}

type vhConn struct {
	n        *vhNet
	id       int
	from, to string
	method   string
	path     string
	srvNode  *simrt.Node
	cliNode  *simrt.Node
	stream   bool // handler flushed before returning (SSE)

	status  int
	hdr     http.Header
	pending []byte // written by the handler, not flushed yet
	buf     []byte // flushed, not yet read by the client
	sent    []byte // everything flushed towards the client (observation)

	headDone    bool  // status line + headers are on the wire
	srvDone     bool  // handler returned
	broken      error // connection failed; the reader sees it after draining buf
	cliGone     bool  // client closed the body / gave up
	established bool  // response head handed to the client
	ended       bool  // the client's reader has seen EOF/error or closed
	lazySrv     bool  // server side learns of a break only at its next flush
	marks       []vhMark // one per flush that put bytes on the wire: end offset in sent + virtual time
	readOff     int      // bytes of sent the client has read
	lateArmed   bool
	endAt       time.Duration // virtual time at which the client's reader saw the end (valid once ended)
	srvKnows    bool  // the server side has been told (reset/FIN arrived): its context is cancelled, writes fail
	cutArmed    bool  // cut this connection at its next flush

	wake    chan struct{}
	scancel context.CancelFunc
}

// vhMark: bytes up to off were flushed at virtual time at.
type vhMark struct {
	off int
	at  time.Duration
}

// LastReadFlushAt is the flush time of the latest flush whose bytes the client
// has read completely (0, false if none). The transport delivers in order, so
// everything flushed earlier on this connection has been read as well.
func (cn *vhConn) LastReadFlushAt() (time.Duration, bool) {
	var t time.Duration
	ok := false
	for _, m := range cn.marks {
		if m.off <= cn.readOff {
			t, ok = m.at, true
		}
	}
	return t, ok
}

type vhLinkKey struct{ from, to string }

// vhPlan is what happens to one request.
type vhPlan struct {
	dropReq  bool          // request never reaches the server
	loseResp bool          // handler runs, the response head never reaches the client
	reqLat   time.Duration // before the handler starts
	respLat  time.Duration // between the head being flushed and the client seeing it
}

type vhNet struct {
	c     *sim.Ctx
	hosts map[string]*vhHost
	down  map[vhLinkKey]bool // directed link is partitioned
	conns []*vhConn
	seq   int

	// per-mille fault rates drawn per request / per flush from the net stream
	PmDropReq, PmLoseResp, PmDelay, PmCut int
	BaseLat                               time.Duration
	LongDelays                            []time.Duration // candidates for an injected delay
	Quiet                                 bool            // no tape-drawn faults
	InFlight                              int             // requests between RoundTrip entry and return
	PartLog                               [][2]time.Duration // intervals during which some link was partitioned (open interval: end = -1)
	OutlivedBy                            int             // id of the newest stream connection during whose life an older one's server side was reset late

	// one-shot scripted faults (set by scenario ops)
	LoseNext  map[string]int           // path suffix -> number of responses to lose
	DelayNext map[string]time.Duration // path suffix -> extra request latency for the next request

	// observation hooks (called in the task that performs the step)
	OnRequest  func(from string, req *http.Request)    // RoundTrip entered (client task)
	OnHead     func(cn *vhConn)                        // response head handed to the client
	OnBodyEnd  func(cn *vhConn, err error)             // client reader saw EOF/error/Close
	OnServe    func(cn *vhConn, req *http.Request)     // handler about to run (server task)
	OnFailed   func(from string, req *http.Request, err error)
}

func newVHNet(c *sim.Ctx) *vhNet {
	return &vhNet{c: c, hosts: map[string]*vhHost{}, down: map[vhLinkKey]bool{}, BaseLat: 300 * time.Microsecond,
		LoseNext: map[string]int{}, DelayNext: map[string]time.Duration{}}
}

func (n *vhNet) Listen(name string, node *simrt.Node, h http.Handler) *vhHost {
	host := &vhHost{Name: name, Node: node, Handler: h}
	n.hosts[name] = host
	return host
}

// Client returns an http.Client (no Timeout set: the overlay setters keep the
// component's own) whose requests originate at from.
func (n *vhNet) Client(from string) *http.Client {
	return &http.Client{Transport: &vhTransport{n: n, from: from}}
}

func (n *vhNet) linkUp(from, to string) bool { return !n.down[vhLinkKey{from, to}] }

// Partition cuts the directed link(s). reset: established connections over the
// link are reset; otherwise their data stalls until Heal (TCP retransmission)
// or until the client gives up.
func (n *vhNet) Partition(a, b string, bothWays, reset bool) {
	if len(n.down) == 0 {
		n.PartLog = append(n.PartLog, [2]time.Duration{n.c.S.Now(), -1})
	}
	n.down[vhLinkKey{a, b}] = true
	if bothWays {
		n.down[vhLinkKey{b, a}] = true
	}
	n.c.S.Fault("net.partition")
	if reset {
		for _, cn := range n.conns {
			if cn.ended || cn.broken != nil {
				continue
			}
			if (cn.from == a && cn.to == b) || (cn.from == b && cn.to == a) {
				cn.breakConn(&net.OpError{Op: "read", Net: "tcp", Err: syscall.ECONNRESET})
			}
		}
	}
}

func (n *vhNet) Heal(a, b string) {
	if n.down[vhLinkKey{a, b}] || n.down[vhLinkKey{b, a}] {
		n.c.S.Fault("net.heal")
	}
	delete(n.down, vhLinkKey{a, b})
	delete(n.down, vhLinkKey{b, a})
	n.closePartLog()
	for _, cn := range n.conns {
		if !cn.ended {
			cn.wakeReader()
		}
	}
}

func (n *vhNet) closePartLog() {
	if k := len(n.PartLog); k > 0 && n.PartLog[k-1][1] < 0 && len(n.down) == 0 {
		n.PartLog[k-1][1] = n.c.S.Now()
	}
}

// PartitionedDuring reports whether any link was partitioned at some point of [from, to].
func (n *vhNet) PartitionedDuring(from, to time.Duration) bool {
	for _, iv := range n.PartLog {
		if iv[0] <= to && (iv[1] < 0 || iv[1] >= from) {
			return true
		}
	}
	return false
}

func (n *vhNet) HealAll() {
	if len(n.down) > 0 {
		n.c.S.Fault("net.heal")
	}
	n.down = map[vhLinkKey]bool{}
	n.closePartLog()
	for _, cn := range n.conns {
		if !cn.ended {
			cn.wakeReader()
		}
	}
}

// NodeDown tells the network that node has been killed: its peers see resets.
func (n *vhNet) NodeDown(node *simrt.Node) {
	for _, cn := range n.conns {
		if cn.ended && cn.srvDone {
			continue
		}
		if cn.srvNode == node && cn.broken == nil && !cn.srvDone {
			cn.broken = &net.OpError{Op: "read", Net: "tcp", Err: syscall.ECONNRESET}
			cn.wakeReader()
		}
		if cn.cliNode == node {
			cn.cliGone = true
			cn.tellServer()
		}
	}
}

// CutStream resets the first live streaming connection from->to; it reports
// whether there was one.
func (n *vhNet) CutStream(from, to string) bool {
	for _, cn := range n.conns {
		if cn.from == from && cn.to == to && cn.stream && cn.established && !cn.ended && cn.broken == nil && !cn.cliGone {
			n.c.S.Fault("http.disconnect")
			cn.breakConn(io.ErrUnexpectedEOF)
			return true
		}
	}
	return false
}

// ArmCut makes the live streaming connection from->to break inside its next flush.
func (n *vhNet) ArmCut(from, to string) bool {
	for _, cn := range n.conns {
		if cn.from == from && cn.to == to && cn.stream && cn.established && !cn.ended && cn.broken == nil && !cn.cliGone {
			cn.cutArmed = true
			return true
		}
	}
	return false
}

func (n *vhNet) gc() {
	if len(n.conns) < 64 {
		return
	}
	k := 0
	for _, cn := range n.conns {
		if cn.ended && cn.srvDone {
			continue
		}
		n.conns[k] = cn
		k++
	}
	for i := k; i < len(n.conns); i++ {
		n.conns[i] = nil
	}
	n.conns = n.conns[:k]
}

// ---------------------------------------------------------------------------
// connection

func (cn *vhConn) wakeReader() {
	select {
	case cn.wake <- struct{}{}:
	default:
	}
}

// breakConn fails the connection as seen from the client; the server side
// learns immediately or (lazySrv) at its next flush.
func (cn *vhConn) breakConn(err error) {
	if cn.broken == nil {
		cn.broken = err
	}
	if !cn.lazySrv {
		cn.tellServer()
	} else {
		cn.lateReset()
	}
	cn.wakeReader()
}

// lateReset: the server side of a half-open connection that never writes again
// still learns eventually (TCP keepalive, a reset arriving late): after a
// tape-chosen delay its request context is cancelled.
func (cn *vhConn) lateReset() {
	if cn.lateArmed || cn.srvKnows || cn.srvDone {
		return
	}
	cn.lateArmed = true
	S := cn.n.c.S
	d := []time.Duration{3 * time.Second, 700 * time.Millisecond, 12 * time.Second, 45 * time.Second}[S.Choose(simrt.StNet, 4)]
	S.Spawn("net-late-reset", nil, func() {
		S.Sleep(d)
		if !cn.srvKnows && !cn.srvDone {
			if cn.stream {
				S.Probe("halfopen_server_learns_by_keepalive")
			}
			S.Logf("http conn %d half-open: server side reset after %v", cn.id, d)
			for _, o := range cn.n.conns {
				if o != cn && o.from == cn.from && o.to == cn.to && o.stream && cn.stream && o.id > cn.id && o.established && !o.ended && o.broken == nil {
					S.Probe("halfopen_old_handler_outlives_reconnect")
					cn.n.OutlivedBy = o.id
				}
			}
			cn.tellServer()
		}
	})
}

func (cn *vhConn) tellServer() {
	cn.srvKnows = true
	cn.scancel()
}

// clientLeaves: the client closed the body or gave up. Its FIN/RST reaches the
// server at once unless the connection is half-open (lazySrv) or the
// client->server link is partitioned; then the server learns at its next flush
// over a healed link, as with TCP.
func (cn *vhConn) clientLeaves() {
	cn.cliGone = true
	if cn.srvKnows {
		return
	}
	if !cn.lazySrv && cn.n.linkUp(cn.from, cn.to) {
		cn.tellServer()
		return
	}
	cn.lateReset()
	if cn.stream && !cn.srvDone {
		cn.n.c.S.Probe("halfopen_client_left_silently")
		cn.n.c.S.Logf("http conn %d half-open: client left, server not told", cn.id)
	}
}

func (cn *vhConn) flush() {
	n := cn.n
	cn.headDone = true
	data := cn.pending
	cn.pending = nil
	if cn.broken != nil || cn.cliGone {
		if !cn.srvKnows && n.linkUp(cn.to, cn.from) && n.linkUp(cn.from, cn.to) {
			if !cn.srvDone && cn.stream {
				n.c.S.Probe("halfopen_server_learns_at_flush")
				n.c.S.Logf("http conn %d half-open: server learns at flush", cn.id)
				for _, o := range n.conns {
					if o != cn && o.from == cn.from && o.to == cn.to && o.stream && o.id > cn.id && !o.srvDone {
						n.c.S.Probe("halfopen_old_handler_outlives_reconnect")
						break
					}
				}
			}
			cn.tellServer()
		}
		cn.wakeReader()
		return
	}
	cut := false
	if cn.established && len(data) > 0 {
		if cn.cutArmed {
			cut = true
		} else if !n.Quiet && n.PmCut > 0 && n.c.S.Choose(simrt.StNet, 1000) >= 1000-n.PmCut {
			cut = true
		}
	}
	if cut {
		k := n.c.S.Choose(simrt.StNet, len(data)+1)
		cn.buf = append(cn.buf, data[:k]...)
		cn.sent = append(cn.sent, data[:k]...)
		if k > 0 {
			cn.marks = append(cn.marks, vhMark{len(cn.sent), n.c.S.Now()})
		}
		n.c.S.Fault("http.disconnect")
		n.c.S.Logf("http conn %d cut mid-body after %d of %d bytes", cn.id, k, len(data))
		cn.breakConn(io.ErrUnexpectedEOF)
		return
	}
	cn.buf = append(cn.buf, data...)
	cn.sent = append(cn.sent, data...)
	if len(data) > 0 {
		cn.marks = append(cn.marks, vhMark{len(cn.sent), n.c.S.Now()})
	}
	cn.wakeReader()
}

type vhWriter struct {
	cn    *vhConn
	hdr   http.Header
	wrote bool
}

func (w *vhWriter) Header() http.Header { return w.hdr }

func (w *vhWriter) WriteHeader(code int) {
	if w.wrote {
		return
	}
	w.wrote = true
	w.cn.status = code
	w.cn.hdr = w.hdr.Clone()
}

func (w *vhWriter) Write(p []byte) (int, error) {
	if !w.wrote {
		w.WriteHeader(http.StatusOK)
	}
	if w.cn.srvKnows {
		return 0, &net.OpError{Op: "write", Net: "tcp", Err: syscall.EPIPE}
	}
	w.cn.pending = append(w.cn.pending, p...)
	return len(p), nil
}

func (w *vhWriter) Flush() {
	if !w.wrote {
		w.WriteHeader(http.StatusOK)
	}
	if !w.cn.srvDone {
		w.cn.stream = true
	}
	w.cn.flush()
}

type vhBody struct {
	cn     *vhConn
	ctx    context.Context
	cancel <-chan struct{}
}

func (b *vhBody) end(err error) {
	cn := b.cn
	if cn.ended {
		return
	}
	cn.ended = true
	cn.endAt = cn.n.c.S.Now()
	if cn.n.OnBodyEnd != nil {
		cn.n.OnBodyEnd(cn, err)
	}
}

func (b *vhBody) Read(p []byte) (int, error) {
	cn := b.cn
	n := cn.n
	if len(p) == 0 {
		return 0, nil
	}
	for {
		if cn.cliGone {
			return 0, errors.New("http: read on closed response body")
		}
		if err := vhCtxErr(b.ctx, b.cancel); err != nil {
			cn.clientLeaves()
			b.end(err)
			return 0, err
		}
		up := n.linkUp(cn.to, cn.from)
		if len(cn.buf) > 0 && up {
			k := copy(p, cn.buf)
			cn.buf = cn.buf[k:]
			cn.readOff += k
			return k, nil
		}
		if cn.broken != nil {
			b.end(cn.broken)
			return 0, cn.broken
		}
		if cn.srvDone && len(cn.buf) == 0 {
			b.end(io.EOF)
			return 0, io.EOF
		}
		n.block(cn, b.ctx, b.cancel)
	}
}

func (b *vhBody) Close() error {
	cn := b.cn
	if !cn.cliGone {
		cn.clientLeaves()
	}
	b.end(errors.New("closed"))
	return nil
}

func vhCtxErr(ctx context.Context, cancel <-chan struct{}) error {
	if err := ctx.Err(); err != nil {
		return err
	}
	select {
	case <-cancel:
		return errors.New("net/http: request canceled")
	default:
	}
	return nil
}

// block waits until the connection changes, the request context ends or the
// client's timeout fires, then rejoins the scheduler.
func (n *vhNet) block(cn *vhConn, ctx context.Context, cancel <-chan struct{}) {
	select {
	case <-cn.wake:
	case <-ctx.Done():
	case <-cancel:
	}
	n.c.S.Pause()
	n.c.S.DieIfDead()
}

// sleepCtx lets d of virtual time pass unless the request ends first.
func (n *vhNet) sleepCtx(d time.Duration, ctx context.Context, cancel <-chan struct{}) error {
	if d > 0 {
		tm := time.NewTimer(d)
		select {
		case <-tm.C:
		case <-ctx.Done():
			tm.Stop()
		case <-cancel:
			tm.Stop()
		}
		n.c.S.Pause()
		n.c.S.DieIfDead()
	}
	return vhCtxErr(ctx, cancel)
}

// hang waits for the request to end (deadline / cancellation); a request with
// neither fails after maxWait with a timeout error.
func (n *vhNet) hang(ctx context.Context, cancel <-chan struct{}, what string) error {
	const maxWait = 2 * time.Minute
	if err := n.sleepCtx(maxWait, ctx, cancel); err != nil {
		return err
	}
	return &net.OpError{Op: what, Net: "tcp", Err: vhTimeoutErr{}}
}

type vhTimeoutErr struct{}

func (vhTimeoutErr) Error() string   { return "i/o timeout" }
func (vhTimeoutErr) Timeout() bool   { return true }
func (vhTimeoutErr) Temporary() bool { return true }

// ---------------------------------------------------------------------------
// transport

type vhTransport struct {
	n    *vhNet
	from string
}

func (n *vhNet) plan(path string) vhPlan {
	p := vhPlan{reqLat: n.BaseLat, respLat: n.BaseLat}
	for suf, k := range n.LoseNext {
		if k > 0 && strings.HasSuffix(path, suf) {
			n.LoseNext[suf] = k - 1
			p.loseResp = true
		}
	}
	for suf, d := range n.DelayNext {
		if d > 0 && strings.HasSuffix(path, suf) {
			delete(n.DelayNext, suf)
			p.reqLat += d
			n.c.S.Fault("net.delay")
		}
	}
	if n.Quiet {
		return p
	}
	tot := n.PmDropReq + n.PmLoseResp + n.PmDelay
	if tot <= 0 {
		return p
	}
	v := 999 - n.c.S.Choose(simrt.StNet, 1000) // 0 on the tape = no fault
	switch {
	case v < n.PmDropReq:
		p.dropReq = true
	case v < n.PmDropReq+n.PmLoseResp:
		p.loseResp = true
	case v < tot:
		if len(n.LongDelays) > 0 {
			d := n.LongDelays[n.c.S.Choose(simrt.StNet, len(n.LongDelays))]
			if n.c.S.Choose(simrt.StNet, 2) == 0 {
				p.reqLat += d
			} else {
				p.respLat += d
			}
			n.c.S.Fault("net.delay")
		}
	}
	return p
}

func (t *vhTransport) fail(req *http.Request, err error) (*http.Response, error) {
	n := t.n
	n.InFlight--
	n.c.S.Logf("http %s -> %s %s failed: %v", t.from, req.URL.Host, req.URL.Path, vhErrClass(err))
	if n.OnFailed != nil {
		n.OnFailed(t.from, req, err)
	}
	return nil, err
}

func vhErrClass(err error) string {
	var ne net.Error
	switch {
	case errors.Is(err, context.DeadlineExceeded):
		return "deadline"
	case errors.Is(err, context.Canceled):
		return "canceled"
	case errors.Is(err, syscall.ECONNREFUSED):
		return "refused"
	case errors.Is(err, syscall.ECONNRESET):
		return "reset"
	case errors.As(err, &ne) && ne.Timeout():
		return "timeout"
	}
	return "error"
}

func (t *vhTransport) RoundTrip(req *http.Request) (*http.Response, error) {
	n := t.n
	S := n.c.S
	ctx := req.Context()
	cancel := req.Cancel
	host := req.URL.Host
	var body []byte
	if req.Body != nil {
		body, _ = io.ReadAll(req.Body)
		req.Body.Close()
	}
	n.InFlight++
	if n.OnRequest != nil {
		n.OnRequest(t.from, req)
	}
	S.Logf("http %s -> %s %s %s", t.from, host, req.Method, req.URL.Path)
	if err := vhCtxErr(ctx, cancel); err != nil {
		return t.fail(req, err)
	}
	p := n.plan(req.URL.Path)

	// connectivity at connect time
	h := n.hosts[host]
	if h == nil || h.Node.Dead() {
		// the machine answers, nobody listens: refused after one round trip
		if err := n.sleepCtx(2*n.BaseLat, ctx, cancel); err != nil {
			return t.fail(req, err)
		}
		return t.fail(req, &net.OpError{Op: "dial", Net: "tcp", Err: syscall.ECONNREFUSED})
	}
	if !n.linkUp(t.from, host) || p.dropReq {
		if p.dropReq && n.linkUp(t.from, host) {
			S.Fault("net.drop")
		}
		// SYN / request lost: nothing comes back until the client gives up
		return t.fail(req, n.hang(ctx, cancel, "dial"))
	}
	if err := n.sleepCtx(p.reqLat, ctx, cancel); err != nil {
		if p.reqLat > 2*n.BaseLat {
			S.Fault("http.timeout")
		}
		return t.fail(req, err)
	}
	h = n.hosts[host]
	if h == nil || h.Node.Dead() {
		return t.fail(req, &net.OpError{Op: "read", Net: "tcp", Err: syscall.ECONNRESET})
	}

	// the request reaches the server: run the real handler as a task of that node
	n.seq++
	n.gc()
	sctx, scancel := context.WithCancel(context.Background())
	cn := &vhConn{n: n, id: n.seq, from: t.from, to: host, method: req.Method, path: req.URL.Path, srvNode: h.Node,
		cliNode: S.CurrentNode(), wake: make(chan struct{}, 1), scancel: scancel, status: http.StatusOK}
	if !n.Quiet && n.PmCut > 0 {
		cn.lazySrv = S.Choose(simrt.StNet, 4) == 3
	}
	n.conns = append(n.conns, cn)
	u := *req.URL
	sreq := (&http.Request{Method: req.Method, URL: &u, Proto: "HTTP/1.1", ProtoMajor: 1, ProtoMinor: 1,
		Header: req.Header.Clone(), Body: io.NopCloser(bytes.NewReader(body)), ContentLength: int64(len(body)),
		Host: host, RemoteAddr: fmt.Sprintf("%s:%d", vhAddrOf(t.from), 30000+cn.id), RequestURI: u.RequestURI()}).WithContext(sctx)
	if sreq.Header == nil {
		sreq.Header = http.Header{}
	}
	handler := h.Handler
	w := &vhWriter{cn: cn, hdr: http.Header{}}
	S.Spawn("http-srv:"+host+u.Path, h.Node, func() {
		defer func() {
			if !w.wrote {
				w.WriteHeader(http.StatusOK)
			}
			cn.flush()
			cn.srvDone = true
			cn.scancel()
			cn.wakeReader()
		}()
		if n.OnServe != nil {
			n.OnServe(cn, sreq)
		}
		handler.ServeHTTP(w, sreq)
	})

	// wait for the response head
	for !cn.headDone && cn.broken == nil {
		if err := vhCtxErr(ctx, cancel); err != nil {
			cn.cliGone = true
			cn.tellServer()
			cn.ended = true
			S.Fault("http.timeout")
			return t.fail(req, err)
		}
		n.block(cn, ctx, cancel)
	}
	if cn.broken != nil && !cn.headDone {
		cn.ended = true
		return t.fail(req, cn.broken)
	}
	if p.loseResp || !n.linkUp(host, t.from) {
		if p.loseResp {
			S.Fault("net.ackloss")
		}
		err := n.hang(ctx, cancel, "read")
		cn.cliGone = true
		cn.tellServer()
		cn.ended = true
		return t.fail(req, err)
	}
	if err := n.sleepCtx(p.respLat, ctx, cancel); err != nil {
		cn.cliGone = true
		cn.tellServer()
		cn.ended = true
		S.Fault("http.timeout")
		return t.fail(req, err)
	}
	cn.established = true
	n.InFlight--
	resp := &http.Response{Status: fmt.Sprintf("%d %s", cn.status, http.StatusText(cn.status)), StatusCode: cn.status,
		Proto: "HTTP/1.1", ProtoMajor: 1, ProtoMinor: 1, Header: cn.hdr, ContentLength: -1, Request: req,
		Body: &vhBody{cn: cn, ctx: ctx, cancel: cancel}}
	if resp.Header == nil {
		resp.Header = http.Header{}
	}
	S.Logf("http %s <- %s %s status=%d conn=%d", t.from, host, req.URL.Path, cn.status, cn.id)
	if n.OnHead != nil {
		n.OnHead(cn)
	}
	return resp, nil
}

// vhAddrOf gives a host name a stable fake source address (no port).
func vhAddrOf(name string) string {
	if i := strings.LastIndex(name, ":"); i >= 0 {
		if _, err := url.Parse("http://" + name); err == nil {
			name = name[:i]
		}
	}
	if name == "" {
		return "client"
	}
	return name
}
