package scn

import (
	"encoding/json"
	"fmt"
	"sort"
	"strings"
	"time"

	"github.com/codelaboratoryltd/bng/pkg/nexus"
	"github.com/codelaboratoryltd/bng/pkg/pon"
	"go.uber.org/zap"

	"verif/harness/sim"
)

// pon.Manager: the production caller of nexus.VLANAllocator. ONT discovery
// events are provisioned (VLAN pair allocated, NTE and default subscriber
// records written through nexus.Client) by the manager's own worker while
// other callers report disconnects; the store behind the client fails single
// calls. Judged on what the property states: every pair that is in use - the
// pair of an NTE record the store holds as provisioned, and the pair a
// successful provisioning reported - identifies one NTE, lies inside the
// ranges, stays the NTE's pair, and is the pair the allocator returns for it.
// Nothing in this variant releases a provisioned NTE (the manager has no such
// operation besides a Nexus delete, which is not driven), so a pair once in
// use stays in use.

type c20pon struct {
	c       *sim.Ctx
	kv      *memKV
	cl      *nexus.Client
	v       *nexus.VLANAllocator
	m       *pon.Manager
	cfg     nexus.VLANAllocatorConfig
	nn      int
	sent    int
	results []pon.ProvisioningResult
	inUse   map[string]c20pair // serial -> pair of its first successful provisioning
	an      c20anoms
}

func c20serial(i int) string { return fmt.Sprintf("ONT%04d", i) }

func newC20pon(c *sim.Ctx, nent int) *c20pon {
	ns, nc := int(c.Case.Knob("ns", 1)), int(c.Case.Knob("nc", 3))
	if ns < 1 || ns > 2 {
		ns = 1
	}
	if nc < 1 || nc > 4 {
		nc = 3
	}
	echo := int(c.Case.Knob("echo", 1))
	if echo != 2 {
		echo = 1
	}
	w := &c20pon{c: c, nn: nent, inUse: map[string]c20pair{}}
	w.kv = newMemKV(c, echo, int(c.Case.Knob("qorder", 0))%3)
	w.kv.yield = true
	w.cfg = nexus.VLANAllocatorConfig{STagRange: nexus.VLANRange{Start: 300, End: uint16(300 + ns - 1)},
		CTagRange: nexus.VLANRange{Start: 40, End: uint16(40 + nc - 1)}}
	ccfg := nexus.DefaultClientConfig()
	ccfg.DeviceID = "olt-1"
	w.cl = nexus.NewClient(ccfg, kvNexusStore{w.kv}, zap.NewNop())
	if err := w.cl.Start(); err != nil {
		c.Fail("harness", "pon/client-start", "nexus client does not start: %v", err)
		return w
	}
	w.v = nexus.NewVLANAllocator(w.cfg)
	mc := pon.DefaultManagerConfig()
	mc.DeviceID = "olt-1"
	mc.DiscoveryRetries = int(c.Case.Knob("retries", 1)) % 3
	mc.DiscoveryRetryDelay = time.Second
	w.m = pon.NewManager(mc, w.cl, w.v, zap.NewNop())
	w.m.OnNTEProvisioned(func(r *pon.ProvisioningResult) { w.results = append(w.results, *r) })
	if err := w.m.Start(); err != nil {
		c.Fail("harness", "pon/manager-start", "pon manager does not start: %v", err)
	}
	return w
}

func (w *c20pon) barrier(k string) bool { return k == "storefail" }

func (w *c20pon) do(op sim.Op) {
	if w.m == nil {
		return
	}
	n := c20idx(op.Arg(1), w.nn)
	switch op.K {
	case "disc":
		if w.sent-len(w.results) >= 90 {
			return // the manager drops events beyond its queue of 100
		}
		w.sent++
		w.m.HandleDiscovery(&pon.DiscoveryEvent{SerialNumber: c20serial(n), PONPort: fmt.Sprintf("pon0/%d", n%2), Timestamp: time.Now()})
	case "disconnect":
		w.m.HandleDisconnect(c20serial(n))
	case "storefail":
		kind := []int{pfPut, pfPut, pfPut, pfGet}[c20idx(op.Arg(0), 4)]
		w.kv.arm(kind, c20idx(op.Arg(1), 6))
	}
}

// drain waits (in virtual time) until the manager's worker has reported every
// submitted discovery and the store's change notifications are delivered.
func (w *c20pon) drain() {
	for i := 0; i < 400 && len(w.results) < w.sent && !w.c.Failed(); i++ {
		w.c.S.Sleep(250 * time.Millisecond)
	}
	if len(w.results) < w.sent {
		w.c.S.Probe("pon_discovery_unreported_at_check") // judged on what was reported; no accusation
	}
	w.c.S.Sleep(time.Second)
}

func (w *c20pon) seq(op sim.Op) {
	w.do(op)
	if op.K != "storefail" {
		w.drain()
		w.check("seq")
	}
}
func (w *c20pon) par(client int, op sim.Op) { w.do(op) }
func (w *c20pon) quiesce() {
	w.drain()
	w.check("conc")
}

func (w *c20pon) inRange(p c20pair) bool {
	return p.S >= w.cfg.STagRange.Start && p.S <= w.cfg.STagRange.End && p.C >= w.cfg.CTagRange.Start && p.C <= w.cfg.CTagRange.End
}

func (w *c20pon) check(where string) {
	if w.c.Failed() || w.m == nil {
		return
	}
	w.an.begin()
	defer w.an.end()
	// what successful provisionings reported
	for _, r := range w.results {
		if !r.Success {
			continue
		}
		p := c20pair{r.STag, r.CTag}
		if !w.inRange(p) {
			if w.an.fresh("range/" + r.NTEID) {
				w.c.Fail("in-range", "pon/"+where+"/reported-pair-outside-range", "provisioning of %s reported pair %v outside the configured ranges", r.NTEID, p)
			}
			continue
		}
		if q, ok := w.inUse[r.NTEID]; ok && q != p {
			if w.an.fresh("moved/" + r.NTEID) {
				w.c.Fail("lookups-agree", "pon/"+where+"/provisioned-nte-changed-pair", "%s was provisioned with pair %v and is now reported with %v although nothing released it", r.NTEID, q, p)
			}
			continue
		}
		w.inUse[r.NTEID] = p
	}
	w.results = w.results[:0]
	w.sent = 0
	// what the store holds
	type rec struct {
		serial string
		p      c20pair
	}
	var recs []rec
	var keys []string
	for k := range w.kv.data {
		if strings.HasPrefix(k, "/nte/") {
			keys = append(keys, k)
		}
	}
	sort.Strings(keys)
	for _, k := range keys {
		var n nexus.NTE
		if json.Unmarshal(w.kv.data[k], &n) != nil || !n.Provisioned {
			continue
		}
		recs = append(recs, rec{n.SerialNumber, c20pair{n.STag, n.CTag}})
	}
	holder := map[c20pair]string{}
	var serials []string
	for s := range w.inUse {
		serials = append(serials, s)
	}
	sort.Strings(serials)
	for _, s := range serials {
		p := w.inUse[s]
		if o, ok := holder[p]; ok && o != s {
			if w.an.fresh("dup/" + p.String()) {
				w.c.Fail("unique", "pon/"+where+"/pair-reported-for-two-ntes", "pair %v was reported for %s and for %s, neither was released", p, o, s)
			}
			continue
		}
		holder[p] = s
	}
	for _, r := range recs {
		if !w.inRange(r.p) {
			if w.an.fresh("recrange/" + r.serial) {
				w.c.Fail("in-range", "pon/"+where+"/stored-pair-outside-range", "the NTE record of %s holds pair %v outside the configured ranges", r.serial, r.p)
			}
			continue
		}
		if o, ok := holder[r.p]; ok && o != r.serial {
			if w.an.fresh("recdup/" + r.p.String()) {
				w.c.Fail("unique", "pon/"+where+"/pair-identifies-two-ntes", "pair %v is the pair of provisioned NTE %s and of provisioned NTE %s (store records / provisioning reports)", r.p, o, r.serial)
			}
			continue
		}
		holder[r.p] = r.serial
		if q, ok := w.inUse[r.serial]; ok && q != r.p {
			if w.an.fresh("recmoved/" + r.serial) {
				w.c.Fail("lookups-agree", "pon/"+where+"/record-disagrees-with-report", "%s was reported provisioned with pair %v, its NTE record holds %v", r.serial, q, r.p)
			}
		}
	}
	// forward lookup: the allocator returns the pair in use for the NTE
	for _, s := range serials {
		p := w.inUse[s]
		a, ok := w.v.Get(s)
		if !ok || a == nil {
			if w.an.fresh("fwd/" + s) {
				w.c.Fail("lookups-agree", "pon/"+where+"/allocator-lost-provisioned-nte", "%s is provisioned with pair %v (never released), the VLAN allocator holds no pair for it", s, p)
			}
			continue
		}
		if q := (c20pair{a.STag, a.CTag}); q != p {
			if w.an.fresh("fwd/" + s) {
				w.c.Fail("lookups-agree", "pon/"+where+"/allocator-disagrees", "%s is provisioned with pair %v, the VLAN allocator returns %v for it", s, p, q)
			}
		}
	}
	h := uint64(14695981039346656037)
	for _, s := range serials {
		p := w.inUse[s]
		h = (h ^ uint64(len(s)) ^ uint64(s[len(s)-1])<<32 ^ uint64(p.S)<<16 ^ uint64(p.C)) * 1099511628211
	}
	w.c.State(h ^ 0x9020)
}

func (w *c20pon) finish() {
	if w.m == nil {
		return
	}
	w.kv.disarm()
	w.drain()
	w.check("end")
	_ = w.m.Stop()
	_ = w.cl.Stop()
}
