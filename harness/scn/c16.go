package scn

import (
	"context"
	"fmt"
	"net"
	"sort"
	"time"

	cebpf "github.com/cilium/ebpf"
	"github.com/codelaboratoryltd/bng/pkg/dhcp"
	"github.com/codelaboratoryltd/bng/pkg/ebpf"
	"github.com/codelaboratoryltd/bng/pkg/nat"
	"github.com/codelaboratoryltd/bng/pkg/qos"
	bngradius "github.com/codelaboratoryltd/bng/pkg/radius"
	"github.com/codelaboratoryltd/bng/pkg/simrt"
	"github.com/insomniacslk/dhcp/dhcpv4"
	"go.uber.org/zap"
	"layeh.com/radius"
	"layeh.com/radius/rfc2866"

	"verif/harness/sim"
)

// C16 — ending a session by any path releases everything it held.
//
// One variant per session type; each variant file registers itself in
// c16Variants. A run establishes sessions up to a generated prefix of the
// establishment sequence, ends them by one path (and, in half of the runs, by a
// second path or the same one again, possibly at the same time) and then audits
// every resource after quiescence.

type c16Variant struct {
	gen    func(r *sim.Rand, tier string, cs *sim.Case)
	run    func(c *sim.Ctx)
	weight int
}

var c16Variants = map[string]*c16Variant{}

func c16Gen(r *sim.Rand, tier string) *sim.Case {
	names := make([]string, 0, len(c16Variants))
	for n := range c16Variants {
		names = append(names, n)
	}
	sort.Strings(names)
	var w []int
	for _, n := range names {
		w = append(w, c16Variants[n].weight)
	}
	cs := &sim.Case{Knobs: map[string]int64{}}
	cs.Variant = names[r.Weighted(w...)]
	cs.Knobs["skipmax"] = int64(sim.Pick(r, 1, 1, 2, 8))
	cs.Knobs["maporder"] = int64(r.N(4))
	c16Variants[cs.Variant].gen(r, tier, cs)
	return cs
}

func c16Run(c *sim.Ctx) {
	v := c16Variants[c.Case.Variant]
	if v == nil {
		return
	}
	v.run(c)
}

// ---------------------------------------------------------------------------
// variant dhcp4: dhcp.Server + Pool + nat.Manager + qos.Manager + PolicyManager
// + ebpf.Loader with real kernel maps + radius.Client -> simulated RADIUS

type c16acct struct {
	starts, stops int
}

// c16NewMaps creates the fast-path maps; full names the one map (if any) that
// holds a single entry, so that the control plane's insert for every further
// subscriber is refused by the kernel (E2BIG).
func c16NewMaps(full string) (ebpf.VerifMaps, func(), error) {
	var made []*cebpf.Map
	mk := func(name string, k, v uint32) (*cebpf.Map, error) {
		n := uint32(64)
		if name == full {
			n = 1
		}
		m, err := cebpf.NewMap(&cebpf.MapSpec{Name: name, Type: cebpf.Hash, KeySize: k, ValueSize: v, MaxEntries: n})
		if err == nil {
			made = append(made, m)
		}
		return m, err
	}
	closeAll := func() {
		for _, m := range made {
			m.Close()
		}
	}
	// value sizes are what the Go control plane marshals (encoding/binary rules)
	pa := uint32(25)
	var vm ebpf.VerifMaps
	var err error
	if vm.SubscriberPools, err = mk("vf_sub", 8, pa); err != nil {
		return vm, closeAll, err
	}
	if vm.VLANSubscriberPools, err = mk("vf_vlan", 4, pa); err != nil {
		return vm, closeAll, err
	}
	if vm.IPPools, err = mk("vf_pools", 4, 28); err != nil {
		return vm, closeAll, err
	}
	if vm.CircuitID, err = mk("vf_cid", 8, 8); err != nil {
		return vm, closeAll, err
	}
	if vm.CircuitIDSubscribers, err = mk("vf_cidsub", 32, pa); err != nil {
		return vm, closeAll, err
	}
	return vm, closeAll, nil
}

func c16GenDHCP4(r *sim.Rand, tier string, cs *sim.Case) {
	cs.Knobs["clients"] = int64(r.Range(1, 3))
	cs.Knobs["lease_s"] = int64(sim.Pick(r, 30, 120))
	cs.Knobs["relaymask"] = int64(r.N(8))
	cs.Knobs["radius"] = int64(r.Weighted(1, 3))
	if cs.Knobs["radius"] == 1 && r.P(15) {
		cs.Knobs["radslow"] = 1
	}
	// failing system calls: one kernel map with a single slot (1 MAC, 2 VLAN, 3 circuit-id fast-path map, 4 QoS ingress map)
	cs.Knobs["mapfull"] = int64(r.Weighted(6, 2, 1, 1, 2))
	if cs.Knobs["mapfull"] != 0 {
		cs.Knobs["clients"] = int64(r.Range(2, 3))
	} else if r.P(15) {
		cs.Knobs["natfull"] = 1 // resource exhaustion: the CGNAT pool holds one port block
		cs.Knobs["clients"] = int64(r.Range(2, 3))
	}
	nc := int(cs.Knobs["clients"])
	for ci := 0; ci < nc; ci++ {
		// establishment prefix: 0 nothing, 1 discover, 2 discover+request
		prefix := r.Weighted(1, 2, 10)
		if prefix >= 1 {
			cs.Ops = append(cs.Ops, sim.Op{K: "discover", A: []int64{int64(ci)}})
		}
		if prefix >= 2 && r.P(12) {
			// the client's REQUEST and its RELEASE of the same address are in flight together
			// (a retransmitted REQUEST overtaken by the RELEASE): handled by two handler goroutines
			cs.Ops = append(cs.Ops, sim.Op{K: "reqrel", A: []int64{int64(ci)}})
		} else if prefix >= 2 {
			cs.Ops = append(cs.Ops, sim.Op{K: "request", A: []int64{int64(ci)}})
			if r.P(40) {
				// renewal through the relay with full option 82, without option 82
				// (unicast renewal), or with a Remote-ID but no Circuit-ID
				cs.Ops = append(cs.Ops, sim.Op{K: "renew", A: []int64{int64(ci), int64(r.N(3))}})
			}
		}
	}
	paths := []string{"release", "decline", "expire"}
	for ci := 0; ci < nc; ci++ {
		if r.P(15) {
			continue // this session stays up
		}
		p1 := sim.Pick(r, paths...)
		if r.P(50) {
			p2 := sim.Pick(r, paths...)
			if r.P(50) && p1 != "expire" && p2 != "expire" {
				cs.Ops = append(cs.Ops, sim.Op{K: "end2", A: []int64{int64(ci)}, S: []string{p1, p2}}) // both at once
			} else {
				cs.Ops = append(cs.Ops, sim.Op{K: "end", A: []int64{int64(ci)}, S: []string{p1}}, sim.Op{K: "end", A: []int64{int64(ci)}, S: []string{p2}})
			}
		} else {
			cs.Ops = append(cs.Ops, sim.Op{K: "end", A: []int64{int64(ci)}, S: []string{p1}})
		}
	}
}

type c16cl struct {
	idx     int
	mac     net.HardwareAddr
	relayed bool
	cid     []byte
	offered net.IP
	bound   net.IP
	xid     uint32
	ended   string // path that ended it ("" = still up)
	until   time.Duration
	sidSeen map[string]bool
}

func c16RunDHCP4(c *sim.Ctx) {
	cs := c.Case
	lease := time.Duration(cs.Knob("lease_s", 60)) * time.Second
	if lease <= 0 {
		lease = 30 * time.Second
	}
	full := []string{"", "vf_sub", "vf_vlan", "vf_cidsub", "vf_qi"}[c16mod(cs.Knob("mapfull", 0), 5)]
	if full != "" {
		c.S.Probe("kmap_capacity_1_" + full)
	}
	maps, closeMaps, err := c16NewMaps(full)
	defer closeMaps()
	if err != nil {
		// the sandbox cannot create kernel maps: run with a map-less loader
		c.S.Probe("kernel_maps_unavailable")
		closeMaps()
		maps = ebpf.VerifMaps{}
	}
	loader, _ := ebpf.VerifNewLoaderWithMaps("sim0", zap.NewNop(), maps)
	pool, err := dhcp.NewPool(dhcp.PoolConfig{ID: 1, Name: "p", Network: "10.7.0.0/29", Gateway: "10.7.0.1", DNSServers: []string{"9.9.9.9"},
		LeaseTime: lease, ClientClass: dhcp.ClientClassResidential, ReservedEnd: 1})
	if err != nil {
		panic(err)
	}
	usable := 4
	pm := dhcp.NewPoolManager(loader, zap.NewNop())
	pm.AddPool(pool)
	srv, err := dhcp.NewServer(dhcp.ServerConfig{Interface: "sim0", ServerIP: net.IPv4(10, 7, 0, 1)}, loader, pm, zap.NewNop())
	if err != nil {
		panic(err)
	}
	polMgr := bngradius.NewPolicyManager()
	polMgr.LoadDefaultPolicies()
	var qosEgress, qosIngress *cebpf.Map
	if maps.SubscriberPools != nil {
		qosEgress, _ = cebpf.NewMap(&cebpf.MapSpec{Name: "vf_qe", Type: cebpf.Hash, KeySize: 4, ValueSize: 32, MaxEntries: 64})
		nqi := uint32(64)
		if full == "vf_qi" {
			nqi = 1
		}
		qosIngress, _ = cebpf.NewMap(&cebpf.MapSpec{Name: "vf_qi", Type: cebpf.Hash, KeySize: 4, ValueSize: 32, MaxEntries: nqi})
		if qosEgress != nil {
			defer qosEgress.Close()
		}
		if qosIngress != nil {
			defer qosIngress.Close()
		}
	}
	qosMgr, err := qos.VerifNewManagerWithMaps(qos.ManagerConfig{Interface: "sim0"}, polMgr, zap.NewNop(), qosEgress, qosIngress, nil)
	if err != nil {
		panic(err)
	}
	radSlow := cs.Knob("radslow", 0) == 1
	pps := 1024
	natFull := cs.Knob("natfull", 0) == 1
	if natFull {
		pps = 40000 // one port block per public address: the second session finds the CGNAT pool exhausted
		c.S.Probe("nat_pool_single_block")
	}
	natMgr, err := nat.NewManager(nat.ManagerConfig{Interface: "sim0", PortsPerSubscriber: pps, PortRangeStart: 1024, PortRangeEnd: 65535}, zap.NewNop())
	if err != nil {
		panic(err)
	}
	natMgr.AddPublicIP(net.IPv4(203, 0, 113, 1))
	srv.SetPolicyManager(polMgr)
	srv.SetQoSManager(qosMgr)
	srv.SetNATManager(natMgr)
	acct := map[string]*c16acct{}
	withRadius := cs.Knob("radius", 1) == 1
	if withRadius {
		// a legal, very low RADIUS request rate: requests queue for seconds behind one another
		var rl bngradius.RateLimitConfig
		if radSlow {
			rl = bngradius.RateLimitConfig{RequestsPerSecond: 0.25, BurstSize: 1}
			c.S.Probe("radius_rate_limit_0.25_per_s")
		}
		cl, err := bngradius.NewClient(bngradius.ClientConfig{Servers: []bngradius.ServerConfig{{Host: "radius.sim", Port: 1812, Secret: "s3cret"}},
			NASID: "bng", Timeout: 3 * time.Second, Retries: 3, RateLimit: rl}, zap.NewNop())
		if err != nil {
			panic(err)
		}
		srv.SetRADIUSClient(cl)
		rn := &sim.RadiusNet{S: c.S, Secret: []byte("s3cret"), Latency: 5 * time.Millisecond}
		rn.Serve = func(p *radius.Packet, addr string, raw []byte) *radius.Packet {
			if p.Code != radius.CodeAccountingRequest {
				return p.Response(radius.CodeAccessAccept)
			}
			sid := rfc2866.AcctSessionID_GetString(p)
			a := acct[sid]
			if a == nil {
				a = &c16acct{}
				acct[sid] = a
			}
			switch int(rfc2866.AcctStatusType_Get(p)) {
			case 1:
				a.starts++
			case 2:
				a.stops++
			}
			c.S.Logf("acct type=%d sid=%s", rfc2866.AcctStatusType_Get(p), sid)
			return p.Response(radius.CodeAccountingResponse)
		}
		c.S.Radius = rn.Exchange
	}
	nc := int(cs.Knob("clients", 1))
	if nc < 1 {
		nc = 1
	}
	refused := false
	var cls []*c16cl
	byMAC := map[string]*c16cl{}
	for i := 0; i < nc; i++ {
		cl := &c16cl{idx: i, mac: net.HardwareAddr{0x02, 0xaa, 0, 0, 0, byte(i + 1)}, sidSeen: map[string]bool{}}
		if cs.Knob("relaymask", 0)&(1<<uint(i)) != 0 {
			cl.relayed, cl.cid = true, []byte(fmt.Sprintf("olt1/port%d", i))
		}
		cls = append(cls, cl)
		byMAC[cl.mac.String()] = cl
	}
	conn := &fakeConn{onWrite: func(b []byte, to net.Addr) {
		m, err := dhcpv4.FromBytes(b)
		if err != nil {
			return
		}
		cl := byMAC[m.ClientHWAddr.String()]
		if cl == nil {
			return
		}
		c.OpsDone++
		switch m.MessageType() {
		case dhcpv4.MessageTypeOffer:
			cl.offered = m.YourIPAddr.To4()
		case dhcpv4.MessageTypeAck:
			if ip := m.YourIPAddr.To4(); ip != nil && !ip.IsUnspecified() {
				cl.bound = ip
				cl.until = c.S.Now() + m.IPAddressLeaseTime(0)
				if full != "" && !refused {
					nb := 0
					for _, x := range cls {
						if x.bound != nil && x.ended == "" {
							nb++
						}
					}
					if nb > 1 { // more acknowledged sessions than the single-slot map holds
						refused = true
						c.S.Fault("kmap.insert-refused-map-full")
					}
				}
			}
		case dhcpv4.MessageTypeNak:
			cl.offered = nil
		}
		c.S.Logf("reply %s to c%d %v", m.MessageType(), cl.idx, m.YourIPAddr)
	}}
	ctx, cancel := context.WithCancel(context.Background())
	defer cancel()
	c.S.Spawn("lease-cleanup", nil, func() { srv.VerifRunLeaseCleanup(ctx) })
	peer := &net.UDPAddr{IP: net.IPv4bcast, Port: 68}
	build := func(cl *c16cl, mt dhcpv4.MessageType, mods ...dhcpv4.Modifier) *dhcpv4.DHCPv4 {
		cl.xid++
		m, err := dhcpv4.New(append([]dhcpv4.Modifier{dhcpv4.WithHwAddr(cl.mac), dhcpv4.WithMessageType(mt),
			dhcpv4.WithTransactionID(dhcpv4.TransactionID{byte(cl.idx), 1, byte(cl.xid >> 8), byte(cl.xid)})}, mods...)...)
		if err != nil {
			panic(err)
		}
		if cl.relayed {
			m.GatewayIPAddr = net.IPv4(10, 7, 0, 1).To4()
			m.UpdateOption(dhcpv4.OptRelayAgentInfo(dhcpv4.OptGeneric(dhcpv4.GenericOptionCode(1), cl.cid)))
		}
		return m
	}
	send := func(m *dhcpv4.DHCPv4) *simrt.Task {
		return c.S.Spawn("handler", nil, func() { srv.VerifHandle(conn, peer, m) })
	}
	endMsg := func(cl *c16cl, path string) *dhcpv4.DHCPv4 {
		switch path {
		case "release":
			if cl.bound == nil {
				return nil
			}
			m := build(cl, dhcpv4.MessageTypeRelease)
			m.ClientIPAddr = cl.bound
			return m
		case "decline":
			if cl.bound == nil {
				return nil
			}
			return build(cl, dhcpv4.MessageTypeDecline, dhcpv4.WithOption(dhcpv4.OptRequestedIPAddress(cl.bound)))
		}
		return nil
	}
	declined := map[string]bool{}
	// a lease that runs out while the run sleeps ends by the expiry path
	sleep := func(d time.Duration) {
		c.S.Sleep(d)
		for _, cl := range cls {
			if cl.bound != nil && cl.ended == "" && c.S.Now() >= cl.until {
				cl.ended = "expire"
			}
		}
	}
	noteSessions := func() {
		if ls, ok := srv.VerifLeases(); ok {
			for _, l := range ls {
				if cl := byMAC[l.MAC]; cl != nil && l.SessionID != "" {
					cl.sidSeen[l.SessionID] = true
				}
			}
		}
	}
	for i, op := range cs.Ops {
		c.OpIdx = i
		ci := int(op.Arg(0))
		if ci < 0 || ci >= len(cls) {
			continue
		}
		cl := cls[ci]
		switch op.K {
		case "discover":
			c.S.Join(send(build(cl, dhcpv4.MessageTypeDiscover)))
		case "request":
			if cl.offered == nil {
				continue
			}
			c.S.Join(send(build(cl, dhcpv4.MessageTypeRequest, dhcpv4.WithOption(dhcpv4.OptRequestedIPAddress(cl.offered)),
				dhcpv4.WithOption(dhcpv4.OptServerIdentifier(net.IPv4(10, 7, 0, 1))))))
			noteSessions()
		case "reqrel":
			if cl.offered == nil || cl.bound != nil {
				continue
			}
			ip := cl.offered
			rel := build(cl, dhcpv4.MessageTypeRelease)
			rel.ClientIPAddr = ip
			c.S.Fault("client.request-and-release-overlap")
			c.S.Join(send(build(cl, dhcpv4.MessageTypeRequest, dhcpv4.WithOption(dhcpv4.OptRequestedIPAddress(ip)),
				dhcpv4.WithOption(dhcpv4.OptServerIdentifier(net.IPv4(10, 7, 0, 1))))), send(rel))
			noteSessions()
			if cl.bound != nil {
				// acknowledged; whether the RELEASE ended it afterwards is read off the lease table
				has := false
				if ls, ok := srv.VerifLeases(); ok {
					for _, l := range ls {
						if l.MAC == cl.mac.String() {
							has = true
						}
					}
				}
				if !has {
					cl.ended = "release"
				}
			}
		case "renew":
			if cl.bound == nil {
				continue
			}
			sleep(lease / 2)
			if cl.ended != "" {
				continue
			}
			m := build(cl, dhcpv4.MessageTypeRequest)
			m.ClientIPAddr = cl.bound
			if cl.relayed {
				switch op.Arg(1) {
				case 1:
					m.Options.Del(dhcpv4.OptionRelayAgentInformation)
				case 2:
					m.UpdateOption(dhcpv4.OptRelayAgentInfo(dhcpv4.OptGeneric(dhcpv4.GenericOptionCode(2), []byte("relay-7"))))
				}
			}
			c.S.Join(send(m))
			noteSessions()
		case "end":
			path := op.Str(0)
			if path == "expire" {
				sleep(lease + 125*time.Second)
				continue
			}
			m := endMsg(cl, path)
			if m == nil {
				continue
			}
			if cl.ended == "" {
				cl.ended = path
			}
			if path == "decline" {
				declined[cl.bound.String()] = true
			}
			c.S.Join(send(m))
		case "end2":
			m1, m2 := endMsg(cl, op.Str(0)), endMsg(cl, op.Str(1))
			if m1 == nil || m2 == nil {
				continue
			}
			if cl.ended == "" {
				cl.ended = op.Str(0) + "+" + op.Str(1)
			}
			if op.Str(0) == "decline" || op.Str(1) == "decline" {
				declined[cl.bound.String()] = true
			}
			c.S.Fault("terminate.concurrent")
			c.S.Join(send(m1), send(m2))
		}
	}
	// quiescence: let asynchronous accounting finish
	if radSlow {
		sleep(100 * time.Second) // queued accounting requests drain at one per 4 s
	}
	c.S.Sleep(20 * time.Second)
	// a lease whose time ran out less than two cleanup periods ago may
	// legitimately still be held by the server: it is not audited as ended
	indet := 0
	for _, cl := range cls {
		if cl.ended == "expire" && c.S.Now() < cl.until+125*time.Second {
			cl.ended = "pending-expiry"
			indet++
		}
	}
	// ---- audit -----------------------------------------------------------------
	live := 0
	for _, cl := range cls {
		if cl.bound == nil {
			continue
		}
		if cl.ended == "" {
			live++
			continue
		}
		if cl.ended == "pending-expiry" {
			continue
		}
		path := cl.ended
		ip := cl.bound
		if a := natMgr.GetAllocation(ip); a != nil {
			c.Fail("nat-not-released", "dhcp4/nat/"+path, "session of client %d (%v) ended by %s but its NAT block %v:%d-%d is still allocated", cl.idx, ip, path, a.PublicIP, a.PortStart, a.PortEnd)
		}
		if maps.SubscriberPools != nil {
			if _, err := loader.GetSubscriber(ebpf.MACToUint64(cl.mac)); err == nil {
				c.Fail("fastpath-not-removed", "dhcp4/fastpath-mac/"+path, "session of client %d ended by %s but the fast-path cache still has an entry for its MAC", cl.idx, path)
			}
			if cl.relayed {
				if _, err := loader.GetCircuitIDMapping(cl.cid); err == nil {
					c.Fail("fastpath-not-removed", "dhcp4/fastpath-circuit-id-hash/"+path, "session of client %d ended by %s but the circuit-id map still resolves %q", cl.idx, path, cl.cid)
				}
				if _, err := loader.GetCircuitIDSubscriber(cl.cid); err == nil {
					c.Fail("fastpath-not-removed", "dhcp4/fastpath-circuit-id-key/"+path, "session of client %d ended by %s but the circuit-id subscriber map still answers for %q", cl.idx, path, cl.cid)
				}
			}
		}
		if qosEgress != nil {
			key := qos.VerifIPKey(ip)
			var tb qos.TokenBucket
			if err := qosEgress.Lookup(&key, &tb); err == nil {
				c.Fail("qos-not-removed", "dhcp4/qos-map/"+path, "session of client %d (%v) ended by %s but its QoS token bucket is still in the egress map", cl.idx, ip, path)
			}
		}
		if withRadius {
			for sid := range cl.sidSeen {
				a := acct[sid]
				if a == nil || a.starts == 0 {
					if a != nil && a.stops > 0 {
						c.Fail("acct", "dhcp4/acct-stop-without-start/"+path, "session %s: %d Accounting-Stop but no Start", sid, a.stops)
					}
					continue
				}
				if a.stops != 1 {
					c.Fail("acct", fmt.Sprintf("dhcp4/acct-stops=%d/%s", min(a.stops, 2), path), "session %s of client %d ended by %s: %d Accounting-Start, %d Accounting-Stop (want exactly one Stop)", sid, cl.idx, path, a.starts, a.stops)
				}
			}
		}
	}
	// (with the QoS ingress map full, a live session may legitimately have no policy installed)
	if n := qosMgr.GetSubscriberCount(); ((n < live && full != "vf_qi") || n > live+indet) && !c.Failed() {
		c.Fail("qos-not-removed", "dhcp4/qos-count", "%d sessions are still up (%d more may be awaiting cleanup) but the QoS manager lists %d subscribers", live, indet, n)
	}
	// (with a single-block CGNAT pool a live session may legitimately have no NAT allocation)
	if n := natMgr.GetAllocationCount(); ((n < live && !natFull) || n > live+indet) && !c.Failed() {
		c.Fail("nat-not-released", "dhcp4/nat-count", "%d sessions are still up (%d more may be awaiting cleanup) but the NAT manager holds %d allocations", live, indet, n)
	}
	// address back in the pool: fresh clients can obtain every address not held by
	// a live session, not declined, and not on an offer that was never taken up
	offeredOnly := 0
	for _, cl := range cls {
		if cl.bound == nil && cl.offered != nil {
			offeredOnly++
		}
	}
	want := usable - live - indet - len(declined) - offeredOnly
	got := map[string]int{}
	for i := 0; i < usable+1; i++ {
		cl := &c16cl{idx: 50 + i, mac: net.HardwareAddr{0x02, 0xbb, 0, 0, 2, byte(i + 1)}, sidSeen: map[string]bool{}}
		byMAC[cl.mac.String()] = cl
		c.S.Join(send(build(cl, dhcpv4.MessageTypeDiscover)))
		if cl.offered == nil {
			continue
		}
		c.S.Join(send(build(cl, dhcpv4.MessageTypeRequest, dhcpv4.WithOption(dhcpv4.OptRequestedIPAddress(cl.offered)),
			dhcpv4.WithOption(dhcpv4.OptServerIdentifier(net.IPv4(10, 7, 0, 1))))))
		if cl.bound != nil {
			got[cl.bound.String()]++
		}
	}
	for ip, n := range got {
		if n > 1 {
			c.Fail("double-free", "dhcp4/address-handed-out-twice", "after the terminations address %s was acknowledged to %d fresh clients", ip, n)
		}
	}
	if len(got) < want && !c.Failed() {
		pset := map[string]bool{}
		for _, cl := range cls {
			if cl.bound != nil && cl.ended != "" {
				pset[cl.ended] = true
			}
		}
		var ps []string
		for p := range pset {
			ps = append(ps, p)
		}
		sort.Strings(ps)
		paths := fmt.Sprint(ps)
		c.Fail("address-not-released", "dhcp4/address/"+paths, "fresh clients obtained %d addresses, %d should be free (usable %d, live %d, declined %d, offered-only %d; ended by: %s)",
			len(got), want, usable, live, len(declined), offeredOnly, paths)
	}
	c.State(uint64(live)<<8 | uint64(len(got)))
}

func init() {
	c16Variants["dhcp4"] = &c16Variant{gen: c16GenDHCP4, run: c16RunDHCP4, weight: 10}
	sim.Register(&sim.Scenario{
		ID:  "C16",
		Gen: c16Gen,
		Run: c16Run,
		Real: []string{"dhcp.Server (REQUEST/RELEASE/DECLINE handlers, lease cleanup loop) + dhcp.Pool + nat.Manager + qos.Manager + radius.PolicyManager + ebpf.Loader over real kernel maps + radius.Client.SendAccounting",
			"pppoe.Server PADT / LCP-terminate / authentication-failure / idle-cleanup paths + IPPool", "pppoe.SessionTeardown + KeepAliveManager wired through their setters", "subscriber.Manager.TerminateSession and its timeout loop"},
		Stub:         []string{"RADIUS server and transport", "packet connection / raw socket", "XDP program (only the maps exist)", "AddressAllocator behind subscriber.Manager (recording model)"},
		Rule:         "cases: establish 1-3 sessions up to a generated prefix of the establishment sequence, end each by one termination path and in half of the runs by a second one (sequentially or at the same time); dhcp4 variant: in 6 of 12 runs one kernel map (MAC/VLAN/circuit-id fast-path map or the QoS ingress map) has a single slot so that the control plane's insert for every further session is refused (E2BIG); pppoe-teardown variant: in one run in seven the accounting server is silent for Stop requests, in half of those with RADIUS timeouts above the teardown's cleanup timeout; non-trivial = >=3 handled messages and (a fault fired or >2 context switches); distinct = distinct (case hash, schedule fingerprint)",
		QuickRuns:    12000,
		ThoroughRuns: 600000,
		Assumptions: []string{"kernel maps are created by the harness with the value sizes the Go control plane marshals; the XDP/TC programs are not loaded", "the RADIUS server answers every accounting request",
			"a declined address, and an address on an offer that was never taken up, are not required to be back in the pool"},
	})
}

func c16mod(v int64, n int) int {
	m := int(v % int64(n))
	if m < 0 {
		m += n
	}
	return m
}
