package scn

import (
	"bytes"
	"context"
	"encoding/binary"
	"fmt"
	"net"
	"time"

	cebpf "github.com/cilium/ebpf"
	"github.com/codelaboratoryltd/bng/pkg/dhcp"
	"github.com/codelaboratoryltd/bng/pkg/ebpf"
	"github.com/insomniacslk/dhcp/dhcpv4"
	"go.uber.org/zap"

	"verif/harness/native"
	"verif/harness/sim"
)

// C03 — the kernel DHCP fast path answers exactly as the userspace server
// would.
//
// Two tiers sharing state: bpf/dhcp_fastpath.c compiled natively is the
// "kernel node" in front of the real dhcp.Server; the cache the kernel node
// answers from lives in real kernel maps that the real ebpf.Loader,
// PoolManager and Server populate. Two clock domains (kernel uptime vs wall
// clock), cache states produced by message histories through the slow path.

type c03client struct {
	idx     int
	mac     net.HardwareAddr
	relayed bool
	cid     []byte
	vlans   int // 0 untagged, 1 802.1Q, 2 QinQ
	xid     uint32
	offered net.IP
	bound   net.IP
	gone    bool // released / declined / expired-and-cleaned in userspace
}

type c03world struct {
	c        *sim.Ctx
	srv      *dhcp.Server
	loader   *ebpf.Loader
	pool     *dhcp.Pool
	serverIP net.IP
	srvMAC   net.HardwareAddr
	boot     time.Duration // kernel uptime at virtual time zero
	lastSlow *dhcpv4.DHCPv4
	byMAC    map[string]*c03client
	tx, pass int
}

func c03Gen(r *sim.Rand, tier string) *sim.Case {
	cs := &sim.Case{Knobs: map[string]int64{}}
	cs.Knobs["clients"] = int64(r.Range(1, 3))
	cs.Knobs["lease_s"] = int64(sim.Pick(r, 1, 30, 600, 86400, 604800))
	cs.Knobs["prefix"] = int64(sim.Pick(r, 20, 22, 24, 24, 28, 29, 30))
	cs.Knobs["dns"] = int64(r.N(3))
	cs.Knobs["serverid"] = int64(r.Weighted(4, 1))
	cs.Knobs["relaymask"] = int64(r.N(8))
	cs.Knobs["vlanmask"] = int64(r.N(27))
	cs.Knobs["uptime_s"] = int64(sim.Pick(r, 0, 1, 3600, 86400*30, 86400*365*3))
	cs.Knobs["skipmax"] = int64(sim.Pick(r, 1, 4))
	// failing system calls: one of the cache maps holds a single entry, so the control plane's
	// insert for every further subscriber fails (E2BIG): 1 MAC map, 2 VLAN map, 3 circuit-id map,
	// 4 the legacy circuit-id hash map (written next to the circuit-id map for every relayed lease)
	// 5: transient - the MAC map's spare slot is taken by another subscriber (a blocker entry the
	// harness puts there) until an "unblock" op removes it: inserts are refused only for a while
	cs.Knobs["mapcap"] = int64(r.Weighted(5, 2, 1, 1, 1, 2))
	if cs.Knobs["mapcap"] != 0 {
		// the fault needs a second subscriber whose insert is refused; relayed ones also have circuit-id entries
		cs.Knobs["clients"] = int64(r.Range(2, 3))
		if r.P(60) || cs.Knobs["mapcap"] == 4 {
			cs.Knobs["relaymask"] = int64(r.Range(1, 7))
		}
	}
	n := r.Range(4, 14)
	if tier == "thorough" {
		n = r.Range(4, 30)
	}
	nc := int(cs.Knobs["clients"])
	if cs.Knobs["mapcap"] != 0 && r.P(40) {
		// motif for the failing inserts: two clients are acknowledged one after the other (the
		// second one's insert into the single-slot map is refused), each then ends its lease
		// (release, decline or expiry) and asks again
		shape := func() []int64 {
			return []int64{int64(r.Weighted(3, 5, 3)), int64(r.Weighted(9, 1)), int64(r.N(2)), int64(r.Weighted(6, 2, 2))}
		}
		if cs.Knobs["mapcap"] >= 3 {
			cs.Knobs["relaymask"] |= 3
		}
		for _, c := range []int64{0, 1} {
			cs.Ops = append(cs.Ops, sim.Op{K: "discover", A: append([]int64{c}, shape()...)}, sim.Op{K: "request", A: append([]int64{c}, shape()...)})
		}
		order := []int64{1, 0}
		if r.P(30) {
			order = []int64{0, 1}
		}
		paced := r.P(50)
		pace := func() {
			// sub-second pacing: retries and timers of about a second then fall between the steps
			if paced && r.P(60) {
				cs.Ops = append(cs.Ops, sim.Op{K: "sleep", A: []int64{5}})
			}
		}
		unblockAt := -1
		if cs.Knobs["mapcap"] == 5 {
			unblockAt = r.N(4)
		}
		step := 0
		for _, c := range order {
			if step == unblockAt {
				cs.Ops = append(cs.Ops, sim.Op{K: "unblock"})
			}
			step++
			pace()
			switch r.Weighted(5, 3, 2) {
			case 0:
				cs.Ops = append(cs.Ops, sim.Op{K: "release", A: append([]int64{c}, shape()...)})
			case 1:
				cs.Ops = append(cs.Ops, sim.Op{K: "decline", A: append([]int64{c}, shape()...)})
			default:
				cs.Ops = append(cs.Ops, sim.Op{K: "sleep", A: []int64{4}})
			}
			pace()
			cs.Ops = append(cs.Ops, sim.Op{K: "discover", A: append([]int64{c}, shape()...)})
			if r.P(60) {
				cs.Ops = append(cs.Ops, sim.Op{K: "request", A: append([]int64{c}, shape()...)})
			}
			if step == unblockAt {
				cs.Ops = append(cs.Ops, sim.Op{K: "unblock"})
			}
			step++
			pace()
			if paced && r.P(50) {
				cs.Ops = append(cs.Ops, sim.Op{K: []string{"discover", "request"}[r.N(2)], A: append([]int64{c}, shape()...)})
			}
		}
		if unblockAt >= step {
			cs.Ops = append(cs.Ops, sim.Op{K: "unblock"})
		}
		n = r.Range(0, 6)
	}
	for i := 0; i < n; i++ {
		c := int64(r.N(nc))
		// frame shape: options padding class, IP header length, broadcast flag, option layout
		shape := []int64{int64(r.Weighted(3, 5, 3)), int64(r.Weighted(9, 1)), int64(r.N(2)), int64(r.Weighted(6, 2, 2))}
		switch r.Weighted(8, 12, 3, 2, 6) {
		case 0:
			cs.Ops = append(cs.Ops, sim.Op{K: "discover", A: append([]int64{c}, shape...)})
		case 1:
			cs.Ops = append(cs.Ops, sim.Op{K: "request", A: append([]int64{c}, shape...)})
		case 2:
			cs.Ops = append(cs.Ops, sim.Op{K: "release", A: append([]int64{c}, shape...)})
		case 3:
			cs.Ops = append(cs.Ops, sim.Op{K: "decline", A: append([]int64{c}, shape...)})
		case 4:
			cs.Ops = append(cs.Ops, sim.Op{K: "sleep", A: []int64{int64(r.Weighted(2, 2, 2, 2, 2, 1))}})
		}
		if cs.Knobs["mapcap"] == 5 && r.P(10) {
			cs.Ops = append(cs.Ops, sim.Op{K: "unblock"})
		}
	}
	return cs
}

func ipChecksumOK(h []byte) bool {
	var sum uint32
	for i := 0; i+1 < len(h); i += 2 {
		sum += uint32(binary.BigEndian.Uint16(h[i:]))
	}
	for sum>>16 != 0 {
		sum = sum&0xffff + sum>>16
	}
	return uint16(sum) == 0xffff
}

func ipChecksum(h []byte) uint16 {
	var sum uint32
	for i := 0; i+1 < len(h); i += 2 {
		sum += uint32(binary.BigEndian.Uint16(h[i:]))
	}
	for sum>>16 != 0 {
		sum = sum&0xffff + sum>>16
	}
	return ^uint16(sum)
}

// frameFor wraps a DHCP message into Ethernet[/VLAN[/VLAN]]/IPv4/UDP.
func c03Frame(cl *c03client, srvMAC net.HardwareAddr, m *dhcpv4.DHCPv4, shape []int64, l3off *int) []byte {
	payload := m.ToBytes()
	// options padding class: 0 = exactly as serialised, 1 = padded to the BOOTP minimum (300), 2 = padded to 400
	switch shape[0] {
	case 1:
		for len(payload) < 300 {
			payload = append(payload, 0)
		}
	case 2:
		for len(payload) < 400 {
			payload = append(payload, 0)
		}
	}
	ihl := 5
	if shape[1] == 1 {
		ihl = 6 // one word of IP options (NOPs + end)
	}
	var eth []byte
	dst := net.HardwareAddr{0xff, 0xff, 0xff, 0xff, 0xff, 0xff}
	src := cl.mac
	if cl.relayed {
		dst, src = srvMAC, net.HardwareAddr{0x02, 0x77, 0, 0, 0, 0x01} // the relay agent's MAC
	}
	eth = append(eth, dst...)
	eth = append(eth, src...)
	switch cl.vlans {
	case 1:
		eth = append(eth, 0x81, 0x00, 0x00, byte(100+cl.idx))
	case 2:
		eth = append(eth, 0x88, 0xa8, 0x00, byte(10+cl.idx), 0x81, 0x00, 0x00, byte(100+cl.idx))
	}
	eth = append(eth, 0x08, 0x00)
	*l3off = len(eth)
	ip := make([]byte, ihl*4)
	ip[0] = byte(0x40 | ihl)
	binary.BigEndian.PutUint16(ip[2:], uint16(ihl*4+8+len(payload)))
	ip[8], ip[9] = 64, 17
	if cl.relayed {
		copy(ip[12:16], []byte{10, 250, 0, 1})
		copy(ip[16:20], []byte{10, 250, 0, 254})
	} else {
		copy(ip[16:20], []byte{255, 255, 255, 255})
	}
	if ihl == 6 {
		ip[20], ip[21], ip[22], ip[23] = 1, 1, 1, 0
	}
	binary.BigEndian.PutUint16(ip[10:], ipChecksum(ip))
	udp := make([]byte, 8)
	sport := uint16(68)
	if cl.relayed {
		sport = 67
	}
	binary.BigEndian.PutUint16(udp[0:], sport)
	binary.BigEndian.PutUint16(udp[2:], 67)
	binary.BigEndian.PutUint16(udp[4:], uint16(8+len(payload)))
	f := append(eth, ip...)
	f = append(f, udp...)
	return append(f, payload...)
}

func c03Run(c *sim.Ctx) {
	cs := c.Case
	lease := time.Duration(cs.Knob("lease_s", 600)) * time.Second
	if lease <= 0 {
		lease = time.Second
	}
	sz := native.XDPSizeof()
	var maps [7]*cebpf.Map
	specs := []struct {
		t    cebpf.MapType
		k, v int
	}{{cebpf.Hash, 8, sz.PoolAssignment}, {cebpf.Hash, sz.VLANKey, sz.PoolAssignment}, {cebpf.Hash, 4, sz.IPPool}, {cebpf.Array, 4, sz.ServerConfig},
		{cebpf.Array, 4, sz.Stats}, {cebpf.Hash, 8, 8}, {cebpf.Hash, sz.CircuitIDKey, sz.PoolAssignment}}
	var fds [7]int
	capped := -1
	for i, sp := range specs {
		n := uint32(64)
		if sp.t == cebpf.Array {
			n = 1
		}
		if mc := cs.Knob("mapcap", 0); (mc == 1 && i == 0) || (mc == 2 && i == 1) || (mc == 3 && i == 6) || (mc == 4 && i == 5) || (mc == 5 && i == 0) {
			n = 1
			if mc == 5 {
				n = 2
			}
			capped = i
			c.S.Probe("kmap_capacity_1_configured")
		}
		m, err := cebpf.NewMap(&cebpf.MapSpec{Name: fmt.Sprintf("vf_x%d", i), Type: sp.t, KeySize: uint32(sp.k), ValueSize: uint32(sp.v), MaxEntries: n})
		if err != nil {
			c.S.Probe("kernel_maps_unavailable")
			for _, mm := range maps {
				if mm != nil {
					mm.Close()
				}
			}
			return
		}
		maps[i] = m
		fds[i] = m.FD()
		defer m.Close()
	}
	blockerKey := ebpf.MACToUint64(net.HardwareAddr{0x02, 0xff, 0xff, 0xff, 0xff, 0xfe})
	blocked := false
	if cs.Knob("mapcap", 0) == 5 {
		if err := maps[0].Put(&blockerKey, make([]byte, sz.PoolAssignment)); err == nil {
			blocked = true
		}
	}
	native.ResetMaps()
	if err := native.XDPMaps(fds); err != nil {
		panic(err)
	}
	// maps are created with the key/value sizes the C side declares; the Go
	// control plane writes them through the real Loader
	loader, err := ebpf.VerifNewLoaderWithMaps("sim0", zap.NewNop(), ebpf.VerifMaps{SubscriberPools: maps[0], VLANSubscriberPools: maps[1], IPPools: maps[2],
		ServerConfig: maps[3], Stats: maps[4], CircuitID: maps[5], CircuitIDSubscribers: maps[6]})
	if err != nil {
		panic(err)
	}
	w := &c03world{c: c, loader: loader, byMAC: map[string]*c03client{}, serverIP: net.IPv4(10, 7, 0, 1).To4(),
		srvMAC: net.HardwareAddr{0x02, 0xbb, 0, 0, 0, 1}, boot: time.Duration(cs.Knob("uptime_s", 0)) * time.Second}
	prefix := int(cs.Knob("prefix", 24))
	var dns []string
	switch cs.Knob("dns", 1) {
	case 1:
		dns = []string{"9.9.9.9"}
	case 2:
		dns = []string{"9.9.9.9", "149.112.112.112"}
	}
	pool, err := dhcp.NewPool(dhcp.PoolConfig{ID: 7, Name: "p", Network: fmt.Sprintf("10.7.0.0/%d", prefix), Gateway: "10.7.0.1", DNSServers: dns,
		LeaseTime: lease, ClientClass: dhcp.ClientClassResidential, ReservedEnd: 0})
	if err != nil {
		panic(err)
	}
	w.pool = pool
	pm := dhcp.NewPoolManager(loader, zap.NewNop())
	pm.AddPool(pool)
	srv, err := dhcp.NewServer(dhcp.ServerConfig{Interface: "sim0", ServerIP: w.serverIP}, loader, pm, zap.NewNop())
	if err != nil {
		panic(err)
	}
	w.srv = srv
	// what Server.Start does for the fast path (Start itself needs a socket)
	cfgIP := w.serverIP
	if cs.Knob("serverid", 0) == 1 {
		cfgIP = net.IPv4zero.To4() // server id unset: the fast path falls back to the pool gateway
	}
	if err := loader.SetServerConfig(w.srvMAC, cfgIP, 2); err != nil {
		c.Fail("setup", "setup/server-config", "SetServerConfig: %v", err)
		return
	}
	conn := &fakeConn{onWrite: func(b []byte, to net.Addr) {
		if m, err := dhcpv4.FromBytes(b); err == nil {
			w.lastSlow = m
		}
	}}
	ctx, cancel := context.WithCancel(context.Background())
	defer cancel()
	c.S.Spawn("lease-cleanup", nil, func() { srv.VerifRunLeaseCleanup(ctx) })
	nc := int(cs.Knob("clients", 1))
	var cls []*c03client
	for i := 0; i < nc; i++ {
		cl := &c03client{idx: i, mac: net.HardwareAddr{0x02, 0xaa, 0, 0, 0, byte(i + 1)}}
		if cs.Knob("relaymask", 0)&(1<<uint(i)) != 0 {
			cl.relayed = true
			cl.cid = []byte(fmt.Sprintf("olt7/port%d", i))
		}
		v := cs.Knob("vlanmask", 0)
		for k := 0; k < i; k++ {
			v /= 3
		}
		cl.vlans = int(v % 3)
		cls = append(cls, cl)
		w.byMAC[cl.mac.String()] = cl
	}
	peer := &net.UDPAddr{IP: net.IPv4bcast, Port: 68}
	slow := func(m *dhcpv4.DHCPv4) *dhcpv4.DHCPv4 {
		w.lastSlow = nil
		t := c.S.Spawn("handler", nil, func() { srv.VerifHandle(conn, peer, m) })
		c.S.Join(t)
		return w.lastSlow
	}
	build := func(cl *c03client, mt dhcpv4.MessageType, shape []int64, mods ...dhcpv4.Modifier) *dhcpv4.DHCPv4 {
		cl.xid++
		m, err := dhcpv4.New(append([]dhcpv4.Modifier{dhcpv4.WithHwAddr(cl.mac), dhcpv4.WithMessageType(mt),
			dhcpv4.WithTransactionID(dhcpv4.TransactionID{0xc3, byte(cl.idx), byte(cl.xid >> 8), byte(cl.xid)})}, mods...)...)
		if err != nil {
			panic(err)
		}
		if shape[2] == 1 {
			m.SetBroadcast()
		}
		if cl.relayed {
			m.GatewayIPAddr = net.IPv4(10, 250, 0, 1).To4()
			m.UpdateOption(dhcpv4.OptRelayAgentInfo(dhcpv4.OptGeneric(dhcpv4.GenericOptionCode(1), cl.cid)))
		}
		switch shape[3] {
		case 1:
			m.UpdateOption(dhcpv4.OptHostName("cpe"))
		case 2:
			m.UpdateOption(dhcpv4.OptParameterRequestList(dhcpv4.OptionSubnetMask, dhcpv4.OptionRouter, dhcpv4.OptionDomainNameServer))
		}
		return m
	}
	setKtime := func() { native.SetKtime(uint64(w.boot + c.S.Now())) }

	// kernel runs the fast path on a frame; returns the reply message if it transmitted
	kernel := func(cl *c03client, req *dhcpv4.DHCPv4, shape []int64) (answered bool, reply *dhcpv4.DHCPv4) {
		var l3 int
		fr := c03Frame(cl, w.srvMAC, req, shape, &l3)
		setKtime()
		verdict, out, err := native.RunXDP(fr)
		if err != nil {
			panic(err)
		}
		c.OpsDone++
		kind := req.MessageType().String()
		switch verdict {
		case native.XDPPass:
			w.pass++
			if !bytes.Equal(out, fr) {
				c.Fail("pass-modified", "pass-modified/"+kind+fmt.Sprintf("/pad%d-ihl%d", shape[0], 5+shape[1]), "fast path returned XDP_PASS for a %s but the frame differs from the one received (len %d -> %d)", kind, len(fr), len(out))
			}
			return false, nil
		case native.XDPTx:
			w.tx++
		default:
			c.Fail("verdict", "verdict/"+kind, "fast path returned verdict %d for a %s", verdict, kind)
			return false, nil
		}
		// ---- (1) well-formedness of the transmitted frame ------------------------
		bad := func(what, format string, a ...any) {
			c.Fail("reply-malformed", "tx-malformed/"+what, "fast path reply to %s: "+format, append([]any{kind}, a...)...)
		}
		if len(out) < l3+20+8+240 {
			bad("short", "frame of %d bytes", len(out))
			return true, nil
		}
		if !bytes.Equal(out[12:l3], fr[12:l3]) {
			bad("l2-tags", "EtherType/VLAN tags changed")
		}
		ip := out[l3:]
		ihl := int(ip[0]&0x0f) * 4
		if ip[0]>>4 != 4 || ihl < 20 || len(ip) < ihl+8 {
			bad("ip-header", "bad version/IHL %#x", ip[0])
			return true, nil
		}
		if !ipChecksumOK(ip[:ihl]) {
			bad(fmt.Sprintf("ip-checksum/ihl%d", ihl/4), "IPv4 header checksum does not verify")
		}
		totLen := int(binary.BigEndian.Uint16(ip[2:]))
		if totLen != len(out)-l3 {
			bad("ip-length", "IP total length %d but %d bytes follow the L2 header", totLen, len(out)-l3)
		}
		udp := ip[ihl:]
		if int(binary.BigEndian.Uint16(udp[4:])) != totLen-ihl {
			bad("udp-length", "UDP length %d, IP payload %d", binary.BigEndian.Uint16(udp[4:]), totLen-ihl)
		}
		if binary.BigEndian.Uint16(udp[0:]) != 67 {
			bad("udp-port", "source port %d", binary.BigEndian.Uint16(udp[0:]))
		}
		rep, err := dhcpv4.FromBytes(udp[8:])
		if err != nil {
			bad("bootp", "payload does not parse: %v", err)
			return true, nil
		}
		if rep.OpCode != dhcpv4.OpcodeBootReply {
			bad("op", "op %v", rep.OpCode)
		}
		if rep.TransactionID != req.TransactionID {
			bad("xid", "xid %v, request %v", rep.TransactionID, req.TransactionID)
		}
		if !bytes.Equal(rep.ClientHWAddr, req.ClientHWAddr) {
			bad("chaddr", "chaddr %v", rep.ClientHWAddr)
		}
		wantType := dhcpv4.MessageTypeOffer
		if req.MessageType() == dhcpv4.MessageTypeRequest {
			wantType = dhcpv4.MessageTypeAck
		}
		if rep.MessageType() != wantType {
			bad("msgtype", "message type %v, want %v", rep.MessageType(), wantType)
		}
		return true, rep
	}

	// agree compares the fast path's answer with what the userspace server sends
	// to the same request at the same moment
	agree := func(kind string, fast, slowRep *dhcpv4.DHCPv4) {
		if slowRep == nil {
			c.Fail("agreement", "agreement/"+kind+"/userspace-silent", "fast path answered a %s that the userspace server does not answer", kind)
			return
		}
		if slowRep.MessageType() != fast.MessageType() {
			c.Fail("agreement", "agreement/"+kind+"/msgtype", "fast path sent %v, userspace sends %v", fast.MessageType(), slowRep.MessageType())
			return
		}
		cmp := func(what string, a, b []byte) {
			if !bytes.Equal(a, b) {
				c.Fail("agreement", "agreement/"+kind+"/"+what, "%s: fast path % x, userspace % x", what, a, b)
			}
		}
		cmp("yiaddr", fast.YourIPAddr.To4(), slowRep.YourIPAddr.To4())
		cmp("server-id", fast.Options.Get(dhcpv4.OptionServerIdentifier), slowRep.Options.Get(dhcpv4.OptionServerIdentifier))
		cmp("subnet-mask", fast.Options.Get(dhcpv4.OptionSubnetMask), slowRep.Options.Get(dhcpv4.OptionSubnetMask))
		cmp("router", fast.Options.Get(dhcpv4.OptionRouter), slowRep.Options.Get(dhcpv4.OptionRouter))
		cmp("dns", fast.Options.Get(dhcpv4.OptionDomainNameServer), slowRep.Options.Get(dhcpv4.OptionDomainNameServer))
		cmp("lease-time", fast.Options.Get(dhcpv4.OptionIPAddressLeaseTime), slowRep.Options.Get(dhcpv4.OptionIPAddressLeaseTime))
	}

	hasLease := func(cl *c03client) (bool, bool) {
		ls, ok := srv.VerifLeases()
		if !ok {
			return false, false
		}
		for _, l := range ls {
			if l.MAC == cl.mac.String() {
				return true, true
			}
		}
		return false, true
	}

	insertFailed := false
	for i, op := range cs.Ops {
		c.OpIdx = i
		if c.Failed() {
			break
		}
		if op.K == "unblock" {
			if blocked {
				maps[0].Delete(&blockerKey)
				blocked = false
				c.S.Fault("kmap.full-map-has-room-again")
			}
			continue
		}
		if op.K == "sleep" {
			var d time.Duration
			switch op.Arg(0) {
			case 5:
				d = 400 * time.Millisecond
			case 0:
				d = time.Second
			case 1:
				d = lease / 2
			case 2:
				d = lease + time.Second
			case 3:
				d = 61 * time.Second
			default:
				d = lease + 125*time.Second
			}
			c.S.Sleep(d)
			continue
		}
		ci := int(op.Arg(0))
		if ci < 0 || ci >= len(cls) {
			continue
		}
		cl := cls[ci]
		shape := []int64{op.Arg(1), op.Arg(2), op.Arg(3), op.Arg(4)}
		var req *dhcpv4.DHCPv4
		switch op.K {
		case "discover":
			req = build(cl, dhcpv4.MessageTypeDiscover, shape)
		case "request":
			ip := cl.bound
			if ip == nil {
				ip = cl.offered
			}
			if ip == nil {
				continue
			}
			req = build(cl, dhcpv4.MessageTypeRequest, shape, dhcpv4.WithOption(dhcpv4.OptRequestedIPAddress(ip)),
				dhcpv4.WithOption(dhcpv4.OptServerIdentifier(w.serverIP)))
		case "release":
			if cl.bound == nil {
				continue
			}
			req = build(cl, dhcpv4.MessageTypeRelease, shape)
			req.ClientIPAddr = cl.bound
		case "decline":
			if cl.bound == nil {
				continue
			}
			req = build(cl, dhcpv4.MessageTypeDecline, shape, dhcpv4.WithOption(dhcpv4.OptRequestedIPAddress(cl.bound)))
		default:
			continue
		}
		held, okLease := hasLease(cl)
		answered, fast := kernel(cl, req, shape)
		if c.Failed() {
			break
		}
		if answered && okLease && !held {
			c.Fail("stale-cache", "stale-cache/"+op.K, "the userspace lease table holds no lease for client %d but the fast path answered its %s", cl.idx, op.K)
			break
		}
		// the userspace server processes the message too: when the kernel passed it
		// on (production behaviour), and — for the differential — when it answered
		sr := slow(req)
		if after, ok2 := hasLease(cl); answered && fast != nil && okLease && ok2 && held && !after && (op.K == "discover" || op.K == "request") {
			// the lease cleanup ended the lease between the two answers (same instant as its tick):
			// they were not given "at that moment" of one cache state
			c.S.Probe("agreement_skipped_lease_ended_in_between")
		} else if answered && fast != nil {
			agree(op.K, fast, sr)
		}
		if sr != nil {
			switch sr.MessageType() {
			case dhcpv4.MessageTypeOffer:
				cl.offered = sr.YourIPAddr.To4()
			case dhcpv4.MessageTypeAck:
				cl.bound = sr.YourIPAddr.To4()
			case dhcpv4.MessageTypeNak:
				cl.offered = nil
			}
		}
		if op.K == "release" || op.K == "decline" {
			cl.bound, cl.offered = nil, nil
		}
		if capped >= 0 && !insertFailed {
			// more acknowledged clients than the capped map can hold: an insert was refused (E2BIG)
			nb := 0
			for _, x := range cls {
				if x.bound != nil {
					nb++
				}
			}
			if nb > 1 {
				insertFailed = true
				c.S.Fault("kmap.insert-refused-map-full")
			}
		}
		c.State(uint64(w.tx)<<16 | uint64(w.pass))
	}
	c.NonTrivial = w.tx > 0 && w.pass > 0
	if w.tx > 0 {
		c.S.Probe("fastpath_answered")
	}
}

func init() {
	sim.Register(&sim.Scenario{
		ID:  "C03",
		Gen: c03Gen,
		Run: c03Run,
		Real: []string{"bpf/dhcp_fastpath.c compiled natively with clang against shim helper headers", "ebpf.Loader map writers over real kernel maps created with the C-declared key/value sizes",
			"dhcp.Server slow path (handlers, lease cleanup loop) + dhcp.Pool/PoolManager.AddPool", "the kernel's map implementation"},
		Stub:         []string{"XDP attach, driver and NIC (frames are handed to the program directly; XDP_TX output is the reply)", "bpf_ktime_get_ns (kernel uptime = configured boot offset + virtual time)", "bpf_xdp_adjust_tail (moves data_end inside the packet arena)"},
		Rule:         "cases: 4-30 DISCOVER/REQUEST/RELEASE/DECLINE frames (untagged/802.1Q/QinQ, IHL 5/6, three padding classes, three option layouts, direct or relayed with option 82) from 1-3 clients through the kernel node into the slow path, sleeps across T1/expiry/cleanup; configurations: prefix 20-30 (larger pools are too slow to materialise per run), 0-2 DNS servers, lease 1 s-1 week, server id set/unset, kernel uptime 0-3 years, and in half of the runs one cache map (MAC, VLAN, circuit-id or the legacy circuit-id hash map) created with a single slot so that further inserts are refused by the kernel (E2BIG) - for the MAC map also transiently: a blocker entry takes the spare slot until an unblock op removes it -, with a motif (two clients acknowledged in turn, each ends its lease and asks again, optionally paced in 400 ms steps so that one-second retries fall between the steps); non-trivial = a refused insert occurred, or = >=3 frames and both verdicts (TX and PASS) occurred; distinct = distinct case hash",
		QuickRuns:    20000,
		ThoroughRuns: 300000,
		Assumptions: []string{"native code generation instead of the BPF back end", "'expired in userspace' = the lease has left the userspace lease table (after the cleanup that follows expiry)",
			"agreement is judged on requests a conforming client sends (REQUEST for the address it was offered or holds)"},
	})
}
