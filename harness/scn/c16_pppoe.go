package scn

import (
	"context"
	"encoding/binary"
	"fmt"
	"net"
	"time"

	"github.com/codelaboratoryltd/bng/pkg/pppoe"
	bngradius "github.com/codelaboratoryltd/bng/pkg/radius"
	"go.uber.org/zap"
	"layeh.com/radius"
	"layeh.com/radius/rfc2865"

	"verif/harness/sim"
)

// C16 variant pppoe-server: the real pppoe.Server (discovery/session handlers,
// IPPool, SessionManager, cleanup loop on the virtual clock) over an in-memory
// socket, real radius.Client.Authenticate against a simulated RADIUS server.
//
// Sessions are established up to a generated prefix (PADI/PADR; + LCP; + PAP
// accepted; + IPCP to Established) and ended by the server's own termination
// paths: PADT from the owner, LCP Terminate-Request, a rejected PAP login, the
// idle timeout (cleanup loop + SessionTimeout), the same path twice, two
// paths back to back, and a terminating frame delivered at the very instant
// the cleanup tick that expires the session fires.
//
// After every termination step the step is audited (session no longer in the
// table under its identity, free-address count of the pool); after the last
// op a drain probe checks that fresh, authenticating peers obtain every
// address that is not held by a session that is still up, each exactly once.

// ---- frame helpers (the harness's own serialiser) ---------------------------

func c16PPPoE(code uint8, sid uint16, payload []byte) []byte {
	b := make([]byte, 6+len(payload))
	b[0], b[1] = 0x11, code
	binary.BigEndian.PutUint16(b[2:], sid)
	binary.BigEndian.PutUint16(b[4:], uint16(len(payload)))
	copy(b[6:], payload)
	return b
}

func c16Tag(t uint16, v []byte) []byte {
	b := make([]byte, 4+len(v))
	binary.BigEndian.PutUint16(b, t)
	binary.BigEndian.PutUint16(b[2:], uint16(len(v)))
	copy(b[4:], v)
	return b
}

func c16PPP(sid uint16, proto uint16, body []byte) []byte {
	pl := make([]byte, 2+len(body))
	binary.BigEndian.PutUint16(pl, proto)
	copy(pl[2:], body)
	return c16PPPoE(pppoe.CodeSession, sid, pl)
}

func c16PAPBody(user, pass string) []byte {
	body := []byte{byte(len(user))}
	body = append(body, user...)
	body = append(body, byte(len(pass)))
	body = append(body, pass...)
	return body
}

// ---- world -------------------------------------------------------------------

type c16pPeer struct {
	idx     int
	mac     net.HardwareAddr
	sid     uint16 // PPPoE session id from the last PADS
	key     string // the session's own identity (Session.SessionID) behind that id
	cookie  []byte
	papID   byte
	cfgID   byte
	papAck  int
	papNak  int
	nak     net.IP // address carried by the last IPCP Configure-Nak
	addr    net.IP // address the server allocated to the session
	stage   int    // 0 nothing, 1 PADS received, 2 LCP done, 3 PAP accepted, 4 Established
	lastRx  time.Duration
	ended   string // label of the step that ended it ("" = up)
	leaked  bool   // an address leak was already reported for it
	inTable bool   // a session-table residue was already reported for it
}

type c16pWorld struct {
	c     *sim.Ctx
	srv   *pppoe.Server
	byMAC map[string]*c16pPeer
}

func (w *c16pWorld) Send(iface string, dst net.HardwareAddr, etype uint16, frame []byte) error {
	if len(frame) < 14+6 {
		return nil
	}
	p := frame[14:]
	code, sid, ln := p[1], binary.BigEndian.Uint16(p[2:4]), int(binary.BigEndian.Uint16(p[4:6]))
	if 6+ln > len(p) {
		ln = len(p) - 6
	}
	peer := w.byMAC[dst.String()]
	if peer == nil {
		return nil
	}
	if etype == pppoe.EtherTypePPPoEDiscovery {
		w.c.S.Logf("tx disc code=%#x sid=%d to p%d", code, sid, peer.idx)
		switch code {
		case pppoe.CodePADO:
			if tags, err := pppoe.ParseTags(p[6 : 6+ln]); err == nil {
				if ck := pppoe.FindTag(tags, pppoe.TagACCookie); ck != nil {
					peer.cookie = append([]byte(nil), ck.Value...)
				}
			}
		case pppoe.CodePADS:
			peer.sid = sid
		}
		return nil
	}
	if ln < 2+4 {
		return nil
	}
	proto := binary.BigEndian.Uint16(p[6:8])
	body := p[8 : 6+ln]
	w.c.S.Logf("tx ppp proto=%04x code=%d sid=%d to p%d", proto, body[0], sid, peer.idx)
	switch proto {
	case pppoe.ProtocolPAP:
		switch body[0] {
		case pppoe.PAPCodeAuthAck:
			peer.papAck++
		case pppoe.PAPCodeAuthNak:
			peer.papNak++
		}
	case pppoe.ProtocolIPCP:
		if body[0] == pppoe.LCPCodeConfigNak {
			opts, _ := parseOpts(body[4:])
			for _, o := range opts {
				if o.Type == pppoe.IPCPOptIPAddress && len(o.Data) == 4 {
					peer.nak = net.IP(append([]byte(nil), o.Data...))
				}
			}
		}
	}
	return nil
}

var c16pPaths = []string{"padt", "lcp-term", "auth-fail", "idle"}

func c16GenPPPoE(r *sim.Rand, tier string, cs *sim.Case) {
	np := r.Range(1, 3)
	cs.Knobs["peers"] = int64(np)
	cs.Knobs["pool29"] = int64(r.Weighted(1, 2)) // 0: /30 (2 addresses), 1: /29
	cs.Knobs["radius"] = int64(r.Weighted(1, 4))
	cs.Knobs["timeout_s"] = int64(sim.Pick(r, 60, 300))
	stages := []string{"padi", "padr", "lcp", "pap", "ipcp"}
	for p := 0; p < np; p++ {
		prefix := r.Weighted(1, 1, 2, 2, 4, 10) // number of establishment steps taken
		for i := 0; i < prefix && i < len(stages); i++ {
			cs.Ops = append(cs.Ops, sim.Op{K: stages[i], A: []int64{int64(p)}})
		}
	}
	for p := 0; p < np; p++ {
		if r.P(15) {
			continue // this session stays up
		}
		p1 := sim.Pick(r, c16pPaths...)
		if !r.P(50) {
			cs.Ops = append(cs.Ops, sim.Op{K: "end", A: []int64{int64(p)}, S: []string{p1}})
			continue
		}
		p2 := sim.Pick(r, c16pPaths...)
		if r.P(40) && (p1 == "idle") != (p2 == "idle") {
			// the frame arrives at the instant of the cleanup tick that expires the session
			fr := p1
			if fr == "idle" {
				fr = p2
			}
			cs.Ops = append(cs.Ops, sim.Op{K: "end2", A: []int64{int64(p)}, S: []string{fr}})
		} else {
			cs.Ops = append(cs.Ops, sim.Op{K: "end", A: []int64{int64(p)}, S: []string{p1, p2}})
		}
	}
}

func c16RunPPPoE(c *sim.Ctx) {
	cs := c.Case
	w := &c16pWorld{c: c, byMAC: map[string]*c16pPeer{}}
	timeout := time.Duration(cs.Knob("timeout_s", 60)) * time.Second
	if timeout < 10*time.Second {
		timeout = 10 * time.Second
	}
	poolCIDR := "10.0.0.0/30"
	if cs.Knob("pool29", 1) == 1 {
		poolCIDR = "10.0.0.0/29"
	}
	withRadius := cs.Knob("radius", 1) == 1
	iface := &net.Interface{Index: 2, MTU: 1500, Name: "sim0", HardwareAddr: net.HardwareAddr{0x02, 0xbb, 0, 0, 0, 1}}
	srv, err := pppoe.VerifNewServerWithSocket(pppoe.ServerConfig{Interface: "sim0", ACName: "ac", ServiceName: "internet",
		ServerIP: "10.0.0.1", ClientPool: poolCIDR, PoolGateway: "10.0.0.1", PrimaryDNS: "9.9.9.9", SessionTimeout: timeout},
		zap.NewNop(), iface, w)
	if err != nil {
		panic(err)
	}
	w.srv = srv
	if withRadius {
		cl, err := bngradius.NewClient(bngradius.ClientConfig{Servers: []bngradius.ServerConfig{{Host: "radius.sim", Port: 1812, Secret: "s3cret"}},
			NASID: "bng", Timeout: 3 * time.Second, Retries: 3}, zap.NewNop())
		if err != nil {
			panic(err)
		}
		srv.SetRADIUSClient(cl)
		rn := &sim.RadiusNet{S: c.S, Secret: []byte("s3cret"), Latency: 5 * time.Millisecond}
		rn.Serve = func(p *radius.Packet, addr string, raw []byte) *radius.Packet {
			if p.Code == radius.CodeAccessRequest && rfc2865.UserPassword_GetString(p) == "good" {
				return p.Response(radius.CodeAccessAccept)
			}
			c.S.Fault("radius.reject")
			return p.Response(radius.CodeAccessReject)
		}
		c.S.Radius = rn.Exchange
	}
	pool := srv.VerifPool()
	total, _ := pool.VerifPoolFree()
	tab := srv.VerifSessionManager()

	np := int(cs.Knob("peers", 1))
	if np < 1 {
		np = 1
	}
	if np > 4 {
		np = 4
	}
	var peers []*c16pPeer
	newPeer := func(idx int, mac net.HardwareAddr) *c16pPeer {
		p := &c16pPeer{idx: idx, mac: mac}
		w.byMAC[mac.String()] = p
		return p
	}
	for i := 0; i < np; i++ {
		peers = append(peers, newPeer(i, net.HardwareAddr{0x02, 0xaa, 0, 0, 0, byte(i + 1)}))
	}
	ctx, cancel := context.WithCancel(context.Background())
	cleanup := c.S.Spawn("pppoe-cleanup", nil, func() { srv.VerifRunCleanup(ctx) })
	defer func() {
		cancel()
		c.S.Join(cleanup) // leave no goroutine behind in the bubble
	}()

	deliver := func(p *c16pPeer, kind string, disc bool, payload []byte) {
		c.S.Logf("rx %s from p%d sid=%d", kind, p.idx, p.sid)
		t := c.S.Spawn("rx", nil, func() {
			if disc {
				srv.VerifDiscovery(p.mac, payload)
			} else {
				srv.VerifSession(p.mac, payload)
			}
		})
		c.S.Join(t)
		c.OpsDone++
		p.lastRx = c.S.Now()
		// let the goroutine the PADR handler starts (LCP Configure-Request) finish
		c.S.Sleep(time.Millisecond)
	}
	keys := map[string]bool{}
	collided := false
	// establishment steps; each is executable in any context
	step := func(p *c16pPeer, k string) {
		if collided {
			return
		}
		switch k {
		case "padi":
			deliver(p, "padi", true, c16PPPoE(pppoe.CodePADI, 0, append(c16Tag(pppoe.TagServiceName, nil), c16Tag(pppoe.TagHostUniq, []byte{byte(p.idx), 1})...)))
		case "padr":
			if p.cookie == nil || p.sid != 0 {
				return
			}
			deliver(p, "padr", true, c16PPPoE(pppoe.CodePADR, 0, append(c16Tag(pppoe.TagServiceName, []byte("internet")), c16Tag(pppoe.TagACCookie, p.cookie)...)))
			if s := tab.GetSession(p.sid); p.sid != 0 && s != nil {
				// session identities come from crypto/rand, i.e. from the tape; a
				// zeroed (shrunk) tape would give every session the same one
				if keys[s.SessionID] {
					collided = true
					return
				}
				keys[s.SessionID] = true
				p.key = s.SessionID
				p.stage = 1
			}
		case "lcp":
			if p.stage != 1 {
				return
			}
			p.cfgID++
			deliver(p, "lcp-req", false, c16PPP(p.sid, pppoe.ProtocolLCP, cpPacket(1, p.cfgID, serOpts([]cpOpt{{1, []byte{0x05, 0xd4}}, {5, []byte{1, 2, 3, byte(p.idx)}}}))))
			deliver(p, "lcp-ack", false, c16PPP(p.sid, pppoe.ProtocolLCP, cpPacket(2, 1, nil)))
			p.stage = 2
		case "pap":
			if p.stage != 2 {
				return
			}
			p.papID++
			acks := p.papAck
			deliver(p, "pap", false, c16PPP(p.sid, pppoe.ProtocolPAP, cpPacket(1, p.papID, c16PAPBody(fmt.Sprintf("user%d", p.idx), "good"))))
			if p.papAck > acks {
				p.stage = 3
				if s := tab.GetSession(p.sid); s != nil && s.SessionID == p.key && s.ClientIP != nil {
					p.addr = append(net.IP(nil), s.ClientIP.To4()...)
				}
			}
		case "ipcp":
			if p.stage != 3 {
				return
			}
			p.cfgID++
			deliver(p, "ipcp-req", false, c16PPP(p.sid, pppoe.ProtocolIPCP, cpPacket(1, p.cfgID, serOpts([]cpOpt{{3, []byte{0, 0, 0, 0}}}))))
			deliver(p, "ipcp-ack", false, c16PPP(p.sid, pppoe.ProtocolIPCP, cpPacket(2, 1, serOpts([]cpOpt{{3, []byte{10, 0, 0, 1}}}))))
			p.stage = 4
		}
	}
	// a terminating frame from the owner; false if the path cannot be taken
	frame := func(p *c16pPeer, path string) bool {
		switch path {
		case "padt":
			deliver(p, "padt", true, c16PPPoE(pppoe.CodePADT, p.sid, nil))
		case "lcp-term":
			deliver(p, "lcp-term", false, c16PPP(p.sid, pppoe.ProtocolLCP, cpPacket(5, 9, nil)))
		case "auth-fail":
			if !withRadius {
				return false // without RADIUS every login is accepted
			}
			p.papID++
			naks := p.papNak
			deliver(p, "pap-bad", false, c16PPP(p.sid, pppoe.ProtocolPAP, cpPacket(1, p.papID, c16PAPBody(fmt.Sprintf("user%d", p.idx), "bad"))))
			if p.ended == "" && p.papNak == naks {
				return false // no Authenticate-Nak: the login was not rejected
			}
		default:
			return false
		}
		return true
	}
	// sleepKeeping advances time by d while every session that is up, except
	// skip, keeps sending LCP Echo-Requests (so only skip goes idle)
	sleepKeeping := func(d time.Duration, skip *c16pPeer) {
		for d > 0 {
			st := timeout / 3
			if st > d {
				st = d
			}
			c.S.Sleep(st)
			d -= st
			for _, q := range peers {
				if q != skip && q.stage >= 1 && q.ended == "" {
					deliver(q, "echo", false, c16PPP(q.sid, pppoe.ProtocolLCP, cpPacket(9, 3, []byte{0, 0, 0, 0})))
				}
			}
		}
	}
	// heldBy counts the addresses that may legitimately be off the free list
	// apart from p's: sessions that are up, and leaks that were reported already
	heldBy := func(except *c16pPeer) int {
		n := 0
		for _, q := range peers {
			if q != except && q.addr != nil && (q.ended == "" || q.leaked) {
				n++
			}
		}
		return n
	}
	// auditStep: the step labelled label has just ended p (or ended it again).
	// A residue that was reported for an earlier step of the same session is not
	// reported again under the longer label.
	auditStep := func(p *c16pPeer, label string) {
		if s := tab.GetSession(p.sid); s != nil && s.SessionID == p.key {
			if !p.inTable {
				c.Fail("session-not-removed", "pppoe-server/session-table/"+label, "session %d of peer %d was ended by %s but is still in the session table (state %v, authenticated=%v, client address %v)",
					p.sid, p.idx, label, s.GetState(), s.Authenticated, s.ClientIP)
			}
			p.inTable = true
		} else {
			p.inTable = false
		}
		free, _ := pool.VerifPoolFree()
		want := total - heldBy(p)
		switch {
		case free == want:
			p.leaked = false
		case free == want-1 && p.addr != nil:
			if !p.leaked {
				c.Fail("address-not-released", "pppoe-server/address/"+label, "session %d of peer %d (address %v) was ended by %s: the pool has %d free addresses out of %d, %d expected (only sessions that are up, or already reported, may hold one)",
					p.sid, p.idx, p.addr, label, free, total, want)
			}
			p.leaked = true
		case free < want:
			c.Fail("address-not-released", "pppoe-server/address-unattributed/"+label, "after %s on session %d of peer %d the pool has %d free addresses out of %d, %d expected", label, p.sid, p.idx, free, total, want)
		default:
			c.Fail("double-free", "pppoe-server/address-freed-twice/"+label, "after %s on session %d of peer %d the pool has %d free addresses but only %d can be free (%d in the pool)",
				label, p.sid, p.idx, free, want, total)
		}
	}

	for i, op := range cs.Ops {
		c.OpIdx = i
		if c.Failed() || collided {
			break
		}
		pi := int(op.Arg(0))
		if pi < 0 || pi >= len(peers) {
			continue
		}
		p := peers[pi]
		switch op.K {
		case "padi", "padr", "lcp", "pap", "ipcp":
			if p.ended == "" {
				step(p, op.K)
			}
		case "end":
			if p.stage < 1 {
				continue
			}
			label := p.ended
			for k := 0; k < 2 && k < len(op.S); k++ {
				path := op.Str(k)
				if path == "idle" {
					sleepKeeping(timeout+150*time.Second, p)
				} else if !frame(p, path) {
					continue
				}
				if label == "" {
					label = path
				} else {
					label += "+" + path
				}
				p.ended = label
				auditStep(p, label)
				if c.Failed() {
					break
				}
			}
		case "end2":
			if p.stage < 1 || p.ended != "" {
				continue
			}
			path := op.Str(0)
			if path == "auth-fail" && !withRadius {
				continue
			}
			// the first cleanup tick (every 30 s from the start of the loop) at which p is expired
			tick := 30 * time.Second
			at := (p.lastRx+timeout)/tick*tick + tick
			for at-c.S.Now() > timeout/3 {
				sleepKeeping(timeout/3, p)
			}
			if d := at - c.S.Now(); d > 0 {
				c.S.Sleep(d)
			}
			c.S.Fault("terminate.concurrent")
			frame(p, path) // no answer if the cleanup got there first
			// whatever the order was (the frame may have counted as activity), a full
			// idle period plus two cleanup periods settles it
			sleepKeeping(timeout+150*time.Second, p)
			p.ended = "idle|" + path
			auditStep(p, p.ended)
		}
	}
	if c.Failed() || collided {
		if collided {
			c.S.Probe("session-identity-collision")
		}
		return
	}
	// ---- final audit: drain probe ---------------------------------------------
	c.S.Sleep(time.Second)
	live := map[string]*c16pPeer{}
	for _, p := range peers {
		if p.addr != nil && p.ended == "" {
			live[p.addr.String()] = p
		}
	}
	got := map[string]int{}
	for i := 0; i < total+1; i++ {
		f := newPeer(50+i, net.HardwareAddr{0x02, 0xcc, 0, 0, 1, byte(i + 1)})
		for _, k := range []string{"padi", "padr", "lcp", "pap"} {
			step(f, k)
		}
		if collided {
			c.S.Probe("session-identity-collision")
			return
		}
		if f.stage != 3 {
			continue
		}
		f.cfgID++
		deliver(f, "ipcp-req", false, c16PPP(f.sid, pppoe.ProtocolIPCP, cpPacket(1, f.cfgID, serOpts([]cpOpt{{3, []byte{0, 0, 0, 0}}}))))
		if f.nak == nil {
			continue
		}
		a := f.nak.String()
		got[a]++
		if q := live[a]; q != nil {
			c.Fail("double-free", "pppoe-server/address-of-live-session-reassigned", "address %s is held by session %d of peer %d, which is still up, and was assigned to a fresh session as well", a, q.sid, q.idx)
		}
	}
	for a, n := range got {
		if n > 1 {
			c.Fail("double-free", "pppoe-server/address-handed-out-twice", "after the terminations address %s was assigned to %d fresh sessions", a, n)
		}
	}
	want := total - len(live)
	if len(got) < want {
		attributed := false
		for _, p := range peers {
			if p.addr == nil || p.ended == "" || got[p.addr.String()] > 0 {
				continue
			}
			attributed = true
			if p.leaked {
				continue // reported when the step was audited
			}
			c.Fail("address-not-released", "pppoe-server/address-not-obtainable/"+p.ended, "session %d of peer %d was ended by %s; fresh authenticated sessions obtained %d distinct addresses out of %d that should be free, and never %v",
				p.sid, p.idx, p.ended, len(got), want, p.addr)
		}
		if !attributed {
			c.Fail("address-not-released", "pppoe-server/address-not-obtainable/unattributed", "fresh authenticated sessions obtained %d distinct addresses, %d should be free (pool %d, %d held by sessions that are up)", len(got), want, total, len(live))
		}
	}
	c.State(uint64(len(live))<<8 | uint64(len(got)))
}

func init() {
	c16Variants["pppoe-server"] = &c16Variant{gen: c16GenPPPoE, run: c16RunPPPoE, weight: 6}
}
