package scn

import (
	"errors"
	"encoding/json"
	"fmt"
	"net/http"
	"sort"
	"strings"
	"time"

	"github.com/codelaboratoryltd/bng/pkg/ha"
	"github.com/codelaboratoryltd/bng/pkg/simrt"
	"go.uber.org/zap"

	"verif/harness/sim"
)

// C13 — the standby converges to the active node's session table.
//
// Real active + standby HASyncer over the simulated HTTP network (c13_http.go).
// The workload mutates the active's store and pushes the change, as the session
// manager would; the standby's store is wrapped by a recorder. Faults: SSE
// disconnect at any byte, lost / late full-sync responses, partition (stall or
// reset) and heal, standby crash + restart.

const (
	c13Active  = "active.sim:9000"
	c13Standby = "standby.sim"
	c13Sess    = "/ha/sessions"
	c13Stream  = "/ha/sessions/stream"
)

type c13mut struct {
	kind string // "put" | "del"
	id   string
	ver  uint64
}

type c13push struct {
	c13mut
	at   time.Duration // virtual time at which PushChange returned
	conn int    // stream connection that was up when PushChange returned, -1 none
	why  string // for deletes: the situation of the stream at that moment
}

type c13applied struct {
	c13mut
	conn int // stream the standby was reading when it applied the mutation, -1 = full sync
}

// c13store records every mutation the standby syncer applies to its store.
type c13store struct {
	inner *ha.InMemorySessionStore
	w     *c13world
}

func (s *c13store) GetSession(id string) (*ha.SessionState, bool) { return s.inner.GetSession(id) }
func (s *c13store) GetAllSessions() []ha.SessionState             { return s.inner.GetAllSessions() }
func (s *c13store) GetSessionCount() int                          { return s.inner.GetSessionCount() }
func (s *c13store) PutSession(x *ha.SessionState) error {
	if s.w.sbStore == s && s.w.sbFailPut > 0 {
		s.w.sbFailPut--
		return s.w.storeFailed("put", x.SessionID)
	}
	if s.w.sbStore == s {
		s.w.applied = append(s.w.applied, c13applied{c13mut{"put", x.SessionID, x.BytesIn}, s.w.curStream})
		s.w.c.S.Logf("standby put %s v%d (conn %d)", x.SessionID, x.BytesIn, s.w.curStream)
	}
	return s.inner.PutSession(x)
}
func (s *c13store) DeleteSession(id string) error {
	if s.w.sbStore == s && s.w.sbFailDel > 0 {
		s.w.sbFailDel--
		return s.w.storeFailed("delete", id)
	}
	if s.w.sbStore == s {
		s.w.applied = append(s.w.applied, c13applied{c13mut{"del", id, 0}, s.w.curStream})
		s.w.c.S.Logf("standby del %s (conn %d)", id, s.w.curStream)
	}
	return s.inner.DeleteSession(id)
}

// storeFailed: an injected failure of the standby's own session store (no
// effect on the store). The stream being read at that moment can no longer be
// held to "every pushed change is applied"; a failure during a full sync excuses
// that one snapshot comparison. Later full syncs and the final convergence are
// judged as usual.
func (w *c13world) storeFailed(kind, id string) error {
	w.c.S.Fault("store.err." + kind)
	w.c.S.Logf("standby store %s %s fails (conn %d)", kind, id, w.curStream)
	if w.curStream >= 0 {
		w.taint[w.curStream] = true
	} else {
		w.syncTainted = true
	}
	return errors.New("c13: injected store failure")
}

type c13world struct {
	sbFailPut, sbFailDel int          // standby store operations still to fail
	taint                map[int]bool // streams during which a standby store operation failed
	syncTainted          bool         // a standby store operation failed outside a stream (during a full sync)
	streams map[int]*vhConn // stream connections by id (for the in-order rule)
	c   *sim.Ctx
	net *vhNet

	aNode  *simrt.Node
	aStore *ha.InMemorySessionStore
	active *ha.HASyncer

	sbNode  *simrt.Node
	sbStore *c13store
	sb      *ha.HASyncer
	sbGen   int
	sbCfg   ha.SyncConfig

	pushes    []c13push
	applied   []c13applied
	curStream int     // connection id of the stream the standby is reading
	curConn   *vhConn // the same, as a connection
	lastSess  *vhConn // last /ha/sessions response handed to the standby
	checked   map[int]bool
	nextVer   uint64
	syncs     int
	restarted bool // the current standby incarnation is not the first
	gap       bool // a full-sync response was produced and the stream is not attached yet
}

func c13Gen(r *sim.Rand, tier string) *sim.Case {
	cs := &sim.Case{Knobs: map[string]int64{}}
	cs.Variant = sim.Pick(r, "calm", "cuts", "cuts", "loss", "partition", "crash", "mixed", "mixed")
	cs.Knobs["skipmax"] = int64(sim.Pick(r, 1, 2, 4, 16))
	cs.Knobs["maporder"] = int64(r.N(4))
	cs.Knobs["reqto_s"] = int64(sim.Pick(r, 5, 10, 30, 30))
	cs.Knobs["hb_s"] = int64(sim.Pick(r, 2, 10))
	cs.Knobs["lat_us"] = int64(sim.Pick(r, 100, 300, 5000, 200000))
	if r.P(25) {
		// slow or stalled node: at this per-mille of its scheduling points a goroutine of either
		// node stalls for 1 ms - 2 s while everything else goes on
		cs.Knobs["stall_pm"] = int64(sim.Pick(r, 3, 10, 30))
	}
	switch cs.Variant {
	case "cuts":
		cs.Knobs["pm_cut"] = int64(sim.Pick(r, 30, 100, 300))
	case "loss":
		cs.Knobs["pm_loss"] = int64(sim.Pick(r, 50, 150))
		cs.Knobs["pm_drop"] = int64(sim.Pick(r, 0, 50))
		cs.Knobs["pm_delay"] = int64(sim.Pick(r, 0, 100))
	case "mixed":
		cs.Knobs["pm_cut"] = int64(sim.Pick(r, 0, 50, 150))
		cs.Knobs["pm_loss"] = int64(sim.Pick(r, 0, 50))
		cs.Knobs["pm_drop"] = int64(sim.Pick(r, 0, 30))
		cs.Knobs["pm_delay"] = int64(sim.Pick(r, 0, 80))
	}
	n := r.Range(6, 18)
	if tier == "thorough" {
		n = r.Range(6, 32)
	}
	nid := r.Range(1, 4)
	if r.P(60) {
		cs.Ops = append(cs.Ops, sim.Op{K: "sleep", A: []int64{1}}) // let the first sync + attach complete
	}
	for i := 0; i < n; i++ {
		w := []int{10, 8, 6, 8, 0, 0, 0, 0, 0, 0, 0, 0, 2}
		if cs.Variant != "calm" && cs.Variant != "crash" {
			w[11] = 2
		}
		switch cs.Variant {
		case "cuts":
			w[4], w[5], w[10] = 4, 3, 3
		case "loss":
			w[6], w[7] = 3, 3
		case "partition":
			w[8] = 4
		case "crash":
			w[9] = 3
		case "mixed":
			w[4], w[5], w[6], w[7], w[8], w[9], w[10] = 2, 2, 2, 2, 3, 2, 2
		}
		id := int64(r.N(nid))
		switch r.Weighted(w...) {
		case 0:
			cs.Ops = append(cs.Ops, sim.Op{K: "add", A: []int64{id}})
		case 1:
			cs.Ops = append(cs.Ops, sim.Op{K: "upd", A: []int64{id}})
		case 2:
			cs.Ops = append(cs.Ops, sim.Op{K: "del", A: []int64{id}})
		case 3:
			cs.Ops = append(cs.Ops, sim.Op{K: "sleep", A: []int64{int64(r.Weighted(3, 4, 3, 2, 4, 2, 1))}})
		case 4:
			cs.Ops = append(cs.Ops, sim.Op{K: "cut"})
		case 5:
			cs.Ops = append(cs.Ops, sim.Op{K: "cutflush"})
		case 6:
			cs.Ops = append(cs.Ops, sim.Op{K: "lose", A: []int64{int64(r.N(2))}})
		case 7:
			cs.Ops = append(cs.Ops, sim.Op{K: "delay", A: []int64{int64(r.N(2)), int64(r.N(3))}})
		case 8:
			cs.Ops = append(cs.Ops, sim.Op{K: "part", A: []int64{int64(r.N(2)), int64(r.N(2))}},
				sim.Op{K: sim.Pick(r, "upd", "del", "add", "sleep"), A: []int64{id, 2}},
				sim.Op{K: "sleep", A: []int64{int64(r.Weighted(2, 3, 3, 2, 2, 1))}}, sim.Op{K: "heal"})
		case 9:
			cs.Ops = append(cs.Ops, sim.Op{K: "crash", A: []int64{int64(r.N(3))}})
		case 12:
			cs.Ops = append(cs.Ops, sim.Op{K: "cut"}, sim.Op{K: "attachpush", A: []int64{id}}, sim.Op{K: "sleep", A: []int64{int64(sim.Pick(r, 0, 1, 2))}})
		case 11:
			// the standby's own store refuses one delete (or put), then the link drops: the next full sync has to repair it
			cs.Ops = append(cs.Ops, sim.Op{K: "sberr", A: []int64{int64(r.Weighted(3, 1))}}, sim.Op{K: sim.Pick(r, "del", "del", "upd"), A: []int64{id}},
				sim.Op{K: "sleep", A: []int64{int64(sim.Pick(r, 0, 1, 2))}}, sim.Op{K: "cut"})
		case 10:
			// half-open stream: the standby sees the break, the active's handler does not until
			// it next writes; the standby reconnects meanwhile, then more changes are pushed
			cs.Ops = append(cs.Ops, sim.Op{K: "sleep", A: []int64{2}}, sim.Op{K: "cuthalfopen"}, sim.Op{K: "sleep", A: []int64{int64(sim.Pick(r, 2, 3, 3, 5))}},
				sim.Op{K: sim.Pick(r, "upd", "add", "del"), A: []int64{id}}, sim.Op{K: "sleep", A: []int64{int64(sim.Pick(r, 2, 3))}})
		}
	}
	return cs
}

func (w *c13world) startStandby() {
	c := w.c
	w.sbGen++
	w.sbNode = &simrt.Node{Name: fmt.Sprintf("standby-%d", w.sbGen)}
	w.sbStore = &c13store{inner: ha.NewInMemorySessionStore(), w: w}
	w.curStream, w.curConn, w.lastSess = -1, nil, nil
	sb := ha.NewHASyncer(w.sbCfg, w.sbStore, zap.NewNop())
	sb.VerifSetHTTPClient(w.net.Client(c13Standby))
	w.sb = sb
	t := c.S.Spawn("boot-standby", w.sbNode, func() {
		if err := sb.Start(); err != nil {
			panic(err)
		}
	})
	c.S.Join(t)
}

func c13Table(ss []ha.SessionState) map[string]uint64 {
	m := map[string]uint64{}
	for _, s := range ss {
		m[s.SessionID] = s.BytesIn
	}
	return m
}

// c13Fields: the first field in which two records of one session differ ("" = none).
func c13Fields(want, got []ha.SessionState) (id, field string) {
	wm := map[string]ha.SessionState{}
	for _, s := range want {
		wm[s.SessionID] = s
	}
	sort.Slice(got, func(i, j int) bool { return got[i].SessionID < got[j].SessionID })
	for _, g := range got {
		x, ok := wm[g.SessionID]
		if !ok || x.BytesIn != g.BytesIn {
			continue // presence and version are judged by c13Diff
		}
		switch {
		case x.SubscriberID != g.SubscriberID:
			return g.SessionID, "subscriber_id"
		case x.MAC != g.MAC:
			return g.SessionID, "mac"
		case x.IP != g.IP:
			return g.SessionID, "ip"
		case x.IPv6 != g.IPv6:
			return g.SessionID, "ipv6"
		case x.Gateway != g.Gateway:
			return g.SessionID, "gateway"
		case x.VLAN != g.VLAN || x.STag != g.STag || x.CTag != g.CTag:
			return g.SessionID, "vlan-tags"
		case x.QoSProfile != g.QoSProfile || x.DownloadRateBps != g.DownloadRateBps || x.UploadRateBps != g.UploadRateBps:
			return g.SessionID, "qos"
		case x.SessionType != g.SessionType || x.ISPID != g.ISPID || x.Username != g.Username:
			return g.SessionID, "session-metadata"
		case x.State != g.State || x.WalledGarden != g.WalledGarden:
			return g.SessionID, "state"
		case x.BytesOut != g.BytesOut:
			return g.SessionID, "bytes_out"
		}
	}
	return "", ""
}

func c13Show(m map[string]uint64) string {
	var ks []string
	for k := range m {
		ks = append(ks, k)
	}
	sort.Strings(ks)
	var b strings.Builder
	for _, k := range ks {
		fmt.Fprintf(&b, "%s@v%d ", k, m[k])
	}
	return "{" + strings.TrimSpace(b.String()) + "}"
}

// c13Diff classifies how got differs from want ("" = equal).
func c13Diff(want, got map[string]uint64) (string, string) {
	var ks []string
	for k := range got {
		ks = append(ks, k)
	}
	for k := range want {
		if _, ok := got[k]; !ok {
			ks = append(ks, k)
		}
	}
	sort.Strings(ks)
	for _, k := range ks {
		wv, wok := want[k]
		gv, gok := got[k]
		switch {
		case gok && !wok:
			return "extra-on-standby", k
		case wok && !gok:
			return "missing-on-standby", k
		case wv != gv:
			return "version-differs", k
		}
	}
	return "", ""
}

// why explains, for the failure message and the fingerprint, how a session the
// active no longer has came to survive on the standby.
func (w *c13world) why(id string) string {
	for i := len(w.pushes) - 1; i >= 0; i-- {
		if p := w.pushes[i]; p.id == id && p.kind == "del" {
			return p.why
		}
	}
	return "never-deleted"
}

// checkSnapshot is clause 1: it runs when the standby issues its stream request,
// i.e. immediately after a completed full synchronisation.
func (w *c13world) checkSnapshot() {
	c := w.c
	cn := w.lastSess
	if cn == nil {
		c.Fail("snapshot", "snapshot/stream-without-full-sync", "standby requested the stream although no full-sync response was delivered to it")
		return
	}
	var msg ha.SyncMessage
	if err := json.Unmarshal(cn.sent, &msg); err != nil {
		c.S.Probe("snapshot_unparsable")
		return
	}
	w.syncs++
	c.OpsDone++
	if w.syncTainted {
		w.syncTainted = false
		c.S.Probe("snapshot_check_skipped_store_failure")
		return
	}
	snap := c13Table(msg.Sessions)
	table := c13Table(w.sbStore.GetAllSessions())
	c.S.Logf("full sync completed: snapshot %s standby %s", c13Show(snap), c13Show(table))
	if d, id := c13Diff(snap, table); d != "" {
		c.Fail("snapshot", "snapshot/"+d+"/"+w.why(id),
			"immediately after a completed full sync the standby's table %s differs from the snapshot the response carried %s (session %s: %s; its last delete on the active: %s)",
			c13Show(table), c13Show(snap), id, d, w.why(id))
	} else if id, f := c13Fields(msg.Sessions, w.sbStore.GetAllSessions()); f != "" {
		c.Fail("snapshot", "snapshot/record-differs/"+f,
			"immediately after a completed full sync the standby's record of session %s differs from the snapshot's in %s (same version)", id, f)
	}
}

func (w *c13world) streamUp() bool {
	cn := w.curConn
	return cn != nil && cn.established && !cn.ended && cn.broken == nil && !cn.cliGone
}

// checkStream is clause 2 for one stream connection S. The changes pushed while
// S was connected form a contiguous range P of the push sequence. What the
// standby applied while reading S must be X ++ Y where X is a subsequence of the
// pushes made before P (changes still queued on the active when S attached) and
// Y is a prefix of P -- the whole of P if S is still connected at the end.
func (w *c13world) checkStream(id int, final bool) {
	c := w.c
	if id < 0 || (w.checked[id] && !final) {
		return
	}
	w.checked[id] = true
	if w.taint[id] {
		c.S.Probe("stream_check_skipped_store_failure")
		return
	}
	var A []c13mut
	for _, a := range w.applied {
		if a.conn == id {
			A = append(A, a.c13mut)
		}
	}
	if len(A) > 0 {
		c.S.Probe("stream_with_applied_changes_checked")
	}
	lo, hi := len(w.pushes), len(w.pushes)-1
	for i, p := range w.pushes {
		if p.conn == id {
			if i < lo {
				lo = i
			}
			hi = i
		}
	}
	// lo > hi: nothing was pushed while S was connected (P is empty)
	same := func(a c13mut, p c13push) bool {
		return p.kind == a.kind && p.id == a.id && (a.kind == "del" || p.ver == a.ver)
	}
	subseq := func(X []c13mut, P []c13push) bool {
		j := 0
		for _, a := range X {
			for j < len(P) && !same(a, P[j]) {
				j++
			}
			if j == len(P) {
				return false
			}
			j++
		}
		return true
	}
	limit := lo
	if limit > len(w.pushes) {
		limit = len(w.pushes)
	}
	np := hi - lo + 1
	if np < 0 {
		np = 0
	}
	best := -1 // longest prefix of P reachable by a valid split
	for s := len(A); s >= 0; s-- {
		Y := A[s:]
		if len(Y) > np {
			continue
		}
		ok := true
		for k, a := range Y {
			if !same(a, w.pushes[lo+k]) {
				ok = false
				break
			}
		}
		if ok && subseq(A[:s], w.pushes[:limit]) {
			if len(Y) > best {
				best = len(Y)
			}
		}
	}
	if best < 0 {
		detail := "out-of-push-order"
		if subseq(A, w.pushes) {
			detail = "missed-while-connected"
		}
		c.Fail("stream", "stream/"+detail,
			"stream connection %d: the standby applied %v; the changes pushed while it was connected were #%d..#%d of %v: not (queued earlier changes in order) followed by a gap-free prefix of them",
			id, A, lo, hi, w.pushes)
		return
	}
	// In-order transport: once the standby has read bytes of this stream that the
	// active flushed at a strictly later virtual time than a push made while the
	// stream was connected (virtual time only advances when every task of the
	// active has run to a blocking point, so the push has long been written),
	// that push must have been applied - the "cut-off suffix" cannot reach back
	// behind data that arrived.
	// (Not after a crash of the standby: bytes it had read may not have been processed.)
	if cn := w.streams[id]; cn != nil && best < np && !cn.cliNode.Dead() {
		if t, ok := cn.LastReadFlushAt(); ok {
			p := w.pushes[lo+best]
			if p.at < t && t-p.at > c.S.StallSum(p.at, t) { // (a stalled broadcast chain may let a heartbeat overtake)
				c.Fail("stream", "stream/skipped-behind-later-data/"+p.kind,
					"stream connection %d: change #%d (%s %s v%d) was pushed at %v while the stream was connected and never applied, although the standby went on to read stream data the active flushed at %v (applied: %v)",
					id, lo+best, p.kind, p.id, p.ver, p.at, t, A)
				return
			}
		}
	}
	// A change may be lost as the cut-off suffix only if the disconnect caught it
	// in flight. The simulated transport delivers flushed bytes at once while the
	// link is up, and virtual time only advances once the active's broadcast
	// chain and the standby's reader have run to a blocking point: a change
	// pushed at a strictly earlier virtual time than the one at which the
	// standby saw the stream end, with no partition in between, was not in flight.
	if cn := w.streams[id]; cn != nil && best < np && !final && cn.ended && !cn.cliNode.Dead() {
		p := w.pushes[lo+best]
		if p.at < cn.endAt && cn.endAt-p.at > c.S.StallSum(p.at, cn.endAt) && !w.net.PartitionedDuring(p.at, cn.endAt) {
			c.Fail("stream", "stream/lost-long-before-disconnect/"+p.kind,
				"stream connection %d: change #%d (%s %s v%d) was pushed at %v while the stream was connected and never applied on it, although the standby saw the stream end only at %v with no partition in between (applied: %v)",
				id, lo+best, p.kind, p.id, p.ver, p.at, cn.endAt, A)
			return
		}
	}
	if final && best < np {
		p := w.pushes[lo+best]
		c.Fail("stream", "stream/undelivered/"+p.kind,
			"stream connection %d stayed connected, yet change #%d (%s %s v%d), pushed while it was connected, was never applied (applied: %v)", id, lo+best, p.kind, p.id, p.ver, A)
	}
}

func c13Run(c *sim.Ctx) {
	cs := c.Case
	w := &c13world{c: c, checked: map[int]bool{}, curStream: -1, streams: map[int]*vhConn{}, taint: map[int]bool{}}
	n := newVHNet(c)
	w.net = n
	n.BaseLat = time.Duration(cs.Knob("lat_us", 300)) * time.Microsecond
	n.PmCut = int(cs.Knob("pm_cut", 0))
	n.PmLoseResp = int(cs.Knob("pm_loss", 0))
	n.PmDropReq = int(cs.Knob("pm_drop", 0))
	n.PmDelay = int(cs.Knob("pm_delay", 0))
	reqTO := time.Duration(cs.Knob("reqto_s", 30)) * time.Second
	hb := time.Duration(cs.Knob("hb_s", 10)) * time.Second
	n.LongDelays = []time.Duration{reqTO / 10, reqTO - time.Second, reqTO + time.Second, 2 * reqTO}

	// active node
	w.aNode = &simrt.Node{Name: "active"}
	w.aStore = ha.NewInMemorySessionStore()
	aCfg := ha.DefaultSyncConfig()
	aCfg.NodeID, aCfg.Role, aCfg.HeartbeatInterval, aCfg.RequestTimeout = "bng-a", ha.RoleActive, hb, reqTO
	w.active = ha.NewHASyncer(aCfg, w.aStore, zap.NewNop())
	n.Listen(c13Active, w.aNode, w.active.VerifHandler())
	c.S.Join(c.S.Spawn("boot-active", w.aNode, func() { w.active.VerifStartActiveLoops() }))

	// standby node
	w.sbCfg = ha.DefaultSyncConfig()
	w.sbCfg.NodeID, w.sbCfg.Role, w.sbCfg.HeartbeatInterval, w.sbCfg.RequestTimeout = "bng-s", ha.RoleStandby, hb, reqTO
	w.sbCfg.Partner = &ha.PartnerInfo{NodeID: "active", Endpoint: c13Active}

	n.OnRequest = func(from string, req *http.Request) {
		if from == c13Standby && req.URL.Path == c13Stream {
			w.checkSnapshot()
		}
	}
	n.OnHead = func(cn *vhConn) {
		if cn.from != c13Standby || cn.cliNode != w.sbNode {
			return
		}
		switch cn.path {
		case c13Sess:
			if cn.status == http.StatusOK {
				w.lastSess = cn
			}
		case c13Stream:
			if cn.status == http.StatusOK {
				w.curStream, w.curConn = cn.id, cn
				w.streams[cn.id] = cn
				w.gap = false
				c.OpsDone++
				c.S.Probe("stream_connected")
				// a delete that happened before this attach can no longer reach the standby by stream
			}
		}
	}
	n.OnBodyEnd = func(cn *vhConn, err error) {
		if cn.path == c13Stream && cn == w.curConn {
			w.curStream, w.curConn = -1, nil
			w.checkStream(cn.id, false)
		}
	}
	n.OnServe = func(cn *vhConn, req *http.Request) {
		if cn.path == c13Sess && cn.cliNode == w.sbNode {
			w.gap = true // from the snapshot being taken ...
		}
	}
	n.OnFailed = func(from string, req *http.Request, err error) {
		if from == c13Standby {
			w.gap = false // ... until the attempt is abandoned or the stream attaches
		}
	}
	w.startStandby()

	bound := 2*(w.sb.VerifBackoffMax()+w.sbCfg.RequestTimeout) + w.sbCfg.HeartbeatInterval

	exists := func(id string) bool { _, ok := w.aStore.GetSession(id); return ok }
	push := func(typ ha.SyncMessageType, kind, id string) {
		w.nextVer++
		st := &ha.SessionState{SessionID: id, SubscriberID: "sub-" + id, MAC: "02:00:00:00:00:0" + id[len(id)-1:], IP: "10.0.0." + id[len(id)-1:],
			SessionType: "ipoe", State: "active", BytesIn: w.nextVer}
		// optional fields differ from one mutation to the next: a full PPPoE profile, a bare
		// IPoE session, or something in between
		if v := w.nextVer * 2654435761 >> 7; v&1 != 0 {
			st.SessionType, st.Username, st.ISPID = "pppoe", fmt.Sprintf("user%d@isp-a", w.nextVer), "isp-a"
			if v&2 != 0 {
				st.QoSProfile, st.DownloadRateBps, st.UploadRateBps = "premium", 1_000_000_000, 100_000_000
			}
			if v&4 != 0 {
				st.IPv6, st.Gateway = fmt.Sprintf("2001:db8::%x", w.nextVer), "10.0.0.1"
			}
			if v&8 != 0 {
				st.STag, st.CTag, st.VLAN = 100, uint16(200+w.nextVer%50), 7
			}
			st.BytesOut = w.nextVer * 3
		}
		if kind == "put" {
			if err := w.aStore.PutSession(st); err != nil {
				panic(err)
			}
		} else {
			w.aStore.DeleteSession(id)
		}
		err := w.active.PushChange(typ, st)
		if err != nil {
			c.S.Logf("PushChange %s %s: %v", typ, id, err)
			return
		}
		conn := -1
		if w.streamUp() {
			conn = w.curStream
			c.S.Probe("push_while_connected")
		} else if w.lastSess != nil && w.curConn == nil && !w.lastSess.cliNode.Dead() && w.gap {
			c.S.Probe("push_between_full_sync_and_attach")
		} else {
			c.S.Probe("push_while_disconnected")
		}
		why := ""
		if kind == "del" {
			switch {
			case conn >= 0:
				why = "delete-pushed-while-connected" // can only be lost if the stream is cut before delivery
			case w.net.down[vhLinkKey{c13Standby, c13Active}]:
				why = "deleted-during-partition"
			default:
				why = "deleted-while-stream-down"
			}
		}
		if conn >= 0 && conn == w.net.OutlivedBy {
			c.S.Probe("push_on_stream_after_older_handler_teardown")
		}
		w.pushes = append(w.pushes, c13push{c13mut{kind, id, w.nextVer}, c.S.Now(), conn, why})
		c.S.Logf("push #%d %s %s v%d (stream conn %d)", len(w.pushes)-1, typ, id, w.nextVer, conn)
		c.OpsDone++
	}
	// durations chosen around the boundaries: the stream lives one request timeout, the gap
	// before the next full sync is the (reset) back-off
	sleeps := []time.Duration{time.Millisecond, 50 * time.Millisecond, time.Second, reqTO / 2, reqTO + 500*time.Millisecond, reqTO - 200*time.Millisecond, 2*reqTO + 5*time.Second}

	for i, op := range cs.Ops {
		c.OpIdx = i
		if c.Failed() {
			break
		}
		id := fmt.Sprintf("s%d", op.Arg(0)&3)
		switch op.K {
		case "add", "upd":
			switch {
			case exists(id):
				push(ha.SyncTypeUpdate, "put", id)
			case op.K == "add":
				push(ha.SyncTypeAdd, "put", id)
			}
		case "del":
			if exists(id) {
				push(ha.SyncTypeDelete, "del", id)
			}
		case "attachpush":
			// a change made at the very instant a new stream's response head reaches the standby
			// (the standby reports connected from then on)
			before := w.curStream
			deadline := c.S.Now() + reqTO + 40*time.Second
			c.S.WaitUntil(func() bool { return (w.curStream >= 0 && w.curStream != before) || c.S.Now() >= deadline })
			if w.curStream >= 0 && w.curStream != before {
				c.S.Probe("push_at_stream_attach")
				if exists(id) {
					push(ha.SyncTypeUpdate, "put", id)
				} else {
					push(ha.SyncTypeAdd, "put", id)
				}
			}
		case "sleep":
			c.S.Sleep(sleeps[int(op.Arg(len(op.A)-1))%len(sleeps)])
		case "cut":
			n.CutStream(c13Standby, c13Active)
		case "sberr":
			if op.Arg(0) == 1 {
				w.sbFailPut++
			} else {
				w.sbFailDel++
			}
		case "cuthalfopen":
			if w.curConn != nil {
				w.curConn.lazySrv = true
				c.S.Fault("http.halfopen")
			}
			n.CutStream(c13Standby, c13Active)
		case "cutflush":
			if n.ArmCut(c13Standby, c13Active) {
				c.S.Probe("cut_armed")
			}
		case "lose":
			n.LoseNext[[]string{c13Sess, c13Stream}[op.Arg(0)&1]]++
		case "delay":
			n.DelayNext[[]string{c13Sess, c13Stream}[op.Arg(0)&1]] = []time.Duration{reqTO / 20, reqTO - 100*time.Millisecond, reqTO + time.Second}[int(op.Arg(1))%3]
		case "part":
			n.Partition(c13Standby, c13Active, op.Arg(0)&1 == 0, op.Arg(1)&1 == 1)
		case "heal":
			n.Heal(c13Standby, c13Active)
		case "crash":
			if !w.sbNode.Dead() {
				c.S.Fault("crash.process")
				old := w.curStream
				c.S.Kill(w.sbNode)
				n.NodeDown(w.sbNode)
				w.curStream, w.curConn = -1, nil
				w.checkStream(old, false)
				c.S.Sleep([]time.Duration{10 * time.Millisecond, 3 * time.Second, reqTO + 2*time.Second}[int(op.Arg(0))%3])
				w.restarted = true
				w.startStandby()
			}
		}
		c.State(uint64(len(c13Table(w.aStore.GetAllSessions())))<<16 | uint64(len(c13Table(w.sbStore.GetAllSessions())))<<8 | uint64(w.sbGen&15)<<1 | map[bool]uint64{true: 1}[w.streamUp()])
	}
	if c.Failed() {
		return
	}
	// ---- faults stop, the link is up, the active is quiet ---------------------
	c.OpIdx = len(cs.Ops)
	n.Quiet = true
	w.sbFailPut, w.sbFailDel = 0, 0
	for k := range n.LoseNext {
		delete(n.LoseNext, k)
	}
	for k := range n.DelayNext {
		delete(n.DelayNext, k)
	}
	n.HealAll()
	c.S.Sleep(bound)
	if c.Failed() {
		return
	}
	at := c13Table(w.aStore.GetAllSessions())
	st := c13Table(w.sbStore.GetAllSessions())
	c.S.Logf("quiet for %v: active %s standby %s connected=%v syncs=%d", bound, c13Show(at), c13Show(st), w.sb.IsConnected(), w.syncs)
	if d, id := c13Diff(at, st); d != "" {
		c.Fail("converge", "converge/"+d+"/"+w.why(id),
			"after %v with no faults, the link up and the active quiet, standby holds %s but the active holds %s (session %s: %s; %s; full syncs completed: %d)",
			bound, c13Show(st), c13Show(at), id, d, w.why(id), w.syncs)
	} else if id, f := c13Fields(w.aStore.GetAllSessions(), w.sbStore.GetAllSessions()); f != "" {
		c.Fail("converge", "converge/record-differs/"+f,
			"after %v with no faults, the link up and the active quiet, the standby's record of session %s differs from the active's in %s (same version)", bound, id, f)
	}
	if w.streamUp() {
		w.checkStream(w.curStream, true)
	}
	if w.syncs == 0 {
		c.S.Probe("no_full_sync_completed")
	}
}

func init() {
	sim.Register(&sim.Scenario{
		ID:  "C13",
		Gen: c13Gen,
		Run: c13Run,
		Real: []string{"ha.HASyncer active side (handleGetSessions, handleSessionStream, sendSSE, broadcastLoop, broadcastToClients, PushChange)",
			"ha.HASyncer standby side (standbyLoop, performFullSync, connectToStream, handleSSEData, waitReconnect back-off)", "ha.InMemorySessionStore",
			"net/http.Client (timeouts, body wrappers), http.ServeMux routing, encoding/json"},
		Stub:         []string{"TCP/HTTP transport and server (scn.vhNet runs the real handlers in scheduler tasks; no sockets, no net/http server)"},
		Rule:         "cases: 6-32 add/update/delete/sleep ops over <=4 session ids (each mutation with its own mix of optional fields; tables are compared by presence, version and, for equal versions, field by field) on the active with stream cuts (between and inside flushes), lost or late full-sync/stream responses, partition (stall or reset) and heal, half-open streams (the server side learns at its next flush or after a keepalive/reset delay), a refused put/delete of the standby's own store, a change pushed at the instant a stream attaches, stalled goroutines (stall_pm), standby crash+restart, then a fault-free quiet period of 2*(back-off max + request timeout) + heartbeat; non-trivial = >=3 completed operations and (a fault fired or >2 context switches); distinct = distinct (case hash, schedule fingerprint)",
		QuickRuns:    8000,
		ThoroughRuns: 300000,
		Assumptions: []string{"a full synchronisation is complete when performFullSync has returned nil, observed as the standby issuing its stream request",
			"a change counts as pushed while the stream is connected when, at the return of PushChange, the stream response had been handed to the standby and the connection was neither broken nor closed; changes pushed while connected may be lost only as a suffix cut off by a later disconnect",
			"session version = SessionState.BytesIn (unique per mutation)", "a restarted standby starts with an empty in-memory store, as cmd/bng does"},
	})
}
