package scn

import (
	"context"
	"fmt"
	"net"
	"syscall"
	"time"

	"github.com/codelaboratoryltd/bng/pkg/dhcp"
	"github.com/codelaboratoryltd/bng/pkg/ebpf"
	bngradius "github.com/codelaboratoryltd/bng/pkg/radius"
	"github.com/codelaboratoryltd/bng/pkg/simrt"
	"github.com/insomniacslk/dhcp/dhcpv4"
	"go.uber.org/zap"
	"layeh.com/radius"

	"verif/harness/sim"
)

// C02 — DHCP servers never bind one address or prefix to two clients.
//
// DHCPv4 half: the real dhcp.Server packet handler (one handler task per
// delivered message, as server4 does), real Pool/PoolManager, the real lease
// cleanup loop on the virtual clock. The oracle is a binding ledger built only
// from the replies the server wrote to the packet connection.

type fakeConn struct {
	onWrite func(b []byte, to net.Addr)
	// fail, when set, is asked before a datagram is sent: an error makes the send fail (nothing leaves)
	fail func(b []byte) error
}

func (f *fakeConn) ReadFrom(p []byte) (int, net.Addr, error) { select {} }
func (f *fakeConn) WriteTo(p []byte, addr net.Addr) (int, error) {
	if f.fail != nil {
		if err := f.fail(p); err != nil {
			return 0, &net.OpError{Op: "write", Net: "udp", Addr: addr, Err: err}
		}
	}
	f.onWrite(append([]byte(nil), p...), addr)
	return len(p), nil
}
func (f *fakeConn) Close() error                       { return nil }
func (f *fakeConn) LocalAddr() net.Addr                { return &net.UDPAddr{IP: net.IPv4zero, Port: 67} }
func (f *fakeConn) SetDeadline(t time.Time) error      { return nil }
func (f *fakeConn) SetReadDeadline(t time.Time) error  { return nil }
func (f *fakeConn) SetWriteDeadline(t time.Time) error { return nil }

type v4client struct {
	idx     int
	mac     net.HardwareAddr
	relayed bool
	cid     []byte
	giaddr  net.IP
	xid     uint32
	// what the client learned from replies
	offered net.IP
	bound   net.IP
}

type v4bind struct {
	ip    net.IP
	until time.Duration
}

type v4world struct {
	c        *sim.Ctx
	srv      *dhcp.Server
	pool     *dhcp.Pool
	conn     *fakeConn
	clients  []*v4client
	byMAC    map[string]*v4client
	lease    time.Duration
	network  *net.IPNet
	gateway  net.IP
	usable   []net.IP
	offers   map[int]*v4bind // client -> open offer
	bounds   map[int]*v4bind // client -> binding
	declined map[string]bool
	lastReq  map[int]string    // client -> kind of the request being built (becomes reqKind[xid])
	renewOf  map[int]net.IP    // client -> own unexpired address the request being built asks to renew
	reqKind  map[string]string // transaction id -> request kind
	reqRenew map[string]net.IP // transaction id -> address whose renewal was asked
	lastEv   map[string]string // address -> last ledger event (offered, bound, released, declined)
	replies  int
}

func (w *v4world) now() time.Duration { return w.c.S.Now() }

// c02OfferHold: how long an OFFER/ADVERTISE that the client has not taken up
// still counts as "offered to a different client". The property does not say;
// the weakest reading that still covers concurrent and back-to-back exchanges is
// used: one minute (a client that has not sent its REQUEST by then has restarted
// discovery, RFC 2131 4.4.1), never longer than the lease itself.
func c02OfferHold(lease time.Duration) time.Duration {
	if lease < time.Minute {
		return lease
	}
	return time.Minute
}

func (w *v4world) holderOf(ip net.IP, except int) (int, string) {
	for i, b := range w.bounds {
		if i != except && b.ip.Equal(ip) && w.now() < b.until {
			return i, "bound"
		}
	}
	for i, o := range w.offers {
		if i != except && o.ip.Equal(ip) && w.now() < o.until {
			return i, "offered"
		}
	}
	return -1, ""
}

func (w *v4world) special(ip net.IP) string {
	ip4 := ip.To4()
	if ip4 == nil || !w.network.Contains(ip4) {
		return "outside-pool"
	}
	if ip4.Equal(w.gateway) {
		return "gateway"
	}
	if ip4.Equal(w.network.IP.To4()) {
		return "network"
	}
	bc := make(net.IP, 4)
	for i := range bc {
		bc[i] = w.network.IP.To4()[i] | ^w.network.Mask[i]
	}
	if ip4.Equal(bc) {
		return "broadcast"
	}
	return ""
}

func (w *v4world) onReply(b []byte, to net.Addr) {
	c := w.c
	m, err := dhcpv4.FromBytes(b)
	if err != nil {
		c.Fail("reply", "v4/reply-unparsable", "server wrote an unparsable reply: %v", err)
		return
	}
	cl := w.byMAC[m.ClientHWAddr.String()]
	if cl == nil {
		return
	}
	w.replies++
	c.OpsDone++
	ip := m.YourIPAddr.To4()
	lt := m.IPAddressLeaseTime(0)
	xk := m.TransactionID.String()
	kind := w.reqKind[xk]
	renewWant := w.reqRenew[xk]
	c.S.Logf("reply %s to c%d yiaddr=%v lease=%v (%s)", m.MessageType(), cl.idx, ip, lt, kind)
	switch m.MessageType() {
	case dhcpv4.MessageTypeOffer:
		if sp := w.special(ip); sp != "" {
			c.Fail("bad-address", "v4/offer-bad-address/"+sp, "OFFER of %v (%s) to client %d", ip, sp, cl.idx)
		}
		if h, st := w.holderOf(ip, cl.idx); h >= 0 {
			c.Fail("double-binding", "v4/offer-foreign/"+st, "OFFER of %v to client %d while client %d has it %s", ip, cl.idx, h, st)
		}
		if w.declined[ip.String()] {
			c.Fail("declined-reoffered", "v4/offer-declined", "OFFER of %v to client %d although it was declined earlier", ip, cl.idx)
		}
		w.offers[cl.idx] = &v4bind{ip, w.now() + c02OfferHold(lt)}
		w.lastEv[ip.String()] = "offered"
		cl.offered = ip
	case dhcpv4.MessageTypeAck:
		if ip == nil || ip.IsUnspecified() {
			return // answer to INFORM
		}
		if sp := w.special(ip); sp != "" {
			c.Fail("bad-address", "v4/ack-bad-address/"+sp, "ACK of %v (%s) to client %d (request kind %s)", ip, sp, cl.idx, kind)
		}
		if h, st := w.holderOf(ip, cl.idx); h >= 0 {
			c.Fail("double-binding", "v4/ack-foreign/"+st+"/req="+kind, "ACK of %v to client %d (request kind %s) while client %d has it %s", ip, cl.idx, kind, h, st)
		}
		if renewWant != nil && !renewWant.Equal(ip) {
			c.Fail("renew", "v4/renew-changed", "client %d renewing %v was acknowledged %v", cl.idx, renewWant, ip)
		}
		delete(w.offers, cl.idx)
		w.bounds[cl.idx] = &v4bind{ip, w.now() + lt}
		w.lastEv[ip.String()] = "bound"
		cl.bound = ip
	case dhcpv4.MessageTypeNak:
		if renewWant != nil {
			c.Fail("renew", "v4/renew-refused", "client %d renewing its own unexpired binding %v was answered NAK", cl.idx, renewWant)
		}
		delete(w.offers, cl.idx)
	}
}

func c02Gen(r *sim.Rand, tier string) *sim.Case {
	cs := &sim.Case{Knobs: map[string]int64{}}
	cs.Variant = sim.Pick(r, "v4", "v4", "v4", "v6")
	if cs.Variant == "v6" {
		return c02GenV6(r, tier, cs)
	}
	cs.Knobs["usable"] = int64(r.Range(2, 5))
	cs.Knobs["clients"] = int64(r.Range(2, 5))
	cs.Knobs["lease_s"] = int64(sim.Pick(r, 30, 90, 600, 3600))
	cs.Knobs["relaymask"] = int64(r.N(32))
	cs.Knobs["radius"] = int64(r.Weighted(3, 1)) // 1: subscriber authentication over RADIUS is enabled
	cs.Knobs["skipmax"] = int64(sim.Pick(r, 1, 1, 4, 16))
	cs.Knobs["maporder"] = int64(r.N(4))
	n := r.Range(4, 14)
	if tier == "thorough" {
		n = r.Range(4, 30)
	}
	nc := int(cs.Knobs["clients"])
	if r.P(10) {
		// motif: the pool is exhausted, one holder declines its address while a client without
		// any address discovers - both handled at the same time
		u := int(cs.Knobs["usable"])
		if u > 4 {
			u = 4
			cs.Knobs["usable"] = 4
		}
		nc = u + 1
		cs.Knobs["clients"] = int64(nc)
		for i := 0; i < u; i++ {
			cs.Ops = append(cs.Ops, sim.Op{K: "discover", A: []int64{int64(i)}}, sim.Op{K: "request", A: []int64{int64(i), 0, 0, 0, 0}})
		}
		cs.Ops = append(cs.Ops, sim.Op{K: "burst", A: []int64{2}}, sim.Op{K: "decline", A: []int64{int64(r.N(u))}}, sim.Op{K: "discover", A: []int64{int64(u)}})
	}
	if r.P(10) && nc >= 2 {
		// motif: a client renews just before the minute of the lease cleanup, its REQUEST is
		// retransmitted a few seconds later (both are answered), nothing more comes from it; one
		// lease time on, right after the cleanup tick that follows, the other clients ask
		req := func(c int) sim.Op { return sim.Op{K: "request", A: []int64{int64(c), 0, 0, 0, 0}} }
		cs.Ops = append(cs.Ops, sim.Op{K: "discover", A: []int64{0}}, req(0), sim.Op{K: "sleep", A: []int64{7}}, sim.Op{K: "sleep", A: []int64{2}}, req(0))
		for k := r.Range(1, 2); k > 0; k-- {
			cs.Ops = append(cs.Ops, sim.Op{K: "sleep", A: []int64{int64(sim.Pick(r, 0, 6))}})
		}
		cs.Ops = append(cs.Ops, req(0), sim.Op{K: "sleep", A: []int64{2}})
		for c := 1; c < nc; c++ {
			cs.Ops = append(cs.Ops, sim.Op{K: "discover", A: []int64{int64(c)}}, req(c))
		}
		n = r.Range(0, 5)
	}
	for i := 0; i < n; i++ {
		c := int64(r.N(nc))
		if cs.Knobs["radius"] == 1 && r.P(8) {
			cs.Ops = append(cs.Ops, sim.Op{K: "radout", A: []int64{int64(r.Range(1, 2))}})
		}
		if r.P(6) {
			cs.Ops = append(cs.Ops, sim.Op{K: "senderr", A: []int64{1}})
		}
		switch r.Weighted(10, 14, 4, 3, 1, 8, 3) {
		case 0:
			cs.Ops = append(cs.Ops, sim.Op{K: "discover", A: []int64{c}})
		case 1:
			// A[3]=1: a renewal unicast to the server, bypassing the relay agent (no giaddr, no option 82)
			cs.Ops = append(cs.Ops, sim.Op{K: "request", A: []int64{c, int64(r.Weighted(10, 6, 5, 1, 1, 1, 1, 2, 2)), int64(r.N(nc)), int64(r.Weighted(2, 1)), int64(r.Weighted(5, 1))}})
		case 2:
			// A[1]=1: RELEASE is unicast to the server and normally bypasses the relay agent
			cs.Ops = append(cs.Ops, sim.Op{K: "release", A: []int64{c, int64(r.Weighted(1, 1))}})
		case 3:
			cs.Ops = append(cs.Ops, sim.Op{K: "decline", A: []int64{c}})
		case 4:
			cs.Ops = append(cs.Ops, sim.Op{K: "inform", A: []int64{c}})
		case 5:
			cs.Ops = append(cs.Ops, sim.Op{K: "sleep", A: []int64{int64(r.N(8))}})
		case 6:
			cs.Ops = append(cs.Ops, sim.Op{K: "burst", A: []int64{int64(r.Range(2, 3))}})
		}
	}
	if r.P(50) {
		// drain tail: every client tries to obtain a binding, the cleanup tick passes, and they try
		// again - an address that the history put back into circulation while somebody still holds
		// it (or that two tables disagree about) is handed out here
		for round := 0; round < 2; round++ {
			for c := 0; c < nc; c++ {
				cs.Ops = append(cs.Ops, sim.Op{K: "discover", A: []int64{int64(c)}}, sim.Op{K: "request", A: []int64{int64(c), 0, 0, 0}})
			}
			if round == 0 {
				cs.Ops = append(cs.Ops, sim.Op{K: "sleep", A: []int64{int64(sim.Pick(r, 4, 7, 7))}})
				if r.P(50) {
					cs.Ops = append(cs.Ops, sim.Op{K: "sleep", A: []int64{7}})
				}
			}
		}
	}
	return cs
}

func c02Run(c *sim.Ctx) {
	if c.Case.Variant == "v6" {
		c02RunV6(c)
		return
	}
	cs := c.Case
	usable := int(cs.Knob("usable", 3))
	if usable < 1 {
		usable = 1
	}
	if usable > 5 {
		usable = 5
	}
	nc := int(cs.Knob("clients", 3))
	if nc < 1 {
		nc = 1
	}
	lease := time.Duration(cs.Knob("lease_s", 90)) * time.Second
	if lease <= 0 {
		lease = 30 * time.Second
	}
	w := &v4world{c: c, lease: lease, offers: map[int]*v4bind{}, bounds: map[int]*v4bind{}, declined: map[string]bool{},
		lastReq: map[int]string{}, renewOf: map[int]net.IP{}, byMAC: map[string]*v4client{},
		reqKind: map[string]string{}, reqRenew: map[string]net.IP{}, lastEv: map[string]string{}}
	// 10.7.0.0/29: hosts .1-.6, gateway .1, usable .2 ... (.2+usable-1)
	pool, err := dhcp.NewPool(dhcp.PoolConfig{ID: 1, Name: "p", Network: "10.7.0.0/29", Gateway: "10.7.0.1",
		DNSServers: []string{"9.9.9.9"}, LeaseTime: lease, ClientClass: dhcp.ClientClassResidential, ReservedEnd: 5 - usable})
	if err != nil {
		panic(err)
	}
	w.pool = pool
	w.network, w.gateway = pool.Network, pool.Gateway.To4()
	for i := 0; i < usable; i++ {
		w.usable = append(w.usable, net.IPv4(10, 7, 0, byte(2+i)).To4())
	}
	loader, _ := ebpf.NewLoader("sim0", zap.NewNop())
	pm := dhcp.NewPoolManager(loader, zap.NewNop())
	pm.AddPool(pool)
	withRadius := cs.Knob("radius", 0) == 1
	srv, err := dhcp.NewServer(dhcp.ServerConfig{Interface: "sim0", ServerIP: net.IPv4(10, 7, 0, 1), RADIUSAuthEnabled: withRadius}, loader, pm, zap.NewNop())
	if err != nil {
		panic(err)
	}
	w.srv = srv
	radOut := 0 // authentication requests still to be lost (RADIUS outage: the client times out)
	if withRadius {
		// subscriber authentication through the real radius.Client against a simulated server
		rcl, err := bngradius.NewClient(bngradius.ClientConfig{Servers: []bngradius.ServerConfig{{Host: "radius.sim", Port: 1812, Secret: "s3cret"}},
			NASID: "bng", Timeout: 3 * time.Second, Retries: 3}, zap.NewNop())
		if err != nil {
			panic(err)
		}
		srv.SetRADIUSClient(rcl)
		rn := &sim.RadiusNet{S: c.S, Secret: []byte("s3cret"), Latency: 5 * time.Millisecond}
		rn.Decide = func(p *radius.Packet, addr string) int {
			if p.Code == radius.CodeAccessRequest && radOut > 0 {
				radOut--
				return sim.RadDrop
			}
			return sim.RadOK
		}
		rn.Serve = func(p *radius.Packet, addr string, raw []byte) *radius.Packet {
			if p.Code == radius.CodeAccountingRequest {
				return p.Response(radius.CodeAccountingResponse)
			}
			return p.Response(radius.CodeAccessAccept)
		}
		c.S.Radius = rn.Exchange
	}
	sendErr := 0
	w.conn = &fakeConn{onWrite: w.onReply, fail: func(b []byte) error {
		if sendErr > 0 {
			// the reply cannot be sent (no route to the relay, no buffer space): the client learns nothing
			sendErr--
			c.S.Fault("net.send-error")
			if m, err := dhcpv4.FromBytes(b); err == nil && m.MessageType() == dhcpv4.MessageTypeOffer && m.YourIPAddr != nil {
				// the server holds the address as on offer all the same (for the availability clause
				// only: an offer never taken up need not come back)
				w.lastEv[m.YourIPAddr.To4().String()] = "offered"
			}
			return syscall.ENETUNREACH
		}
		return nil
	}}
	for i := 0; i < nc; i++ {
		cl := &v4client{idx: i, mac: net.HardwareAddr{0x02, 0xaa, 0, 0, 0, byte(i + 1)}}
		if cs.Knob("relaymask", 0)&(1<<uint(i)) != 0 {
			cl.relayed = true
			cl.cid = []byte(fmt.Sprintf("olt1/port%d", i))
			cl.giaddr = net.IPv4(10, 7, 0, 1).To4()
		}
		w.clients = append(w.clients, cl)
		w.byMAC[cl.mac.String()] = cl
	}
	ctx, cancel := context.WithCancel(context.Background())
	defer cancel()
	c.S.Spawn("lease-cleanup", nil, func() { srv.VerifRunLeaseCleanup(ctx) })

	direct := false // the next message is unicast to the server, bypassing the relay agent
	build := func(cl *v4client, mt dhcpv4.MessageType, mods ...dhcpv4.Modifier) *dhcpv4.DHCPv4 {
		cl.xid++
		m, err := dhcpv4.New(append([]dhcpv4.Modifier{
			dhcpv4.WithHwAddr(cl.mac), dhcpv4.WithMessageType(mt),
			dhcpv4.WithTransactionID(dhcpv4.TransactionID{byte(cl.idx), 0, byte(cl.xid >> 8), byte(cl.xid)}),
		}, mods...)...)
		if err != nil {
			panic(err)
		}
		if cl.relayed && !direct {
			m.GatewayIPAddr = cl.giaddr
			m.UpdateOption(dhcpv4.OptRelayAgentInfo(dhcpv4.OptGeneric(dhcpv4.GenericOptionCode(1), cl.cid)))
		}
		return m
	}
	peer := &net.UDPAddr{IP: net.IPv4bcast, Port: 68}

	// mk builds the message for an op and applies the op's effect on the ledger
	// that is independent of the server's answer (release/decline end a binding
	// from the moment the message is delivered).
	mk := func(op sim.Op) (*v4client, *dhcpv4.DHCPv4) {
		ci := int(op.Arg(0))
		if ci < 0 || ci >= len(w.clients) {
			return nil, nil
		}
		cl := w.clients[ci]
		switch op.K {
		case "discover":
			w.lastReq[ci] = "discover"
			return cl, build(cl, dhcpv4.MessageTypeDiscover)
		case "inform":
			if cl.bound == nil {
				return nil, nil
			}
			w.lastReq[ci] = "inform"
			m := build(cl, dhcpv4.MessageTypeInform)
			m.ClientIPAddr = cl.bound
			return cl, m
		case "release":
			b := w.bounds[ci]
			if b == nil || w.now() >= b.until {
				return nil, nil // only a live binding can be released
			}
			delete(w.bounds, ci)
			if o := w.offers[ci]; o != nil && o.ip.Equal(b.ip) {
				delete(w.offers, ci) // a re-offer of the same address to its holder ends with the binding
			}
			w.lastEv[b.ip.String()] = "released"
			w.lastReq[ci] = "release"
			direct = op.Arg(1) == 1
			m := build(cl, dhcpv4.MessageTypeRelease)
			direct = false
			m.ClientIPAddr = b.ip
			cl.bound = nil
			return cl, m
		case "decline":
			// protocol-conformant use: a client declines the address it was
			// acknowledged (RFC 2131 3.1 step 5), not a mere offer
			var ip net.IP
			if b := w.bounds[ci]; b != nil && w.now() < b.until {
				ip = b.ip
			}
			if ip == nil {
				return nil, nil
			}
			delete(w.bounds, ci)
			delete(w.offers, ci)
			w.declined[ip.String()] = true
			w.lastEv[ip.String()] = "declined"
			cl.bound, cl.offered = nil, nil
			w.lastReq[ci] = "decline"
			return cl, build(cl, dhcpv4.MessageTypeDecline, dhcpv4.WithOption(dhcpv4.OptRequestedIPAddress(ip)))
		case "request":
			mode := op.Arg(1)
			var ip net.IP
			kind := ""
			useCiaddr := false
			switch mode {
			case 0: // selecting: the address offered to this client
				if cl.offered == nil {
					return nil, nil
				}
				ip, kind = cl.offered, "selecting"
			case 1: // renewing its own binding via ciaddr
				b := w.bounds[ci]
				if b == nil {
					return nil, nil
				}
				ip, kind, useCiaddr = b.ip, "renew", true
				if w.now() < b.until {
					w.renewOf[ci] = b.ip
				}
			case 2: // another client's address
				oi := int(op.Arg(2))
				if oi == ci || oi < 0 || oi >= len(w.clients) {
					return nil, nil
				}
				if b := w.bounds[oi]; b != nil {
					ip = b.ip
				} else if o := w.offers[oi]; o != nil {
					ip = o.ip
				} else {
					return nil, nil
				}
				kind = "foreign"
			case 3:
				ip, kind = w.gateway, "gateway"
			case 4:
				ip, kind = w.network.IP.To4(), "network"
			case 5:
				ip, kind = net.IPv4(10, 7, 0, 7).To4(), "broadcast"
			case 6:
				ip, kind = net.IPv4(10, 8, 0, 2).To4(), "outside"
			case 7: // init-reboot with the last address this client knew
				if cl.bound == nil {
					return nil, nil
				}
				ip, kind = cl.bound, "init-reboot"
				if b := w.bounds[ci]; b != nil && w.now() < b.until && b.ip.Equal(ip) {
					w.renewOf[ci] = b.ip
				}
			default: // an in-pool address nobody offered to this client
				ip, kind = w.usable[int(op.Arg(2))%len(w.usable)], "unoffered"
				if b := w.bounds[ci]; b != nil && b.ip.Equal(ip) {
					kind = "renew-by-option"
					if w.now() < b.until {
						w.renewOf[ci] = b.ip
					}
				}
			}
			w.lastReq[ci] = kind
			var m *dhcpv4.DHCPv4
			if useCiaddr {
				direct = op.Arg(3) == 1
				m = build(cl, dhcpv4.MessageTypeRequest)
				direct = false
				m.ClientIPAddr = ip
			} else {
				m = build(cl, dhcpv4.MessageTypeRequest, dhcpv4.WithOption(dhcpv4.OptRequestedIPAddress(ip)),
					dhcpv4.WithOption(dhcpv4.OptServerIdentifier(net.IPv4(10, 7, 0, 1))))
			}
			return cl, m
		}
		return nil, nil
	}

	deliver := func(ops []sim.Op) {
		var ts []*simrt.Task
		for _, op := range ops {
			cl, m := mk(op)
			if m == nil {
				continue
			}
			c.S.Logf("deliver %s from c%d (%s)", m.MessageType(), cl.idx, w.lastReq[cl.idx])
			w.reqKind[m.TransactionID.String()] = w.lastReq[cl.idx]
			if r := w.renewOf[cl.idx]; r != nil {
				w.reqRenew[m.TransactionID.String()] = r
				delete(w.renewOf, cl.idx)
			}
			msg := m
			ts = append(ts, c.S.Spawn("handler", nil, func() { srv.VerifHandle(w.conn, peer, msg) }))
			if op.K == "request" && op.Arg(1) == 1 && op.Arg(4) == 1 {
				// the network duplicates the renewal: both copies are handled at the same time
				c.S.Fault("net.dup")
				dupm, err := dhcpv4.FromBytes(m.ToBytes())
				if err != nil {
					panic(err)
				}
				ts = append(ts, c.S.Spawn("handler", nil, func() { srv.VerifHandle(w.conn, peer, dupm) }))
			}
		}
		c.S.Join(ts...)
	}

	sleepFor := func(k int64) time.Duration {
		switch k {
		case 0:
			return time.Second
		case 1:
			return lease / 2
		case 2:
			return lease - time.Second
		case 3:
			return lease + time.Second
		case 4:
			return 61 * time.Second
		case 5:
			return lease + 61*time.Second
		default:
			return 5 * time.Second
		}
	}

	ops := cs.Ops
	for i := 0; i < len(ops) && !c.Failed(); i++ {
		c.OpIdx = i
		op := ops[i]
		switch op.K {
		case "senderr":
			sendErr += int(op.Arg(0))
		case "radout":
			// RADIUS outage: the next authentication exchange (all its retransmissions) goes unanswered
			if withRadius {
				radOut += 3 * int(op.Arg(0))
				c.S.Fault("radius.outage")
			}
		case "sleep":
			d := sleepFor(op.Arg(0))
			if op.Arg(0) == 7 {
				// up to the next tick of the once-a-minute lease cleanup: what follows is
				// delivered at the very instant the cleanup runs
				d = time.Minute - w.now()%time.Minute
				c.S.Fault("clock.aligned-with-cleanup-tick")
			}
			if d >= lease {
				c.S.Fault("clock.jump-past-lease-expiry")
			} else if d > 5*time.Second {
				c.S.Fault("clock.jump-inside-lease")
			}
			c.S.Sleep(d)
		case "burst":
			n := int(op.Arg(0))
			// messages of one burst come from distinct clients: two in-flight
			// messages of one client have no defined order for the ledger
			var batch []sim.Op
			seen := map[int64]bool{}
			for j := i + 1; j < len(ops) && len(batch) < n; j++ {
				if ops[j].K == "sleep" || ops[j].K == "burst" || seen[ops[j].Arg(0)] {
					break
				}
				seen[ops[j].Arg(0)] = true
				batch = append(batch, ops[j])
			}
			if len(batch) > 1 {
				c.S.Fault("net.reorder")
			}
			i += len(batch)
			c.OpIdx = i
			deliver(batch)
		default:
			deliver([]sim.Op{op})
		}
		h := uint64(len(w.bounds))<<8 | uint64(len(w.offers))<<4 | uint64(len(w.declined))
		for ci, b := range w.bounds {
			h = h*31 + uint64(ci)<<3 + uint64(b.ip[3])
		}
		c.State(h)
	}
	if c.Failed() {
		return
	}
	radOut = 0  // faults stop: the RADIUS server answers again
	sendErr = 0 // ... and replies can be sent
	// ---- availability after release/expiry (bounded liveness) -------------------
	c.OpIdx = len(ops)
	c.S.Sleep(lease + 125*time.Second) // every binding expired, two cleanup ticks
	// an address is required to be obtainable again if its last ledger event is a
	// binding (now expired) or a release, or if it was never handed out; an
	// address whose last event is an offer that was never taken up, or a
	// decline, is not ("released or expired" does not cover those)
	want := 0
	for _, ip := range w.usable {
		switch w.lastEv[ip.String()] {
		case "offered", "declined":
		default:
			want++
		}
	}
	// the bindings of the run have all expired; fresh clients must be able to get
	// every address that is not declined / still on offer
	w.bounds = map[int]*v4bind{}
	got := map[string]bool{}
	for i := 0; i < len(w.usable)+1 && !c.Failed(); i++ {
		cl := &v4client{idx: 100 + i, mac: net.HardwareAddr{0x02, 0xbb, 0, 0, 1, byte(i + 1)}}
		w.clients = append(w.clients, cl)
		w.byMAC[cl.mac.String()] = cl
		idx := len(w.clients) - 1
		cl.idx = idx
		w.lastReq[idx] = "probe-discover"
		m := build(cl, dhcpv4.MessageTypeDiscover)
		w.reqKind[m.TransactionID.String()] = "probe-discover"
		t := c.S.Spawn("handler", nil, func() { srv.VerifHandle(w.conn, peer, m) })
		c.S.Join(t)
		if cl.offered == nil {
			continue
		}
		w.lastReq[idx] = "probe-selecting"
		m2 := build(cl, dhcpv4.MessageTypeRequest, dhcpv4.WithOption(dhcpv4.OptRequestedIPAddress(cl.offered)),
			dhcpv4.WithOption(dhcpv4.OptServerIdentifier(net.IPv4(10, 7, 0, 1))))
		w.reqKind[m2.TransactionID.String()] = "probe-selecting"
		t = c.S.Spawn("handler", nil, func() { srv.VerifHandle(w.conn, peer, m2) })
		c.S.Join(t)
		if cl.bound != nil {
			got[cl.bound.String()] = true
		}
	}
	if !c.Failed() && len(got) < want {
		c.Fail("not-available-again", "v4/leak", "after every lease expired and the cleanup ran, fresh clients obtained %d distinct addresses, but %d were released, expired or never handed out (usable %d, last events %v)",
			len(got), want, len(w.usable), w.lastEv)
	}
}

func init() {
	sim.Register(&sim.Scenario{
		ID:  "C02",
		Gen: c02Gen,
		Run: c02Run,
		Real: []string{"dhcp.Server.handleDHCP (DISCOVER/REQUEST/RELEASE/DECLINE/INFORM handlers, lease table, circuit-id index)", "dhcp.Server.leaseCleanup on the virtual clock",
			"dhcp.Pool / dhcp.PoolManager", "ebpf.Loader without maps (as without XDP)", "insomniacslk/dhcp encode/decode",
			"dhcpv6.Server.handleMessage with its address and prefix pools"},
		Stub:         []string{"UDP sockets / server4 receive loop (messages are handed to the packet handler directly, one handler task per message)", "clients"},
		Rule:         "cases: 4-30 client messages (DISCOVER, REQUEST in 9 flavours incl. foreign/gateway/network/broadcast/out-of-pool addresses, RELEASE, DECLINE, INFORM; v6: SOLICIT/REQUEST/RENEW/REBIND/CONFIRM/RELEASE/DECLINE) from 2-5 clients, bursts delivered concurrently, sleeps across T1/expiry/cleanup, RELEASE/renew of relayed clients with or without the relay's giaddr+option 82, in half of the v4 runs a drain tail (every client DISCOVER+REQUEST, cleanup tick, again), replies that cannot be sent (WriteTo fails: op senderr), a motif (renewal just before the cleanup minute, retransmitted a few seconds later, the other clients ask one lease time on), v6 over legacy pools or integrated PoolAllocator pools; non-trivial = >=3 replies and (a fault fired or >2 context switches); distinct = distinct (case hash, schedule fingerprint)",
		QuickRuns:    30000,
		ThoroughRuns: 1500000,
		Assumptions: []string{"a client is a MAC (direct) or a MAC with its own circuit-id (relayed); circuit-ids are not shared between MACs", "an OFFER/ADVERTISE counts as 'offered to a different client' until the same client is answered again or one minute has passed (never longer than the lease): the property does not define how long an offer stands, this is the weakest reading that still covers concurrent and back-to-back exchanges",
			"addresses on an offer that was never taken up, and declined addresses, are not required to become available again"},
	})
}
