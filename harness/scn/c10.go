package scn

import (
	"fmt"
	"net"
	"os"
	"path/filepath"
	"sort"
	"strings"
	"time"

	"github.com/anishathalye/porcupine"
	cebpf "github.com/cilium/ebpf"
	"github.com/codelaboratoryltd/bng/pkg/nat"
	"github.com/codelaboratoryltd/bng/pkg/simrt"
	"go.uber.org/zap"
	"go.uber.org/zap/zapcore"
	"go.uber.org/zap/zaptest/observer"

	"verif/harness/sim"
)

// C10 — CGNAT port blocks never overlap and are always attributable.
//
// Real nat.Manager (NewManager without Start: the Go bookkeeping assigns the
// blocks; the subscriber_nat kernel map is installed in a quarter of the runs) and real nat.Logger writing to a file in a
// private directory. 1-3 caller tasks allocate / deallocate / look up over <=6
// subscribers and 1-3 public addresses; ops between two "tick" ops form one
// round that runs at one virtual instant (concurrently if more than one caller
// takes part), the clock advances between rounds.

type c10sample struct {
	q    time.Time
	hold c10state
	nips int
}

type c10world struct {
	c       *sim.Ctx
	cfg     c10cfg
	nsubs   int
	ncl     int
	logmode string
	m       *nat.Manager
	pubs    []net.IP
	stamp   int64
	hist    []porcupine.Operation
	state   c10state
	conc    bool // at least one round had more than one caller
	relSeen bool // a release of a held block has been invoked
	ports   map[int]bool
	samples []c10sample
	outs    []c10out // alloc outputs of the current concurrent round
}

func c10priv(sub int) net.IP { return net.IPv4(10, 0, 0, byte(1+sub)).To4() }
func c10pub(i int) net.IP    { return net.IPv4(203, 0, 113, byte(1+i)).To4() }

func (w *c10world) blk(a *nat.Allocation) c10blk {
	if a == nil {
		return c10blk{}
	}
	b := c10blk{Held: true, IP: -1, Start: int(a.PortStart), End: int(a.PortEnd)}
	for i, p := range w.pubs {
		if p.Equal(a.PublicIP) {
			b.IP = i
		}
	}
	return b
}

// do performs one API call and records it in the history. Only the running
// task executes harness code, so the stamp counter is a total order that
// respects real time.
func (w *c10world) do(client, kind, sub int) c10out {
	in := c10in{Kind: kind, Sub: sub, NIPs: len(w.pubs)}
	w.stamp++
	call := w.stamp
	var out c10out
	switch kind {
	case c10Alloc:
		a, err := w.m.AllocateNAT(c10priv(sub))
		if err != nil {
			out.Err = true
		} else {
			out.B = w.blk(a)
		}
	case c10Dealloc:
		if err := w.m.DeallocateNAT(c10priv(sub)); err != nil {
			out.Err = true
		}
	default:
		out.B = w.blk(w.m.GetAllocation(c10priv(sub)))
	}
	w.stamp++
	w.hist = append(w.hist, porcupine.Operation{ClientId: client, Input: in, Call: call, Output: out, Return: w.stamp})
	if out.B.Held {
		w.ports[out.B.Start], w.ports[out.B.End] = true, true
		w.ports[(out.B.Start+out.B.End)/2] = true
	}
	return out
}

func (w *c10world) snapshot() c10state {
	var st c10state
	for s := 0; s < w.nsubs; s++ {
		st[s] = w.do(w.ncl, c10Get, s).B
	}
	h := uint64(14695981039346656037)
	for s := range st {
		for _, v := range []int{st[s].IP, st[s].Start, st[s].End} {
			h = (h ^ uint64(v+1)) * 1099511628211
		}
	}
	w.c.State(h)
	return st
}

func c10diff(a, b c10state, except int) int {
	for s := range a {
		if s != except && a[s] != b[s] {
			return s
		}
	}
	return -1
}

// seqStep checks one operation executed alone against the model: pre-state,
// output, post-state (both states read through GetAllocation).
func (w *c10world) seqStep(kind, sub int) {
	c := w.c
	pre := w.state
	if kind == c10Dealloc && pre[sub].Held {
		w.relSeen = true
	}
	out := w.do(0, kind, sub)
	c.OpsDone++
	c.S.Logf("c0 %s s%d -> %v err=%v", c10kindName[kind], sub, out.B, out.Err)
	post := w.snapshot()
	w.state = post
	rel := "no-release"
	if w.relSeen {
		rel = "after-release"
	}
	name := c10kindName[kind]
	if o := c10diff(pre, post, sub); o >= 0 {
		c.Fail("others-unchanged", "seq/"+name+"/other-changed", "%s(s%d) changed the block of s%d from %v to %v", name, sub, o, pre[o], post[o])
	}
	switch kind {
	case c10Alloc:
		switch {
		case pre[sub].Held && out.Err:
			c.Fail("same-block", "seq/alloc/error-while-held", "AllocateNAT(s%d) failed although s%d holds %v", sub, sub, pre[sub])
		case pre[sub].Held && out.B != pre[sub]:
			c.Fail("same-block", "seq/alloc/changed-while-held", "AllocateNAT(s%d) returned %v, s%d already holds %v and was not released", sub, out.B, sub, pre[sub])
		case out.Err:
			if post[sub].Held {
				c.Fail("same-block", "seq/alloc/error-but-recorded", "AllocateNAT(s%d) failed but GetAllocation returns %v", sub, post[sub])
			}
			if pre.free(w.cfg, len(w.pubs)) {
				c.S.Probe("alloc_failed_with_free_block")
			} else {
				c.S.Probe("alloc_failed_exhausted")
			}
		case !pre[sub].Held:
			if p := w.cfg.problem(out.B, len(w.pubs)); p != "" {
				c.Fail("block-shape", "seq/alloc/block-"+p, "AllocateNAT(s%d) returned %v; configured size %d range %d-%d", sub, out.B, w.cfg.pps, w.cfg.pstart, w.cfg.pend)
			}
			if o := pre.overlapping(out.B, sub); o >= 0 {
				c.Fail("no-overlap", "seq/alloc/overlap/"+rel, "AllocateNAT(s%d) returned %v which overlaps %v held by s%d", sub, out.B, pre[o], o)
			}
		}
		if !out.Err && post[sub] != out.B {
			c.Fail("same-block", "seq/alloc/not-recorded", "AllocateNAT(s%d) returned %v but GetAllocation returns %v", sub, out.B, post[sub])
		}
	case c10Dealloc:
		if out.Err {
			c.Fail("release", "seq/dealloc/error", "DeallocateNAT(s%d) failed", sub)
		} else if post[sub].Held {
			c.Fail("release", "seq/dealloc/still-held", "after DeallocateNAT(s%d) GetAllocation still returns %v", sub, post[sub])
		}
	default:
		if out.B != pre[sub] || post[sub] != pre[sub] {
			c.Fail("same-block", "seq/get/mismatch", "GetAllocation(s%d) returned %v then %v, s%d holds %v", sub, out.B, post[sub], sub, pre[sub])
		}
	}
}

// free reports whether the model sees room for one more block on some address.
func (st c10state) free(cfg c10cfg, nips int) bool {
	for ip := 0; ip < nips; ip++ {
		for lo := cfg.pstart; lo+cfg.pps-1 <= cfg.pend; lo++ {
			b := c10blk{Held: true, IP: ip, Start: lo, End: lo + cfg.pps - 1}
			o := st.overlapping(b, -1)
			if o < 0 {
				return true
			}
			lo = st[o].End // skip past the obstacle
		}
	}
	return false
}

// concCheck validates the quiescent state after a concurrent round.
func (w *c10world) concCheck() {
	c := w.c
	post := w.snapshot()
	w.state = post
	rel := "no-release"
	if w.relSeen {
		rel = "after-release"
	}
	for _, o := range w.outs {
		if o.B.Held {
			if p := w.cfg.problem(o.B, len(w.pubs)); p != "" {
				c.Fail("block-shape", "conc/block-"+p, "AllocateNAT returned %v; configured size %d range %d-%d", o.B, w.cfg.pps, w.cfg.pstart, w.cfg.pend)
			}
		}
	}
	w.outs = w.outs[:0]
	for a := 0; a < w.nsubs; a++ {
		for b := a + 1; b < w.nsubs; b++ {
			if c10overlap(post[a], post[b]) {
				c.Fail("no-overlap", "conc/overlap/"+rel, "at a quiescent point s%d holds %v and s%d holds %v", a, post[a], b, post[b])
			}
		}
	}
}

func c10Gen(r *sim.Rand, tier string) *sim.Case {
	cs := &sim.Case{Knobs: map[string]int64{}}
	ncl := sim.Pick(r, 1, 1, 2, 2, 3)
	logmode := []string{"bulk-json", "bulk-syslog", "single-json", "single-syslog", "single-csv", "single-nel", "none"}[r.Weighted(3, 2, 2, 1, 1, 1, 2)]
	if ncl == 1 {
		cs.Variant = "seq/" + logmode
	} else {
		cs.Variant = "conc/" + logmode
	}
	pps := sim.Pick(r, 1, 3, 64, 1000, 1024, 4096, 65535)
	end := 65535
	if r.P(30) {
		end = sim.Pick(r, 2047, 40000, 65534)
	}
	nblk := r.Range(1, 4)
	rem := 0
	if pps > 1 && r.P(55) {
		rem = r.Range(1, pps-1)
	}
	start := end + 1 - nblk*pps - rem
	if pps == 65535 {
		start = sim.Pick(r, 1, 1, 1, 2, 1024)
		end = 65535
	}
	if start < 1 {
		start = 1
	}
	cs.Knobs["ncl"] = int64(ncl)
	cs.Knobs["pps"] = int64(pps)
	cs.Knobs["pstart"] = int64(start)
	cs.Knobs["pend"] = int64(end)
	nips := r.Range(1, 3)
	cs.Knobs["nips"] = int64(nips)
	nsubs := r.Range(2, c10maxSubs)
	cs.Knobs["nsubs"] = int64(nsubs)
	cs.Knobs["bufsize"] = int64(sim.Pick(r, 1, 10, 20, 30, 1000))
	cs.Knobs["logstart"] = int64(r.N(2))
	if cs.Knobs["logstart"] == 1 && r.P(50) {
		cs.Knobs["stopalign"] = 1
	}
	if r.P(15) {
		cs.Knobs["rot"] = int64(sim.Pick(r, 300, 600, 1500))
	} else if cs.Knobs["logstart"] == 1 && r.P(30) {
		// log retention: files older than this many hours are removed by the hourly retention pass
		// (no size rotation in these runs, so the only file is the live one, which must survive)
		cs.Knobs["maxage_h"] = int64(sim.Pick(r, 1, 1, 2))
	}
	cs.Knobs["skipmax"] = int64(sim.Pick(r, 1, 1, 2, 4, 16))
	cs.Knobs["maporder"] = int64(r.N(4))
	if r.P(25) {
		cs.Knobs["natmap"] = 1 // the subscriber_nat kernel map is present
	}
	rounds := r.Range(3, 9)
	if tier == "thorough" {
		rounds = r.Range(3, 16)
	}
	total := 0
	pickSub := func(hot int) int64 {
		if r.P(50) {
			return int64(hot)
		}
		return int64(r.N(nsubs))
	}
	kind := func() string { return []string{"alloc", "dealloc", "get"}[r.Weighted(11, 6, 2)] }
	for i := 0; i < rounds && total < 36; i++ {
		hot := r.N(nsubs)
		if cs.Knobs["natmap"] == 1 && r.P(40) {
			cs.Ops = append(cs.Ops, sim.Op{K: "mapdel", A: []int64{int64(hot)}})
		}
		if ncl == 1 {
			for j := r.Range(1, 2); j > 0; j-- {
				cs.Ops = append(cs.Ops, sim.Op{K: kind(), A: []int64{0, int64(r.N(nsubs))}})
				total++
			}
		} else {
			for cl := 0; cl < ncl; cl++ {
				for j := r.Weighted(2, 6, 3); j > 0; j-- {
					cs.Ops = append(cs.Ops, sim.Op{K: kind(), A: []int64{int64(cl), pickSub(hot)}})
					total++
				}
			}
		}
		cs.Ops = append(cs.Ops, sim.Op{K: "tick", A: []int64{int64(r.Weighted(0, 6, 2, 1, 0, 0, 1))}})
		if cs.Knobs["maxage_h"] > 0 && cs.Knobs["idled"] == 0 && r.P(35) {
			cs.Ops = append(cs.Ops, sim.Op{K: "idle"}) // at most one per run: it costs 2-3 simulated hours of 5 s flush ticks
			cs.Knobs["idled"] = 1
		}
		if nips < 3 && r.P(8) {
			cs.Ops = append(cs.Ops, sim.Op{K: "addip"})
			nips++
		}
	}
	return cs
}

func c10Run(c *sim.Ctx) {
	cs := c.Case
	w := &c10world{c: c, ports: map[int]bool{}}
	w.cfg = c10cfg{pps: int(cs.Knob("pps", 1024)), pstart: int(cs.Knob("pstart", 1024)), pend: int(cs.Knob("pend", 65535))}
	w.nsubs = int(cs.Knob("nsubs", 4))
	if w.nsubs < 1 || w.nsubs > c10maxSubs {
		w.nsubs = c10maxSubs
	}
	w.ncl = int(cs.Knob("ncl", 1))
	if w.ncl < 1 || w.ncl > 3 {
		w.ncl = 1
	}
	w.logmode = "none"
	if i := strings.IndexByte(cs.Variant, '/'); i >= 0 {
		w.logmode = cs.Variant[i+1:]
	}
	w.ports[w.cfg.pstart], w.ports[w.cfg.pend] = true, true

	m, err := nat.NewManager(nat.ManagerConfig{Interface: "sim0", PortsPerSubscriber: w.cfg.pps,
		PortRangeStart: w.cfg.pstart, PortRangeEnd: w.cfg.pend, EnableLogging: w.logmode != "none",
		BulkLoggingEnabled: strings.HasPrefix(w.logmode, "bulk")}, zap.NewNop())
	if err != nil {
		panic(err)
	}
	w.m = m
	// data plane: in some runs the subscriber_nat kernel map is present (created by the harness with
	// the key/value sizes the manager marshals); "mapdel" removes a subscriber's entry out of band,
	// so that the manager's own delete of it fails (ENOENT) while inserts still work
	var natMap *cebpf.Map
	if cs.Knob("natmap", 0) == 1 {
		mp, err := cebpf.NewMap(&cebpf.MapSpec{Name: "vf_subnat", Type: cebpf.Hash, KeySize: 4, ValueSize: uint32(nat.VerifSubscriberNATValueSize()), MaxEntries: 64})
		if err != nil {
			c.S.Probe("kernel_maps_unavailable")
		} else {
			natMap = mp
			defer mp.Close()
			m.VerifSetSubscriberNATMap(mp)
		}
	}
	var dir string
	var lg *nat.Logger
	const base = "nat.log"
	var diag *observer.ObservedLogs
	if w.logmode != "none" {
		dir, err = os.MkdirTemp("", "verif-c10-")
		if err != nil {
			panic(err)
		}
		defer os.RemoveAll(dir)
		format := nat.LogFormat(w.logmode[strings.IndexByte(w.logmode, '-')+1:])
		lg, err = nat.NewLogger(nat.LoggerConfig{Enabled: true, FilePath: filepath.Join(dir, base), Format: format,
			BufferSize: int(cs.Knob("bufsize", 1000)), BulkLogging: strings.HasPrefix(w.logmode, "bulk"),
			MaxFileSize: cs.Knob("rot", 0), MaxAge: time.Duration(cs.Knob("maxage_h", 0)) * time.Hour}, zap.New(func() zapcore.Core {
			core, obs := observer.New(zapcore.ErrorLevel)
			diag = obs
			return core
		}()))
		if err != nil {
			panic(err)
		}
		if cs.Knob("logstart", 0) == 1 {
			lg.Start()
		}
		m.SetLogger(lg)
	}
	addIP := func() {
		if len(w.pubs) >= 3 {
			return
		}
		ip := c10pub(len(w.pubs))
		if err := m.AddPublicIP(ip); err != nil {
			panic(err)
		}
		w.pubs = append(w.pubs, ip)
	}
	for i := int(cs.Knob("nips", 1)); i > 0; i-- {
		addIP()
	}
	w.state = w.snapshot()

	type pendOp struct{ idx, kind, client, sub int }
	var pend []pendOp
	flush := func() {
		if len(pend) == 0 || c.Failed() {
			pend = nil
			return
		}
		byClient := map[int][]pendOp{}
		var order []int
		for _, p := range pend {
			if _, ok := byClient[p.client]; !ok {
				order = append(order, p.client)
			}
			byClient[p.client] = append(byClient[p.client], p)
		}
		sort.Ints(order)
		if len(order) == 1 {
			for _, p := range pend {
				if c.Failed() {
					break
				}
				c.OpIdx = p.idx
				w.seqStep(p.kind, p.sub)
			}
			pend = nil
			return
		}
		w.conc = true
		c.OpIdx = pend[len(pend)-1].idx
		var tasks []*simrt.Task
		for _, cl := range order {
			ops := byClient[cl]
			tasks = append(tasks, c.S.Spawn(fmt.Sprintf("caller%d", cl), nil, func() {
				for _, p := range ops {
					if p.kind == c10Dealloc {
						w.relSeen = true
					}
					out := w.do(p.client, p.kind, p.sub)
					c.OpsDone++
					if p.kind == c10Alloc {
						w.outs = append(w.outs, out)
					}
					c.S.Logf("c%d %s s%d -> %v err=%v", p.client, c10kindName[p.kind], p.sub, out.B, out.Err)
				}
			}))
		}
		c.S.Join(tasks...)
		w.concCheck()
		pend = nil
	}

	for i, op := range cs.Ops {
		if c.Failed() {
			break
		}
		c.OpIdx = i
		switch op.K {
		case "alloc", "dealloc", "get":
			k := map[string]int{"alloc": c10Alloc, "dealloc": c10Dealloc, "get": c10Get}[op.K]
			cl := int(op.Arg(0)) % w.ncl
			sub := int(op.Arg(1)) % w.nsubs
			if cl < 0 || sub < 0 {
				continue
			}
			pend = append(pend, pendOp{i, k, cl, sub})
		case "tick":
			flush()
			secs := op.Arg(0)
			if secs <= 0 || secs > 600 || c.Failed() {
				continue
			}
			// a point strictly between two operation instants
			c.S.Sleep(500 * time.Millisecond)
			w.samples = append(w.samples, c10sample{q: time.Now(), hold: w.snapshot(), nips: len(w.pubs)})
			c.S.Sleep(time.Duration(secs)*time.Second - 500*time.Millisecond)
		case "addip":
			flush()
			addIP()
		case "mapdel":
			// (not flushed: takes effect before the round's operations run)
			if natMap != nil {
				sub := int(op.Arg(0)) % w.nsubs
				if sub >= 0 {
					key := nat.VerifPrivKey(c10priv(sub))
					if natMap.Delete(&key) == nil {
						c.S.Fault("kmap.entry-removed-out-of-band")
					}
				}
			}
		case "idle":
			// a quiet period longer than the log retention age: the hourly retention pass runs over a
			// log directory whose files were last written before the cut-off
			flush()
			ma := time.Duration(cs.Knob("maxage_h", 0)) * time.Hour
			if ma <= 0 || dir == "" || lg == nil || c.Failed() {
				continue
			}
			lg.Flush()
			if es, err := os.ReadDir(dir); err == nil {
				for _, e := range es {
					// the files live on the real file system; give them the simulated "last written" time
					os.Chtimes(filepath.Join(dir, e.Name()), time.Now(), time.Now())
				}
			}
			c.S.Fault("clock.jump-past-log-retention")
			c.S.Sleep(ma + time.Hour + time.Minute)
		}
	}
	flush()
	c.OpIdx = len(cs.Ops)
	if !c.Failed() {
		c.S.Sleep(500 * time.Millisecond)
		w.samples = append(w.samples, c10sample{q: time.Now(), hold: w.snapshot(), nips: len(w.pubs)})
	}
	if cs.Knob("stopalign", 0) == 1 {
		// shut down at an instant at which the logger's 5 s flush ticker is due
		now := c.S.Now()
		c.S.Sleep((now/(5*time.Second)+1)*5*time.Second - now)
	}
	// shutdown: flushes and closes the log
	m.Stop()
	c.S.Sleep(10 * time.Millisecond) // lets the logger's flush loop (if started) observe the stop
	if c.Failed() {
		return
	}
	if w.conc {
		switch cls := c10lin(w.cfg, w.hist, 400000); cls {
		case "":
		case "unknown":
			c.S.Probe("lin_unknown")
		default:
			var b strings.Builder
			for _, o := range w.hist {
				if o.ClientId == w.ncl && len(w.hist) > 24 {
					continue // quiescent reads by the driver
				}
				in, out := o.Input.(c10in), o.Output.(c10out)
				fmt.Fprintf(&b, " [%d..%d c%d %s(s%d)->%v err=%v]", o.Call, o.Return, o.ClientId, c10kindName[in.Kind], in.Sub, out.B, out.Err)
			}
			c.Fail("linearizable", "lin/"+cls, "the concurrent history of %d operations is not linearizable against the interval model (class %s):%s", len(w.hist), cls, b.String())
		}
		c.S.Probe("lin_checked")
	}
	if w.logmode == "none" || c.Failed() {
		return
	}
	if diag != nil && diag.Len() > 0 {
		// the logger itself reported that it could not write records
		e := diag.All()[0]
		phase := "running"
		if cs.Knob("stopalign", 0) == 1 {
			phase = "stop-at-flush-tick"
		}
		detail := e.Message
		for _, f := range e.Context {
			if f.Key == "error" && f.Interface != nil {
				detail += ": " + strings.ReplaceAll(fmt.Sprint(f.Interface), dir, "<dir>")
			}
		}
		c.Fail("attributable", "log/write-failed/"+phase, "%d log records were dropped by the logger (%s); the flushed log is incomplete", diag.Len(), detail)
		return
	}
	w.attribution(dir, base)
}

// attribution: the flushed log alone must map (address, port, time) to the holder.
func (w *c10world) attribution(dir, base string) {
	c := w.c
	lines, files, err := c10readLogDir(dir, base)
	if err != nil {
		panic(err)
	}
	suffix := ""
	mode := "seq"
	if w.ncl > 1 {
		mode = "conc"
	}
	if files > 1 {
		suffix = "/rotated"
		c.S.Probe("log_rotated")
	}
	var recs []c10rec
	noTime := 0
	for i, l := range lines {
		r, relevant, ok := c10parseLine(l)
		if !ok {
			c.Fail("attributable", "attrib/format/"+w.logmode+"/unparsable", "log line %d cannot be parsed as an assignment/release record: %q", i+1, l)
			return
		}
		if !relevant {
			continue
		}
		if !r.hasT {
			noTime++
		}
		r.seq = i
		recs = append(recs, r)
	}
	if noTime > 0 {
		c.Fail("attributable", "attrib/format/"+w.logmode+"/no-timestamp", "%d of %d assignment/release records carry no time, e.g. %q", noTime, len(recs), lines[recs[0].seq])
		return
	}
	ivs, unmatched := c10resolve(recs, w.cfg.pps)
	if unmatched > 0 {
		c.S.Probe("log_release_unmatched")
	}
	var ports []int
	for p := range w.ports {
		ports = append(ports, p)
	}
	sort.Ints(ports)
	checked := 0
	for _, sm := range w.samples {
		for ip := 0; ip < sm.nips; ip++ {
			for _, port := range ports {
				var want []string
				for s := 0; s < w.nsubs; s++ {
					b := sm.hold[s]
					if b.Held && b.IP == ip && b.Start <= port && port <= b.End {
						want = append(want, c10priv(s).String())
					}
				}
				if len(want) > 1 {
					continue // the ground truth itself is ambiguous (reported as overlap)
				}
				got := c10query(ivs, c10pub(ip).String(), port, sm.q)
				checked++
				kind := ""
				switch {
				case len(want) == 1 && len(got) == 0:
					kind = "none"
				case len(want) == 1 && len(got) > 1:
					kind = "multiple"
				case len(want) == 1 && got[0] != want[0]:
					kind = "wrong"
				case len(want) == 0 && len(got) > 0:
					kind = "stale"
				}
				if kind != "" {
					fp := "attrib/" + mode + "/" + kind
					if suffix != "" {
						// after a rotation any lost record can surface as any kind
						fp = "attrib/" + mode + suffix
					}
					c.Fail("attributable", fp,
						"(%s) the log attributes %s port %d at +%v to %v, the holder at that time was %v (%d records in %d file(s))",
						kind, c10pub(ip), port, sm.q.Sub(w.samples[0].q), got, want, len(recs), files)
				}
			}
		}
	}
	if checked > 0 {
		c.S.Probe("attrib_points_checked")
	}
}

func init() {
	sim.Register(&sim.Scenario{
		ID:  "C10",
		Gen: c10Gen,
		Run: c10Run,
		Real: []string{"nat.Manager (NewManager without Start: eBPF maps absent) AllocateNAT/DeallocateNAT/GetAllocation/AddPublicIP/Stop, statement-level yields",
			"nat.Logger LogAllocation/LogDeallocation, bulk and per-allocation records in json/syslog/csv/nel, buffer flush, flush loop, size rotation, real file in a private temp directory"},
		Stub: []string{"eBPF TC programs and the NAT maps other than subscriber_nat (absent)", "callers (harness tasks)", "log reader / compliance resolver (harness, written from the log formats)"},
		Rule: "cases: 3-16 rounds of alloc/dealloc/get by 1-3 callers over 2-6 subscribers and 1-3 public addresses, ports-per-subscriber in {1,3,64,1000,1024,4096,65535}, 0-4 blocks per address, ranges ending at 65535/65534/40000/2047 incl. non-dividing sizes; a round runs at one virtual instant, whole seconds pass between rounds; non-trivial = >=3 completed operations and (a fault fired or >2 context switches); distinct = distinct (case hash, schedule fingerprint)",
		QuickRuns:    15000,
		ThoroughRuns: 1500000,
		Assumptions: []string{"a subscriber is identified by its private address", "AllocateNAT may fail at any time (no liveness demanded); a failed call changes nothing",
			"in a tenth of the logging runs a log retention age of 1-2 h with an idle period longer than it (the hourly retention pass runs; log files carry virtual mtimes)", "the resolver knows the configured block size when a record carries only the first port", "attribution is queried only at instants at least 0.5 s away from any allocation or release (second-resolution timestamps are accepted)",
			"linearizability check capped by a model-step budget (virtual time cannot time out a computation); over-budget histories are counted as unknown"},
	})
}
