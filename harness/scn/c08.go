package scn

import (
	"syscall"
	"encoding/json"
	"fmt"
	"net"
	"strings"
	"time"

	bngradius "github.com/codelaboratoryltd/bng/pkg/radius"
	"github.com/codelaboratoryltd/bng/pkg/simrt"
	"go.uber.org/zap"
	"layeh.com/radius"
	"layeh.com/radius/rfc2865"
	"layeh.com/radius/rfc2866"
	"layeh.com/radius/rfc2869"

	"verif/harness/sim"
)

// C08 — every started session is accounted to a Stop, across outages and crashes.
//
// Real AccountingManager + radius.Client (all their goroutines are scheduler
// tasks) over a simulated disk and a simulated RADIUS server. Faults: request
// loss / reply loss within the retry budget, process crash at any disk or
// network step (including inside WriteFile), graceful stop, restart from the
// surviving directory.

type c08rec struct {
	seq      int
	typ      int
	sid      string
	user     string
	calling  string
	ip       net.IP
	in, out  uint64
	cause    uint32
	at       time.Duration
	epoch    int // crash epoch when the server accepted it
	acked    bool
	authOK   bool
	hasStart bool // a Start for sid had been accepted before this record
}

type c08sess struct {
	sid       string
	user      string
	mac       net.HardwareAddr
	ip        net.IP
	in, out   uint64
	handed    map[[2]uint64]bool // counter pairs the fetcher handed out
	startCall bool               // StartSession was invoked
	startRet  bool               // ... and returned nil
	stopCall  bool
	stopRet   bool
	// classification of what happened around crashes
	stopInFlightAtCrash bool
	stopRetBeforeCrash  bool
	stopRetBeforeFullDisk bool // StopSession had returned when the process shut down with the disk full
	activeAtFullDisk      bool // the session was active (drained) at that shutdown
	orphanBeforeFullDisk  bool // the session had been recovered as an orphan by the process that shut down with the disk full
	fullDiskEpoch         int  // crash count at that shutdown (a later crash is a cause of its own)
	activeAtCrash       bool
	startInFlightAtCrash bool
	stopAckEpoch        int // crash epoch at which a Stop ack reached the client (-1 none)
	stopAckAt           time.Duration
	stopAckGen          int // graceful-restart generation at the ack
}

type c08world struct {
	c        *sim.Ctx
	fs       *sim.FS
	rad      *sim.RadiusNet
	recs     []*c08rec
	sess     map[string]*c08sess
	order    []string
	epoch    int // number of crashes so far
	stopTimedOut bool // a graceful stop hit its (short, configured) shutdown timeout
	gen      int // number of graceful restarts so far
	fails    map[string]int
	maxFail  int
	downTill time.Duration
	ackLoss  int
	slow     int // the next replies arrive late (inside the client timeout)
	crashOn  bool
	crashPm  int // per-mille crash probability per I/O step
	crashes  int
	maxCrash int
	node     *simrt.Node
	mgr      *bngradius.AccountingManager
	dir      string
	quiet    bool // fault-free tail: no more faults of any kind
}

// The accounting clauses of C08 also apply to the components that send
// accounting records themselves (pkg/dhcp/server.go, pkg/pppoe/teardown.go, both
// anchored by C08): a share of the runs drives the C16 composites and keeps
// only their accounting verdicts (exactly one Stop per started session, none
// for a session that was not started).
func c08ViaC16(r *sim.Rand, tier string) *sim.Case {
	name := sim.Pick(r, "dhcp4", "pppoe-teardown")
	v := c16Variants[name]
	if v == nil {
		return nil
	}
	cs := &sim.Case{Knobs: map[string]int64{}}
	cs.Variant = "c16:" + name
	cs.Knobs["skipmax"] = int64(sim.Pick(r, 1, 1, 2, 8))
	cs.Knobs["maporder"] = int64(r.N(4))
	v.gen(r, tier, cs)
	if name == "dhcp4" {
		cs.Knobs["radius"] = 1
	}
	return cs
}

func c08Gen(r *sim.Rand, tier string) *sim.Case {
	if r.P(15) {
		if cs := c08ViaC16(r, tier); cs != nil {
			return cs
		}
	}
	cs := &sim.Case{Knobs: map[string]int64{}}
	cs.Variant = sim.Pick(r, "crash", "crash", "outage", "mixed", "mixed", "calm", "downend")
	cs.Knobs["maxretries"] = int64(r.Range(3, 6))
	cs.Knobs["base_ms"] = int64(sim.Pick(r, 500, 1000, 2000))
	cs.Knobs["maxdelay_s"] = int64(sim.Pick(r, 4, 8, 30))
	cs.Knobs["interim"] = int64(r.N(2))
	if r.P(25) {
		cs.Knobs["shutdown_s"] = int64(sim.Pick(r, 2, 5, 10))
	}
	cs.Knobs["skipmax"] = int64(sim.Pick(r, 1, 2, 8, 32))
	cs.Knobs["maporder"] = int64(r.N(4))
	switch cs.Variant {
	case "crash", "mixed":
		cs.Knobs["f_crash_pm"] = int64(sim.Pick(r, 5, 10, 20, 40))
		cs.Knobs["f_maxcrash"] = int64(r.Range(1, 2))
	}
	nsess := r.Range(1, 3)
	n := r.Range(4, 12)
	if tier == "thorough" {
		n = r.Range(4, 24)
	}
	if r.P(8) {
		// motif: an Interim-Update is still outstanding (its first answer was lost) when the
		// session is stopped; the process later restarts gracefully
		cs.Knobs["interim"] = 1
		cs.Ops = append(cs.Ops, sim.Op{K: "start", A: []int64{0}})
		if r.P(50) {
			cs.Ops = append(cs.Ops, sim.Op{K: "cnt", A: []int64{0, int64(r.U64() >> 1), 0x100000001}})
		}
		cs.Ops = append(cs.Ops, sim.Op{K: "sleep", A: []int64{11000}})
		if r.P(70) {
			cs.Ops = append(cs.Ops, sim.Op{K: "slow", A: []int64{1}})
		} else {
			cs.Ops = append(cs.Ops, sim.Op{K: "ackloss", A: []int64{int64(r.Range(1, 2))}})
		}
		for _, ms := range [][]int64{{5000, 1500, 1500, 1000, 100}, {5000, 5000, 100}, {11000}, {11000, 100}, {11000, 1500}}[r.N(5)] {
			cs.Ops = append(cs.Ops, sim.Op{K: "sleep", A: []int64{ms}})
		}
		cs.Ops = append(cs.Ops, sim.Op{K: "stop", A: []int64{0, int64(r.Range(1, 18))}}, sim.Op{K: "sleep", A: []int64{int64(sim.Pick(r, 5000, 11000))}},
			sim.Op{K: "gstop", A: []int64{int64(sim.Pick(r, 0, 1000)), 0}})
		n = r.Range(0, 4)
	}
	started := map[int]bool{}
	vals := []int64{0, 1, 0xFFFFFFFF, 0x100000000, 0x100000001, 0x7FFFFFFFFFFFFFFF, 0x1FFFFFFFF, 0xFFFFFFFF00000000 >> 1}
	for i := 0; i < n; i++ {
		s := int64(r.N(nsess))
		w := []int{6, 5, 3, 3, 0, 0, 1, 1}
		if cs.Variant == "outage" || cs.Variant == "mixed" || cs.Variant == "downend" {
			w[4], w[5] = 3, 2
		}
		switch r.Weighted(w...) {
		case 0:
			cs.Ops = append(cs.Ops, sim.Op{K: "start", A: []int64{s}})
			started[int(s)] = true
		case 1:
			cs.Ops = append(cs.Ops, sim.Op{K: "stop", A: []int64{s, int64(r.Range(1, 18))}})
		case 2:
			a, b := sim.Pick(r, vals...), sim.Pick(r, vals...)
			if r.P(40) {
				a = int64(r.U64() >> 1)
			}
			cs.Ops = append(cs.Ops, sim.Op{K: "cnt", A: []int64{s, a, b}})
		case 3:
			cs.Ops = append(cs.Ops, sim.Op{K: "sleep", A: []int64{int64(sim.Pick(r, 100, 1000, 1500, 5000, 11000, 31000))}})
		case 4:
			cs.Ops = append(cs.Ops, sim.Op{K: "outage", A: []int64{int64(sim.Pick(r, 1000, 4000, 9000, 20000))}})
		case 5:
			if r.P(35) {
				cs.Ops = append(cs.Ops, sim.Op{K: "slow", A: []int64{int64(r.Range(1, 2))}})
			} else {
				cs.Ops = append(cs.Ops, sim.Op{K: "ackloss", A: []int64{int64(r.Range(1, 2))}})
			}
		case 6:
			cs.Ops = append(cs.Ops, sim.Op{K: "gstop", A: []int64{int64(sim.Pick(r, 0, 1000, 30000)), int64(r.Weighted(3, 1))}})
		case 7:
			cs.Ops = append(cs.Ops, sim.Op{K: "par"})
		}
	}
	return cs
}

func (w *c08world) session(i int64) *c08sess {
	sid := fmt.Sprintf("sess-%d", i)
	if s, ok := w.sess[sid]; ok {
		return s
	}
	s := &c08sess{sid: sid, user: fmt.Sprintf("user%d@isp", i), mac: net.HardwareAddr{0x02, 0, 0, 0, 0x10, byte(i + 1)},
		ip: net.IPv4(10, 9, 0, byte(i+10)).To4(), handed: map[[2]uint64]bool{{0, 0}: true}, stopAckEpoch: -1}
	w.sess[sid] = s
	w.order = append(w.order, sid)
	return s
}

func normMAC(s string) string {
	s = strings.ToLower(s)
	return strings.NewReplacer("-", "", ":", "", ".", "").Replace(s)
}

// serve is the RADIUS server: it records what it accepts.
func (w *c08world) serve(p *radius.Packet, addr string, raw []byte) *radius.Packet {
	c := w.c
	if p.Code != radius.CodeAccountingRequest {
		return p.Response(radius.CodeAccessReject)
	}
	rec := &c08rec{seq: len(w.recs), at: c.S.Now(), epoch: w.epoch}
	rec.authOK = radius.IsAuthenticRequest(raw, w.rad.Secret)
	rec.typ = int(rfc2866.AcctStatusType_Get(p))
	rec.sid = rfc2866.AcctSessionID_GetString(p)
	rec.user = rfc2865.UserName_GetString(p)
	rec.calling = rfc2865.CallingStationID_GetString(p)
	rec.ip = rfc2865.FramedIPAddress_Get(p)
	rec.in = uint64(rfc2866.AcctInputOctets_Get(p)) | uint64(rfc2869.AcctInputGigawords_Get(p))<<32
	rec.out = uint64(rfc2866.AcctOutputOctets_Get(p)) | uint64(rfc2869.AcctOutputGigawords_Get(p))<<32
	rec.cause = uint32(rfc2866.AcctTerminateCause_Get(p))
	for _, r := range w.recs {
		if r.sid == rec.sid && r.typ == 1 {
			rec.hasStart = true
		}
	}
	w.recs = append(w.recs, rec)
	c.S.Logf("server accepted type=%d sid=%s in=%d out=%d", rec.typ, rec.sid, rec.in, rec.out)
	c.OpsDone++
	if !rec.authOK {
		c.Fail("fields", "fields/authenticator", "accounting request for %s has a bad Request Authenticator", rec.sid)
	}
	s := w.sess[rec.sid]
	if s == nil || !s.startCall {
		if rec.typ == 2 {
			c.Fail("stop-unstarted", "stop-unstarted", "Accounting-Stop accepted for session %q which was never started", rec.sid)
		}
		return p.Response(radius.CodeAccountingResponse)
	}
	// identifiers
	if rec.user != s.user {
		c.Fail("fields", "fields/user-name", "record for %s carries User-Name %q, session has %q", s.sid, rec.user, s.user)
	}
	if normMAC(rec.calling) != normMAC(s.mac.String()) {
		c.Fail("fields", "fields/calling-station-id", "record for %s carries Calling-Station-Id %q, session MAC %s", s.sid, rec.calling, s.mac)
	}
	if !rec.ip.Equal(s.ip) {
		c.Fail("fields", "fields/framed-ip", "record for %s carries Framed-IP %v, session has %v", s.sid, rec.ip, s.ip)
	}
	if rec.typ == 2 || rec.typ == 3 {
		if !s.handed[[2]uint64{rec.in, rec.out}] {
			c.Fail("fields", fmt.Sprintf("fields/octets/type%d", rec.typ), "record type %d for %s reports octets in=%d out=%d, which the counter source never reported (handed out: %v)",
				rec.typ, s.sid, rec.in, rec.out, keys2(s.handed))
		}
	}
	if rec.typ == 2 {
		if !rec.hasStart {
			kind := "nocrash"
			if w.epoch > 0 {
				kind = "aftercrash"
			}
			c.Fail("stop-before-start", "stop-before-start/"+kind, "Accounting-Stop for %s accepted at %v before any Accounting-Start for it was accepted", s.sid, rec.at)
		}
		// "absent a crash": only histories in which no crash has happened yet
		// (a graceful stop that ran into its shutdown timeout abandoned work in flight, as a crash does)
		if s.stopAckEpoch == w.epoch && w.epoch == 0 && !w.stopTimedOut {
			kind := "same-run"
			if s.stopAckGen != w.gen {
				kind = "after-graceful-restart"
			}
			c.Fail("dup-stop", "dup-stop/"+kind, "Accounting-Stop for %s sent again at %v although the client received the acknowledgement at %v and no crash happened since", s.sid, rec.at, s.stopAckAt)
		}
	}
	return p.Response(radius.CodeAccountingResponse)
}

func keys2(m map[[2]uint64]bool) string {
	var b strings.Builder
	for k := range m {
		fmt.Fprintf(&b, "(%d,%d)", k[0], k[1])
	}
	return b.String()
}

func (w *c08world) decide(p *radius.Packet, addr string) int {
	if w.quiet {
		return sim.RadOK
	}
	key := fmt.Sprintf("%s/%d", rfc2866.AcctSessionID_GetString(p), rfc2866.AcctStatusType_Get(p))
	fail := sim.RadOK
	if w.c.S.Now() < w.downTill {
		fail = sim.RadDrop
	} else if w.ackLoss > 0 {
		w.ackLoss--
		fail = sim.RadAckLoss
	} else if w.slow > 0 {
		w.slow--
		return sim.RadSlow // not a failure: the answer arrives, late
	}
	if fail != sim.RadOK {
		// stay inside the retry budget: a record never sees MaxRetries failures
		if w.fails[key] >= w.maxFail {
			w.c.S.Probe("budget_guard_forced_success")
			return sim.RadOK
		}
		w.fails[key]++
	}
	return fail
}

func (w *c08world) crashStep(kind string) bool {
	if !w.crashOn || w.quiet || w.crashes >= w.maxCrash {
		return false
	}
	if w.c.S.Choose(simrt.StCrash, 1000) < w.crashPm {
		w.crashes++
		w.c.S.Fault("crash.process")
		w.c.S.Probe("crash_at_" + kind)
		return true
	}
	return false
}

func (w *c08world) startManager() {
	c := w.c
	w.node = &simrt.Node{Name: fmt.Sprintf("acct-%d-%d", w.epoch, w.gen)}
	node := w.node
	cs := c.Case
	t := c.S.Spawn("boot", node, func() {
		cl, err := bngradius.NewClient(bngradius.ClientConfig{
			Servers: []bngradius.ServerConfig{{Host: "radius.sim", Port: 1812, Secret: string(w.rad.Secret)}},
			NASID:   "bng-sim", Timeout: 3 * time.Second, Retries: 3,
		}, zap.NewNop())
		if err != nil {
			panic(err)
		}
		cfg := bngradius.DefaultAccountingConfig()
		cfg.MaxRetries = int(cs.Knob("maxretries", 4))
		cfg.RetryBaseDelay = time.Duration(cs.Knob("base_ms", 1000)) * time.Millisecond
		cfg.RetryMaxDelay = time.Duration(cs.Knob("maxdelay_s", 8)) * time.Second
		cfg.PersistPath = w.dir
		cfg.InterimEnabled = cs.Knob("interim", 0) == 1
		cfg.DefaultInterimInterval = 20 * time.Second
		cfg.QueueSize = 64
		if st := cs.Knob("shutdown_s", 0); st > 0 {
			// a short (legal) shutdown timeout: a graceful stop during a RADIUS outage runs out of
			// time while Stops are still being attempted
			cfg.ShutdownTimeout = time.Duration(st) * time.Second
		}
		mgr, err := bngradius.NewAccountingManager(cl, cfg, zap.NewNop())
		if err != nil {
			panic(err)
		}
		mgr.SetCounterFetcher(func(sid string) (*bngradius.SessionCounters, error) {
			s := w.sess[sid]
			if s == nil {
				return nil, fmt.Errorf("unknown session")
			}
			s.handed[[2]uint64{s.in, s.out}] = true
			return &bngradius.SessionCounters{InputOctets: s.in, OutputOctets: s.out, InputPackets: 7, OutputPackets: 9}, nil
		})
		if err := mgr.Start(); err != nil {
			panic(err)
		}
		w.mgr = mgr
	})
	c.S.Join(t)
}

// markCrash classifies every session at the instant of a crash.
func (w *c08world) markCrash() {
	for _, sid := range w.order {
		s := w.sess[sid]
		if s.startCall && !s.startRet {
			s.startInFlightAtCrash = true
		}
		if s.stopCall && !s.stopRet {
			s.stopInFlightAtCrash = true
		} else if s.stopRet {
			s.stopRetBeforeCrash = true
		} else if s.startRet {
			s.activeAtCrash = true
		}
	}
}

func c08Run(c *sim.Ctx) {
	if strings.HasPrefix(c.Case.Variant, "c16:") {
		v := c16Variants[strings.TrimPrefix(c.Case.Variant, "c16:")]
		if v == nil {
			return
		}
		c.FailFilter = func(inv, fp string) bool { return inv == "acct" || strings.Contains(fp, "/acct-") }
		v.run(c)
		return
	}
	cs := c.Case
	w := &c08world{c: c, sess: map[string]*c08sess{}, fails: map[string]int{}, dir: "/var/lib/bng/accounting"}
	w.fs = sim.NewFS(c.S)
	w.rad = &sim.RadiusNet{S: c.S, Secret: []byte("s3cret"), Latency: 5 * time.Millisecond}
	w.rad.Decide = w.decide
	w.rad.Serve = w.serve
	w.rad.Acked = func(p *radius.Packet) {
		if int(rfc2866.AcctStatusType_Get(p)) == 2 {
			if s := w.sess[rfc2866.AcctSessionID_GetString(p)]; s != nil {
				s.stopAckEpoch, s.stopAckAt, s.stopAckGen = w.epoch, c.S.Now(), w.gen
			}
		}
	}
	w.rad.Step = w.crashStep
	w.fs.Step = func(kind, path string) bool {
		if kind == "read" || kind == "readdir" {
			return w.crashStep("fs-read")
		}
		return w.crashStep("fs-" + kind)
	}
	c.S.FS = w.fs
	c.S.Radius = w.rad.Exchange
	w.maxFail = int(cs.Knob("maxretries", 4)) - 1
	w.crashPm = int(cs.Knob("f_crash_pm", 0))
	w.maxCrash = int(cs.Knob("f_maxcrash", 0))
	w.crashOn = w.crashPm > 0
	maxDelay := time.Duration(cs.Knob("maxdelay_s", 8)) * time.Second
	tail := time.Duration(cs.Knob("maxretries", 4)+1)*(maxDelay+4*time.Second) + 40*time.Second

	w.startManager()

	recover := func() {
		// the process crashed: what was in flight is gone; restart after some downtime
		// (a crash during the restart's own recovery work is one more crash)
		for {
			w.epoch++
			w.markCrash()
			c.S.Sleep(time.Duration(1+c.S.Choose(simrt.StClock, 60)) * time.Second)
			w.startManager()
			if !w.node.Dead() {
				return
			}
		}
	}

	runOp := func(op sim.Op) *simrt.Task {
		node := w.node
		mgr := w.mgr
		switch op.K {
		case "start":
			s := w.session(op.Arg(0))
			if s.startCall {
				return nil // one accounting session per id in a run
			}
			s.startCall = true
			return c.S.Spawn("op-start", node, func() {
				err := mgr.StartSession(&bngradius.AccountingSession{SessionID: s.sid, Username: s.user, MAC: s.mac, FramedIP: s.ip,
					NASPort: 7, CircuitID: "cid-" + s.sid, Class: []byte("class-" + s.sid)})
				if err == nil {
					s.startRet = true
				}
				c.S.Logf("StartSession %s -> %v", s.sid, err)
			})
		case "stop":
			s := w.session(op.Arg(0))
			if !s.startRet || s.stopCall {
				return nil
			}
			s.stopCall = true
			cause := uint32(op.Arg(1))
			return c.S.Spawn("op-stop", node, func() {
				err := mgr.StopSession(s.sid, cause)
				if err == nil {
					s.stopRet = true
				} else {
					s.stopCall = false
				}
				c.S.Logf("StopSession %s -> %v", s.sid, err)
			})
		}
		return nil
	}

	var pending []*simrt.Task
	par := false
	for i, op := range cs.Ops {
		c.OpIdx = i
		if c.Failed() {
			break
		}
		switch op.K {
		case "start", "stop":
			if t := runOp(op); t != nil {
				pending = append(pending, t)
			}
			if par && len(pending) < 2 {
				continue
			}
			par = false
			c.S.Join(pending...)
			pending = nil
		case "par":
			par = true
			continue
		case "cnt":
			s := w.session(op.Arg(0))
			s.in, s.out = uint64(op.Arg(1)), uint64(op.Arg(2))
		case "sleep":
			c.S.Sleep(time.Duration(op.Arg(0)) * time.Millisecond)
		case "outage":
			w.downTill = c.S.Now() + time.Duration(op.Arg(0))*time.Millisecond
			c.S.Fault("radius.outage")
		case "ackloss":
			w.ackLoss += int(op.Arg(0))
		case "slow":
			w.slow += int(op.Arg(0))
		case "gstop":
			// C08 is not quantified over schedules: a graceful stop is a point in
			// the history, not concurrent with API calls still in flight
			c.S.Join(pending...)
			pending, par = nil, false
			if !w.node.Dead() {
				mgr := w.mgr
				t0 := c.S.Now()
				if op.Arg(1) == 1 {
					// the disk is full while the process shuts down (and has room again before the
					// next start): what cannot be queued durably must stay recoverable
					w.fs.Fail = func(string) error { c.S.Fault("disk.full-during-shutdown"); return syscall.ENOSPC }
					for _, sid := range w.order {
						s := w.sess[sid]
						s.fullDiskEpoch = w.epoch
						switch {
						case s.stopRet:
							s.stopRetBeforeFullDisk = true
						case s.startInFlightAtCrash || s.stopInFlightAtCrash || s.stopRetBeforeCrash || s.activeAtCrash:
							// the session went through a crash: this process recovered it as an orphan
							// (its Stop sent or queued, its file removed), it is not an active session
							s.orphanBeforeFullDisk = true
						case s.startRet:
							s.activeAtFullDisk = true
						}
					}
				}
				t := c.S.Spawn("op-gstop", w.node, func() { mgr.Stop() })
				c.S.Join(t)
				w.fs.Fail = nil
				if st := cs.Knob("shutdown_s", 0); st > 0 && c.S.Now()-t0 >= time.Duration(st)*time.Second {
					w.stopTimedOut = true
					c.S.Fault("shutdown.timeout")
				}
				if !w.node.Dead() {
					c.S.Fault("crash.graceful")
					// sessions active at a graceful stop have been drained
					for _, sid := range w.order {
						s := w.sess[sid]
						if s.startRet && !s.stopCall {
							s.stopCall, s.stopRet = true, true
						}
					}
					w.gen++
					c.S.Kill(w.node) // the old process is gone
					c.S.Sleep(time.Duration(op.Arg(0)) * time.Millisecond)
					w.startManager()
				}
			}
		}
		if w.node.Dead() {
			c.S.Join(pending...)
			pending = nil
			par = false
			recover()
		}
	}
	if len(pending) > 0 {
		c.S.Join(pending...)
		if w.node.Dead() {
			recover()
		}
	}
	if c.Failed() {
		return
	}
	c.OpIdx = len(cs.Ops)
	// ---- fault-free tail ------------------------------------------------------
	w.quiet = true
	downEnd := cs.Variant == "downend"
	if downEnd {
		// the server stays down to the end: every owed Stop must be durably queued
		w.quiet = false
		w.crashOn = false
		w.downTill = 1 << 62
		w.maxFail = 1 << 30
	}
	if !w.node.Dead() {
		mgr := w.mgr
		t := c.S.Spawn("final-stop", w.node, func() { mgr.Stop() })
		c.S.Join(t)
		c.S.Kill(w.node)
		w.gen++
	}
	if !downEnd {
		w.startManager()
		c.S.Sleep(tail)
	}
	// ---- history checks -------------------------------------------------------
	stopAccepted := map[string]bool{}
	startAccepted := map[string]bool{}
	for _, r := range w.recs {
		if r.typ == 2 {
			stopAccepted[r.sid] = true
		}
		if r.typ == 1 {
			startAccepted[r.sid] = true
		}
	}
	durable := func(sid string) bool {
		if _, ok := w.fs.Files[w.dir+"/sessions/"+sid+".json"]; ok {
			return true
		}
		if b, ok := w.fs.Files[w.dir+"/pending.json"]; ok {
			var recs map[string]*bngradius.PendingAcctRecord
			if json.Unmarshal(b, &recs) == nil {
				for _, r := range recs {
					if r.Request != nil && r.Request.SessionID == sid && r.Request.StatusType == bngradius.AcctStatusStop {
						return true
					}
				}
			}
		}
		return false
	}
	for _, sid := range w.order {
		s := w.sess[sid]
		owed := s.startRet || startAccepted[sid]
		if !owed || stopAccepted[sid] {
			continue
		}
		if downEnd && durable(sid) {
			c.S.Probe("stop_durably_queued")
			continue
		}
		cat := "nocrash"
		switch {
		case s.stopRetBeforeFullDisk && w.epoch == s.fullDiskEpoch:
			cat = "diskfull-at-shutdown-after-stop-returned"
		case s.orphanBeforeFullDisk && w.epoch == s.fullDiskEpoch:
			cat = "diskfull-at-shutdown-after-orphan-recovery"
		case s.activeAtFullDisk && w.epoch == s.fullDiskEpoch:
			cat = "diskfull-at-shutdown-while-active"
		case s.stopInFlightAtCrash:
			cat = "crash-during-stop"
		case s.stopRetBeforeCrash:
			cat = "crash-after-stop-returned"
		case s.startInFlightAtCrash:
			cat = "crash-during-start"
		case s.activeAtCrash:
			cat = "crash-while-active"
		case w.epoch > 0:
			cat = "crash-elsewhere"
		case w.gen > 1:
			cat = "graceful"
		}
		if w.epoch >= 2 {
			cat += "/multi-crash"
		}
		if downEnd {
			cat += "/server-down-to-end"
		}
		c.Fail("lost-stop", "lost-stop/"+cat,
			"session %s was started (StartSession ok=%v, Start accepted=%v) but after the fault-free tail (%v) no Accounting-Stop was accepted%s; stop called=%v returned=%v; crashes=%d graceful restarts=%d",
			sid, s.startRet, startAccepted[sid], tail, map[bool]string{true: " and nothing durable is queued", false: ""}[downEnd], s.stopCall, s.stopRet, w.epoch, w.gen-1)
	}
	c.State(uint64(len(w.recs))<<8 | uint64(w.epoch)<<4 | uint64(w.gen))
}

func init() {
	sim.Register(&sim.Scenario{
		ID:  "C08",
		Gen: c08Gen,
		Run: c08Run,
		Real: []string{"radius.AccountingManager (StartSession, StopSession, interim loop, pending processor, retry/back-off, drain, persistence, orphan recovery)",
			"radius.Client.SendAccounting (attribute encoding, gigaword split, Message-Authenticator, rate limiter)", "layeh/radius packet encode + parse"},
		Stub: []string{"RADIUS server and UDP transport (sim.RadiusNet replaces radius.Exchange; layeh's UDP retransmit loop is not run)",
			"file system under the accounting directory (sim.FS, process-crash model)"},
		Rule:         "cases: 4-24 start/stop/counter/sleep/outage/ackloss/graceful-stop ops over <=3 sessions, crash at tape-chosen disk/network steps (also during a restart's own recovery work), in a quarter of the runs a short shutdown timeout (2-10 s) that a graceful stop during an outage runs into, restart from the surviving directory, a graceful stop during which the disk is full (every file creation fails with ENOSPC; room again before the next start), answers that arrive late but inside the client timeout (op slow), a motif (an Interim-Update still outstanding when its session is stopped, then a graceful restart), fault-free tail; non-trivial = >=3 completed operations and (a fault fired or >2 context switches); distinct = distinct (case hash, schedule fingerprint)",
		QuickRuns:    20000,
		ThoroughRuns: 1500000,
		Assumptions: []string{"process-crash disk model (each syscall-level step atomic and durable; no power loss)", "per record at most MaxRetries-1 failed exchanges (the statement's retry budget)",
			"a session counts as started when StartSession returned nil or the server accepted its Start"},
	})
}
