package scn

import (
	"fmt"
	"sort"
	"strings"
	"time"

	"github.com/anishathalye/porcupine"
	"github.com/codelaboratoryltd/bng/pkg/simrt"

	"verif/harness/sim"
)

// C01 — no address or prefix is ever held by two subscribers at once.
//
// One pool implementation per run behind the common driver (c01_driver.go).
// Sequential runs are checked step by step against a nondeterministic
// sequential specification (pmStep); runs with 2-4 concurrent client tasks
// record an invoke/return history and hand it to porcupine with the same
// specification. Independently the read API is swept for duplicates.
//
// The specification states exactly the three clauses of the property:
//   unique  — a value returned to (or reported for) subscriber s is not held by
//             another live subscriber;
//   inrange — every returned value is a usable unit of the configured pool;
//   stable  — a subscriber that holds a value and asks again gets that value.
// Failures (errors, "exhausted") are always legal here; C05 decides when they
// are legitimate. A failed call does not end a holding; a Release does, whatever
// it returns.

const pmMaxSub = 8

const (
	pmAlloc = iota
	pmSpec
	pmSet
	pmRel
	pmRelV
	pmRenew
	pmLook
	pmLookV
	pmAdv
	pmNop
)

var pmKindNames = []string{"alloc", "alloc-specific", "set-allocation", "release", "release-value", "renew", "lookup", "lookup-value", "epoch", "nop"}

// pmState is a comparable value (porcupine needs cheap equality).
type pmState struct {
	Hold  [pmMaxSub]int16 // unit index + 1; 0 = nothing
	Last  [pmMaxSub]int16 // epoch of the last allocate / renew
	Epoch int16
}

type pmCfg struct {
	Lease bool
	Grace int
}

type pmIn struct {
	Kind int
	Sub  int
	Val  int // unit index, -1 = a value that is not a usable unit
}

type pmOut struct {
	OK  bool
	Val int // unit index for value-returning operations
	Sub int // subscriber index for lookup-by-value
}

func (cf pmCfg) live(st *pmState, s int) bool {
	if s < 0 || s >= pmMaxSub || st.Hold[s] == 0 {
		return false
	}
	if !cf.Lease {
		return true
	}
	return int(st.Epoch-st.Last[s]) <= cf.Grace
}

func (cf pmCfg) otherLive(st *pmState, s int, unit int) int {
	for t := 0; t < pmMaxSub; t++ {
		if t != s && cf.live(st, t) && int(st.Hold[t]) == unit+1 {
			return t
		}
	}
	return -1
}

// pmStep: (legal?, clause violated, other subscriber involved, next state).
func pmStep(cf pmCfg, st pmState, in pmIn, out pmOut) (bool, string, int, pmState) {
	s := in.Sub
	switch in.Kind {
	case pmAlloc, pmSpec:
		if !out.OK || s < 0 || s >= pmMaxSub {
			return true, "", -1, st
		}
		v := out.Val
		if in.Kind == pmSpec {
			v = in.Val
		}
		if v < 0 {
			return false, "inrange", -1, st
		}
		if cf.live(&st, s) {
			if int(st.Hold[s]) != v+1 {
				return false, "stable", s, st
			}
			st.Last[s] = st.Epoch
			return true, "", -1, st
		}
		if t := cf.otherLive(&st, s, v); t >= 0 {
			return false, "unique", t, st
		}
		st.Hold[s] = int16(v + 1)
		st.Last[s] = st.Epoch
		return true, "", -1, st
	case pmSet:
		if !out.OK || s < 0 || s >= pmMaxSub {
			return true, "", -1, st
		}
		if in.Val < 0 {
			return false, "inrange", -1, st
		}
		if t := cf.otherLive(&st, s, in.Val); t >= 0 {
			return false, "unique", t, st
		}
		st.Hold[s] = int16(in.Val + 1)
		st.Last[s] = st.Epoch
		return true, "", -1, st
	case pmRel:
		if s >= 0 && s < pmMaxSub {
			st.Hold[s] = 0
		}
		return true, "", -1, st
	case pmRelV:
		if in.Val >= 0 {
			for t := 0; t < pmMaxSub; t++ {
				if int(st.Hold[t]) == in.Val+1 {
					st.Hold[t] = 0
				}
			}
		}
		return true, "", -1, st
	case pmRenew:
		if !out.OK || !cf.Lease || s < 0 || s >= pmMaxSub || st.Hold[s] == 0 {
			return true, "", -1, st
		}
		if !cf.live(&st, s) {
			if t := cf.otherLive(&st, s, int(st.Hold[s])-1); t >= 0 {
				return false, "unique", t, st
			}
		}
		st.Last[s] = st.Epoch
		return true, "", -1, st
	case pmLook:
		if !out.OK || s < 0 || s >= pmMaxSub {
			return true, "", -1, st
		}
		if out.Val < 0 {
			return false, "inrange", -1, st
		}
		if cf.live(&st, s) && int(st.Hold[s]) != out.Val+1 {
			return false, "stable", s, st
		}
		if t := cf.otherLive(&st, s, out.Val); t >= 0 {
			return false, "unique", t, st
		}
		return true, "", -1, st
	case pmLookV:
		if !out.OK || in.Val < 0 {
			return true, "", -1, st
		}
		if t := cf.otherLive(&st, out.Sub, in.Val); t >= 0 {
			return false, "unique", t, st
		}
		if out.Sub >= 0 && out.Sub < pmMaxSub && cf.live(&st, out.Sub) && int(st.Hold[out.Sub]) != in.Val+1 {
			return false, "stable", out.Sub, st
		}
		return true, "", -1, st
	case pmAdv:
		st.Epoch++
		return true, "", -1, st
	}
	return true, "", -1, st
}

// ---------------------------------------------------------------------------

type c01world struct {
	c     *sim.Ctx
	d     poolDriver
	caps  pdCaps
	label string
	units []string
	uidx  map[string]int
	cf    pmCfg
	st    pmState
	nsub  int
	// what the caller was last told it holds (by-value release needs it)
	told [pmMaxSub]string
	// last event that touched a subscriber's holding (fingerprint detail)
	ev        [pmMaxSub]string
	startAt   time.Duration
	ticksSeen int
	clock     int64
	conc      bool
}

func (w *c01world) unitOf(v string) int {
	if i, ok := w.uidx[v]; ok {
		return i
	}
	return -1
}

func (w *c01world) valArg(a int64) (string, int) {
	out := w.d.Outside()
	n := len(w.units) + len(out)
	if n == 0 {
		return "", -1
	}
	if a < 0 {
		a = -a
	}
	i := int(a % int64(n))
	if i < len(w.units) {
		return w.units[i], i
	}
	return out[i-len(w.units)], -1
}

func (w *c01world) settle() { w.c.S.Sleep(time.Millisecond) }

// syncTicks folds the epochs the real ticker has advanced into the model.
func (w *c01world) syncTicks() {
	if !w.caps.Tick {
		return
	}
	n := int((w.c.S.Now() - w.startAt) / pdEpochPeriod)
	for w.ticksSeen < n {
		w.ticksSeen++
		w.st.Epoch++
	}
}

type c01rec struct {
	in        pmIn
	out       pmOut
	call, ret int64
	client    int
	desc      string
}

// exec performs one API-visible operation through the driver.
func (w *c01world) exec(op sim.Op) (rec c01rec, ok bool) {
	d := w.d
	sub := int(op.Arg(1))
	if sub < 0 {
		sub = -sub
	}
	sub %= w.nsub
	rec.client = int(op.Arg(0))
	w.clock++
	rec.call = w.clock
	done := func(desc string) {
		w.clock++
		rec.ret = w.clock
		rec.desc = desc
		w.c.OpsDone++
		w.c.S.Logf("%s", desc)
	}
	switch op.K {
	case "alloc":
		v, err := d.Allocate(sub)
		rec.in = pmIn{Kind: pmAlloc, Sub: sub}
		rec.out = pmOut{OK: err == nil, Val: w.unitOf(v)}
		if err == nil {
			w.told[sub] = v
		}
		done(fmt.Sprintf("Allocate(%d) -> %q err=%v", sub, v, err))
	case "spec":
		if !w.caps.Specific {
			return rec, false
		}
		v, vi := w.valArg(op.Arg(2))
		err := d.AllocSpecific(sub, v)
		rec.in = pmIn{Kind: pmSpec, Sub: sub, Val: vi}
		rec.out = pmOut{OK: err == nil}
		if err == nil {
			w.told[sub] = v
		}
		done(fmt.Sprintf("AllocateSpecific(%d,%s) -> err=%v", sub, v, err))
	case "set":
		if !w.caps.Set {
			return rec, false
		}
		v, vi := w.valArg(op.Arg(2))
		err := d.SetAlloc(sub, v)
		rec.in = pmIn{Kind: pmSet, Sub: sub, Val: vi}
		rec.out = pmOut{OK: err == nil}
		if err == nil {
			w.told[sub] = v
		}
		done(fmt.Sprintf("SetAllocation(%d,%s) -> err=%v", sub, v, err))
	case "rel":
		if w.caps.RelBySub {
			err := d.Release(sub)
			rec.in = pmIn{Kind: pmRel, Sub: sub}
			rec.out = pmOut{OK: err == nil}
			done(fmt.Sprintf("Release(%d) -> err=%v", sub, err))
		} else if w.caps.RelByValue {
			v := w.told[sub]
			if v == "" {
				return rec, false
			}
			err := d.ReleaseValue(v)
			rec.in = pmIn{Kind: pmRelV, Val: w.unitOf(v)}
			rec.out = pmOut{OK: err == nil}
			w.told[sub] = ""
			done(fmt.Sprintf("Release(value %s of %d) -> err=%v", v, sub, err))
		} else {
			return rec, false
		}
	case "relv":
		if !w.caps.RelByValue {
			return rec, false
		}
		v, vi := w.valArg(op.Arg(2))
		err := d.ReleaseValue(v)
		rec.in = pmIn{Kind: pmRelV, Val: vi}
		rec.out = pmOut{OK: err == nil}
		done(fmt.Sprintf("ReleaseValue(%s) -> err=%v", v, err))
	case "renew":
		if !w.caps.Lease {
			return rec, false
		}
		err := d.Renew(sub)
		rec.in = pmIn{Kind: pmRenew, Sub: sub}
		rec.out = pmOut{OK: err == nil}
		done(fmt.Sprintf("Renew(%d) -> err=%v", sub, err))
	case "look":
		if !w.caps.Lookup {
			return rec, false
		}
		v, found := d.Lookup(sub)
		rec.in = pmIn{Kind: pmLook, Sub: sub}
		rec.out = pmOut{OK: found, Val: w.unitOf(v)}
		done(fmt.Sprintf("Lookup(%d) -> %q %v", sub, v, found))
	case "lookv":
		if !w.caps.LookupVal {
			return rec, false
		}
		v, vi := w.valArg(op.Arg(2))
		t, found := d.LookupValue(v)
		rec.in = pmIn{Kind: pmLookV, Val: vi}
		rec.out = pmOut{OK: found, Sub: t}
		done(fmt.Sprintf("LookupValue(%s) -> %d %v", v, t, found))
	case "adv":
		if !w.caps.Lease {
			return rec, false
		}
		d.Advance()
		rec.in = pmIn{Kind: pmAdv}
		rec.out = pmOut{OK: true}
		done("AdvanceEpoch()")
	default:
		return rec, false
	}
	return rec, true
}

// fp: clause / variant / causal detail. The detail is the last event of the
// holder whose assignment was contradicted when there is one (the operation that
// happened to expose it is incidental), else the operation kind.
func (w *c01world) fp(clause, op string, other int) string {
	if other >= 0 && other < pmMaxSub && w.ev[other] != "" {
		ev := w.ev[other]
		switch ev {
		case "alloc", "reask", "renew", "set":
			ev = "active" // nothing abnormal happened to the holder
		}
		return fmt.Sprintf("%s/%s/holder-%s", clause, w.label, ev)
	}
	return fmt.Sprintf("%s/%s/%s", clause, w.label, op)
}

// judge applies one completed operation to the sequential model.
func (w *c01world) judge(rec c01rec) {
	c := w.c
	in, out := rec.in, rec.out
	// in-range is a property of the value alone
	if out.OK && out.Val < 0 && (in.Kind == pmAlloc || in.Kind == pmLook) {
		c.Fail("inrange", w.fp("inrange", pmKindNames[in.Kind], -1), "%s returned a value that is not a usable unit of the configured pool (%d usable units: %s ... %s): %s",
			w.label, len(w.units), w.units[0], w.units[len(w.units)-1], rec.desc)
		return
	}
	prevLive := in.Sub >= 0 && in.Sub < pmMaxSub && w.cf.live(&w.st, in.Sub)
	ok, clause, other, next := pmStep(w.cf, w.st, in, out)
	if !ok {
		c.Fail(clause, w.fp(clause, pmKindNames[in.Kind], other), "%s: %s — violates %q against the holdings %s (subscriber %d involved, its last event: %s)",
			w.label, rec.desc, clause, w.describe(), other, w.evOf(other))
		// bring the model back in step with what the pool answered, so that only new
		// discrepancies are reported from here on (not consequences of this one)
		if (in.Kind == pmAlloc || in.Kind == pmLook) && out.OK && out.Val >= 0 && in.Sub >= 0 && in.Sub < pmMaxSub {
			for t := 0; t < pmMaxSub; t++ {
				if t != in.Sub && int(w.st.Hold[t]) == out.Val+1 {
					w.st.Hold[t] = 0
					w.ev[t] = ""
				}
			}
			w.st.Hold[in.Sub] = int16(out.Val + 1)
			if w.ev[in.Sub] == "" {
				w.ev[in.Sub] = "alloc"
			}
			if in.Kind == pmAlloc || !w.cf.live(&w.st, in.Sub) {
				w.st.Last[in.Sub] = w.st.Epoch
			}
			if in.Kind == pmAlloc {
				w.ev[in.Sub] = "alloc"
			}
		}
		return
	}
	w.st = next
	s := in.Sub
	switch in.Kind {
	case pmAlloc, pmSpec, pmSet:
		if out.OK {
			if prevLive {
				w.ev[s] = "reask"
			} else {
				w.ev[s] = "alloc"
			}
			if in.Kind == pmSet {
				w.ev[s] = "set"
			}
		} else if prevLive {
			if w.d.TakeFired() {
				w.ev[s] = "failed-reask"
			}
		}
	case pmRenew:
		if out.OK && prevLive {
			w.ev[s] = "renew"
		} else if !out.OK && prevLive && w.d.TakeFired() {
			w.ev[s] = "failed-renew"
		}
	case pmRel:
		w.ev[s] = ""
	}
	w.d.TakeFired()
}

func (w *c01world) evOf(s int) string {
	if s < 0 || s >= pmMaxSub {
		return "-"
	}
	return w.ev[s]
}

func (w *c01world) describe() string {
	var b strings.Builder
	b.WriteString("{")
	for s := 0; s < pmMaxSub; s++ {
		if w.st.Hold[s] == 0 {
			continue
		}
		st := "live"
		if !w.cf.live(&w.st, s) {
			st = "expired"
		}
		fmt.Fprintf(&b, " %d:%s(%s)", s, w.units[int(w.st.Hold[s])-1], st)
	}
	fmt.Fprintf(&b, " } epoch+%d", w.st.Epoch)
	return b.String()
}

// sweep reads the whole read API at a quiescent point: two subscribers with
// one value, or a value outside the range, is a violation whatever the model says.
func (w *c01world) sweep(after string) {
	c := w.c
	check := func(src string, m map[int]string) {
		subs := make([]int, 0, len(m))
		for s := range m {
			subs = append(subs, s)
		}
		sort.Ints(subs)
		seen := map[string]int{}
		for _, s := range subs {
			v := m[s]
			if w.unitOf(v) < 0 {
				c.Fail("inrange", fmt.Sprintf("inrange/%s/%s", w.label, src), "%s: %s reports %q for subscriber %d, not a usable unit of the pool", w.label, src, v, s)
				continue
			}
			if t, dup := seen[v]; dup {
				c.Fail("unique", fmt.Sprintf("unique/%s/%s", w.label, src), "%s: %s (after %s) reports %s for subscriber %d and for subscriber %d at the same time", w.label, src, after, v, t, s)
			}
			seen[v] = s
		}
	}
	if w.caps.Lookup {
		m := map[int]string{}
		for s := 0; s < w.nsub; s++ {
			if v, ok := w.d.Lookup(s); ok {
				m[s] = v
				// the sweep is also an observation for the model
				rec := c01rec{in: pmIn{Kind: pmLook, Sub: s}, out: pmOut{OK: true, Val: w.unitOf(v)}, desc: fmt.Sprintf("sweep Lookup(%d) -> %q", s, v)}
				if rec.out.Val >= 0 && !w.conc {
					w.judge(rec)
				}
			}
		}
		check("sweep-lookup", m)
	}
	if w.caps.List {
		check("sweep-list", w.d.List())
	}
	h := uint64(14695981039346656037)
	for s := 0; s < pmMaxSub; s++ {
		h = (h ^ uint64(w.st.Hold[s])) * 1099511628211
		if w.cf.live(&w.st, s) {
			h ^= 1 << uint(s+40)
		}
	}
	c.State(h ^ uint64(len(w.units))<<52)
}

// ---------------------------------------------------------------------------

func c01Variant(r *sim.Rand) string {
	// weights: the store-backed and lease variants have the larger state spaces
	i := r.Weighted(10, 12, 5, 8, 4, 12, 14, 7, 4, 5, 7, 5, 7)
	return pdVariants[i]
}

func c01Knobs(r *sim.Rand, cs *sim.Case) {
	cs.Knobs["geo"] = int64(r.Weighted(10, 9, 8, 7, 5, 5, 4, 1, 2, 2, 2, 2, 2, 1, 1, 1))
	cs.Knobs["nsub"] = int64(r.Range(2, 6))
	cs.Knobs["grace"] = int64(r.Weighted(0, 7, 3, 1))
	cs.Knobs["gw"] = int64(r.N(4))
	cs.Knobs["res_start"] = int64(r.Weighted(5, 2, 1))
	cs.Knobs["res_end"] = int64(r.Weighted(5, 2, 1))
	cs.Knobs["echo"] = int64(r.Weighted(5, 4, 1))
	cs.Knobs["qorder"] = int64(r.N(3))
	cs.Knobs["mac"] = int64(r.N(2))
	cs.Knobs["maporder"] = int64(r.N(4))
	cs.Knobs["idsalt"] = int64(r.N(4096))
}

func c01Gen(r *sim.Rand, tier string) *sim.Case {
	cs := &sim.Case{Knobs: map[string]int64{}}
	cs.Variant = c01Variant(r)
	c01Knobs(r, cs)
	caps := pdStaticCaps(cs.Variant)
	nsub := int(cs.Knobs["nsub"])
	conc := 0
	if r.P(45) {
		conc = r.Range(2, 4)
	}
	cs.Knobs["conc"] = int64(conc)
	cs.Knobs["settle"] = int64(r.N(2))
	if conc > 1 {
		cs.Knobs["skipmax"] = int64(sim.Pick(r, 1, 1, 2, 3, 6))
	} else {
		cs.Knobs["skipmax"] = int64(sim.Pick(r, 1, 4, 32))
	}
	n := r.Range(5, 24)
	if tier == "thorough" {
		n = r.Range(5, 40)
	}
	if conc > 1 && n > 12*conc {
		n = 12 * conc
	}
	b := func(on bool, w int) int {
		if on {
			return w
		}
		return 0
	}
	faultsOn := caps.Faults && r.P(60)
	fw, relw := 8, 14
	if conc > 1 && faultsOn && r.P(50) {
		relw = 5
		// concurrent callers for the same few subscribers around a failing save:
		// the window in which one caller's rollback can hit another caller's result
		if nsub > 2 {
			nsub = 2
			cs.Knobs["nsub"] = 2
		}
		fw = 16
	}
	for i := 0; i < n; i++ {
		cl := int64(0)
		if conc > 1 {
			cl = int64(r.N(conc))
		}
		s := int64(r.N(nsub))
		v := int64(r.N(64))
		switch r.Weighted(30, relw, b(caps.RelByValue, 4), b(caps.Lease, 8), b(caps.Lookup, 8), b(caps.LookupVal, 3), b(caps.Specific, 4), b(caps.Set, 3),
			b(caps.Lease, 11), b(caps.Tick && conc <= 1, 3), b(caps.Reload && conc <= 1, 4), b(conc <= 1, 5), b(faultsOn, fw)) {
		case 0:
			cs.Ops = append(cs.Ops, sim.Op{K: "alloc", A: []int64{cl, s}})
		case 1:
			cs.Ops = append(cs.Ops, sim.Op{K: "rel", A: []int64{cl, s}})
		case 2:
			cs.Ops = append(cs.Ops, sim.Op{K: "relv", A: []int64{cl, s, v}})
		case 3:
			cs.Ops = append(cs.Ops, sim.Op{K: "renew", A: []int64{cl, s}})
		case 4:
			cs.Ops = append(cs.Ops, sim.Op{K: "look", A: []int64{cl, s}})
		case 5:
			cs.Ops = append(cs.Ops, sim.Op{K: "lookv", A: []int64{cl, s, v}})
		case 6:
			cs.Ops = append(cs.Ops, sim.Op{K: "spec", A: []int64{cl, s, v}})
		case 7:
			cs.Ops = append(cs.Ops, sim.Op{K: "set", A: []int64{cl, s, v}})
		case 8:
			cs.Ops = append(cs.Ops, sim.Op{K: "adv", A: []int64{cl}})
		case 9:
			cs.Ops = append(cs.Ops, sim.Op{K: "tick", A: []int64{0}})
		case 10:
			cs.Ops = append(cs.Ops, sim.Op{K: "reload", A: []int64{0}})
		case 11:
			cs.Ops = append(cs.Ops, sim.Op{K: "sweep", A: []int64{0}})
		case 12:
			kind := int64(r.N(pfNum))
			if r.P(40) {
				kind = pfPut
			}
			cs.Ops = append(cs.Ops, sim.Op{K: "fail", A: []int64{cl, kind, int64(r.N(3))}})
		}
	}
	return cs
}

func c01Run(c *sim.Ctx) {
	cs := c.Case
	d, err := newPoolDriver(c)
	if err != nil {
		if pdConfigRejected(c, err) {
			return // no verdict: the configuration does not exist
		}
		panic(fmt.Sprintf("c01: cannot build %s: %v", cs.Variant, err))
	}
	w := &c01world{c: c, d: d, caps: d.Caps(), units: d.Units(), uidx: map[string]int{}, nsub: int(cs.Knob("nsub", 3))}
	if w.nsub < 1 {
		w.nsub = 1
	}
	if w.nsub > 6 {
		w.nsub = 6
	}
	if len(w.units) == 0 {
		panic("c01: pool geometry has no usable unit")
	}
	for i, u := range w.units {
		w.uidx[u] = i
	}
	w.label = pdVariantLabel(c, d, false, true)
	w.cf = pmCfg{Lease: w.caps.Lease, Grace: int(cs.Knob("grace", 1))}
	w.startAt = c.S.Now()
	defer func() {
		d.Close()
		w.settle()
	}()
	if cs.Knob("conc", 0) > 1 {
		w.conc = true
		c01Concurrent(w)
		return
	}
	settleEach := cs.Knob("settle", 0) == 0
	last := "start"
	for i, op := range cs.Ops {
		c.OpIdx = i
		if c.Failed() {
			return
		}
		switch op.K {
		case "tick":
			if !w.caps.Tick {
				continue
			}
			c.S.Sleep(pdEpochPeriod)
			w.settle()
			w.syncTicks()
			c.S.Logf("tick -> model epoch+%d", w.st.Epoch)
			c.OpsDone++
			last = "tick"
		case "reload":
			if !w.caps.Reload {
				continue
			}
			w.settle()
			w.syncTicks()
			if err := d.Reload(); err != nil {
				panic(fmt.Sprintf("c01: reload of %s failed: %v", w.label, err))
			}
			w.startAt, w.ticksSeen = c.S.Now(), 0
			for s := 0; s < pmMaxSub; s++ {
				if w.st.Hold[s] != 0 {
					w.ev[s] = "reload"
				}
			}
			c.S.Logf("reload")
			c.OpsDone++
			last = "reload"
			w.settle()
			w.sweep(last)
		case "sweep":
			w.settle()
			w.syncTicks()
			w.sweep(last)
		case "fail":
			if w.caps.Faults && d.ArmFault(int(op.Arg(1))%pfNum, int(op.Arg(2))%3) {
				c.S.Logf("arm store fault %s +%d", pfNames[int(op.Arg(1))%pfNum], op.Arg(2)%3)
			}
		default:
			w.syncTicks()
			rec, ok := w.exec(op)
			if !ok {
				continue
			}
			w.judge(rec)
			last = op.K
			if settleEach {
				w.settle()
				w.syncTicks()
			}
		}
	}
	if c.Failed() {
		return
	}
	c.OpIdx = len(cs.Ops)
	d.Disarm()
	w.settle()
	w.syncTicks()
	w.sweep(last)
}

// ---------------------------------------------------------------------------
// concurrent callers

func c01Concurrent(w *c01world) {
	c := w.c
	cs := c.Case
	nc := int(cs.Knob("conc", 2))
	if nc > 4 {
		nc = 4
	}
	lists := make([][]sim.Op, nc)
	for _, op := range cs.Ops {
		switch op.K {
		case "alloc", "rel", "relv", "renew", "look", "lookv", "spec", "set", "adv", "fail":
			cl := int(op.Arg(0))
			if cl < 0 {
				cl = -cl
			}
			cl %= nc
			if len(lists[cl]) < 12 {
				lists[cl] = append(lists[cl], op)
			}
		}
	}
	var hist []c01rec
	var tasks []*simrt.Task
	for cl := 0; cl < nc; cl++ {
		cl := cl
		ops := lists[cl]
		if len(ops) == 0 {
			continue
		}
		tasks = append(tasks, c.S.Spawn(fmt.Sprintf("client%d", cl), nil, func() {
			for _, op := range ops {
				if op.K == "fail" {
					if w.caps.Faults {
						w.d.ArmFault(int(op.Arg(1))%pfNum, int(op.Arg(2))%3)
					}
					continue
				}
				rec, ok := w.exec(op)
				if !ok {
					continue
				}
				rec.client = cl
				hist = append(hist, rec)
				c.S.Pause()
			}
		}))
	}
	c.S.Join(tasks...)
	w.d.Disarm()
	w.settle()
	// in-range does not depend on the interleaving
	for _, rec := range hist {
		if rec.out.OK && rec.out.Val < 0 && (rec.in.Kind == pmAlloc || rec.in.Kind == pmLook) {
			c.Fail("inrange", w.fp("inrange", pmKindNames[rec.in.Kind], -1), "%s returned a value that is not a usable unit of the configured pool: %s", w.label, rec.desc)
		}
	}
	if c.Failed() {
		return
	}
	cf := w.cf
	steps := 0
	const budget = 3000000
	model := porcupine.Model{
		Init: func() interface{} { return pmState{} },
		Step: func(state, input, output interface{}) (bool, interface{}) {
			steps++
			if steps > budget {
				return false, state
			}
			ok, _, _, next := pmStep(cf, state.(pmState), input.(pmIn), output.(pmOut))
			return ok, next
		},
		Equal: func(a, b interface{}) bool { return a.(pmState) == b.(pmState) },
	}
	ops := make([]porcupine.Operation, 0, len(hist))
	for _, rec := range hist {
		out := rec.out
		if out.OK && out.Val < 0 {
			out.OK = false
		}
		ops = append(ops, porcupine.Operation{ClientId: rec.client, Input: rec.in, Call: rec.call, Output: out, Return: rec.ret})
	}
	res := porcupine.CheckOperationsTimeout(model, ops, 0)
	switch {
	case steps > budget:
		c.S.Probe("porcupine_unknown")
	case res == porcupine.Unknown:
		c.S.Probe("porcupine_unknown")
	case res == porcupine.Illegal:
		// diagnosis: replay in return order (a real-time consistent order) and
		// name the first operation the specification rejects
		sort.SliceStable(hist, func(i, j int) bool { return hist[i].ret < hist[j].ret })
		st := pmState{}
		clause, kind, desc := "order", "history", ""
		for _, rec := range hist {
			out := rec.out
			if out.OK && out.Val < 0 {
				out.OK = false
			}
			ok, cl, _, next := pmStep(cf, st, rec.in, out)
			if !ok {
				clause, kind, desc = cl, pmKindNames[rec.in.Kind], rec.desc
				break
			}
			st = next
		}
		var b strings.Builder
		sort.SliceStable(hist, func(i, j int) bool { return hist[i].call < hist[j].call })
		for _, rec := range hist {
			fmt.Fprintf(&b, "\n    client%d [%d,%d] %s", rec.client, rec.call, rec.ret, rec.desc)
		}
		_ = kind
		c.Fail("linearizability", fmt.Sprintf("linearizability/%s/%s", w.label, clause),
			"%s: the history of %d concurrent operations has no sequential explanation under the allocation specification (first rejected in return order: %s):%s", w.label, len(hist), desc, b.String())
	default:
		c.S.Probe("porcupine_ok")
	}
	// bring the sequential model to a state consistent with the final holdings is not
	// possible in general; the final sweep is model independent
	w.sweep("concurrent")
}

func init() {
	sim.Register(&sim.Scenario{
		ID:  "C01",
		Gen: c01Gen,
		Run: c01Run,
		Real: []string{"allocator.IPAllocator", "allocator.EpochBitmapAllocator", "allocator.PoolAllocator + MemoryAllocationStore", "allocator.LocalAllocator",
			"allocator.DistributedAllocator (session and lease mode, epochLoop ticker, watch handler)", "dhcp.Pool", "dhcpv6.AddressPool", "dhcpv6.PrefixPool",
			"pppoe.IPPool", "pool.PeerPool (single node)", "nexus.Client AllocateIPForSubscriber/ReleaseSubscriberIP + TypedStore + watch caches"},
		Stub: []string{"allocator.Store / nexus.Store (in-memory key-value store: sorted/reversed/tape-ordered Query, write failures at a chosen call index, watch echo of local writes none/FIFO/unordered)",
			"AllocationStore wrapper that fails SaveAllocation/RemoveAllocation at a chosen call", "persistence medium of marshal/unmarshal reloads (a byte slice)"},
		Rule: "cases: one pool variant x geometry (IPv4 /24../30, IPv6 /64 /56 /128 units, gateway/reserved positions) x 2-6 subscribers x 5-40 allocate/specific/renew/release/lookup/epoch/tick/reload/sweep ops, sequential (model checked step by step) or 2-4 concurrent client tasks (porcupine); non-trivial = >=3 completed operations and (a fault fired or >2 context switches or a preemption); distinct = distinct (case hash, schedule fingerprint)",
		QuickRuns:    20000,
		ThoroughRuns: 2000000,
		Assumptions: []string{"a failed (error-returning) allocate/renew does not end an existing holding; a release does, whatever it returns",
			"a lease is live while (current epoch - epoch of last allocate/renew) <= configured grace", "usable units are computed from the configuration as documented by each pool (network/broadcast/gateway/reserved exclusions)",
			"store watch callbacks for local writes are delivered asynchronously (as all in-repo Store implementations do), FIFO unless the variant label says unordered"},
	})
}
