package scn

import "encoding/binary"

// PPP control-protocol packet helpers shared by the PPPoE scenarios (the
// harness's own serialiser, independent of the repository's).

type cpOpt struct {
	Type byte
	Data []byte
}

func serOpts(opts []cpOpt) []byte {
	var b []byte
	for _, o := range opts {
		b = append(b, o.Type, byte(2+len(o.Data)))
		b = append(b, o.Data...)
	}
	return b
}

func parseOpts(b []byte) ([]cpOpt, bool) {
	var out []cpOpt
	for len(b) > 0 {
		if len(b) < 2 || b[1] < 2 || int(b[1]) > len(b) {
			return out, false
		}
		out = append(out, cpOpt{b[0], append([]byte(nil), b[2:b[1]]...)})
		b = b[b[1]:]
	}
	return out, true
}

func cpPacket(code, id byte, data []byte) []byte {
	b := make([]byte, 4+len(data))
	b[0], b[1] = code, id
	binary.BigEndian.PutUint16(b[2:], uint16(4+len(data)))
	copy(b[4:], data)
	return b
}

