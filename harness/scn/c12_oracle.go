package scn

import (
	"bytes"
	"encoding/json"
	"errors"
	"fmt"
	"net"
	"sort"
	"strings"

	"github.com/codelaboratoryltd/bng/pkg/allocator"
)

// Oracles of the distributed variants of C12 (see DESIGN §5 C12).

func (w *c12world) modeName() string {
	if w.lease {
		return "lease"
	}
	return "session"
}

func (w *c12world) installOracleHooks() {
	prefix := "/allocation/" + c12PoolID + "/"
	w.st.preGet = func(wt *c12watcher, ev *c12event) {
		ev.before, ev.holder, ev.holderRec = "", "", ""
		if wt.h.da == nil || ev.from == wt.h.slot.idx {
			return
		}
		if p, ok := wt.h.da.Get(strings.TrimPrefix(ev.key, prefix)); ok && p != nil {
			ev.before = p.String()
		}
		ev.nodeEpoch = wt.h.da.GetCurrentEpoch()
		if ev.deleted {
			return
		}
		if _, pn, err := net.ParseCIDR(c12recPrefix(ev.val)); err == nil {
			ev.holder, _ = wt.h.da.GetByPrefix(pn)
			if ev.holder != "" {
				ev.holderRec = w.record(ev.holder)
			}
		}
	}
	w.st.onDeliver = func(wt *c12watcher, ev *c12event) {
		sl := wt.h.slot
		if sl.h != wt.h {
			return
		}
		sub := strings.TrimPrefix(ev.key, prefix)
		if ev.from == sl.idx {
			// the node's own write echoed back: not "announced by another node"
			sl.touch[sub] = &c12touch{}
			return
		}
		sl.touch[sub] = &c12touch{event: true, deleted: ev.deleted, prefix: c12recPrefix(ev.val), before: ev.before,
			holder: ev.holder, holderRec: ev.holderRec, nodeEpoch: ev.nodeEpoch, recEpoch: c12recEpoch(ev.val), ctx: wt.h.watchContext(), seq: ev.seq, ticks: sl.ticks, from: ev.from}
	}
	w.st.onTick = func(h *c12handle) { h.slot.ticks++ }
}

// afterOp: result bookkeeping and oracle (2) — a failed store write leaves
// memory and store in agreement for the subscriber the operation touched.
func (w *c12world) afterOp(r *c12opres, all []*c12opres) {
	c := w.c
	sl := r.slot
	if !r.done {
		c.S.Logf("n%d %s %s -> node crashed", sl.idx, r.kind, r.sub)
		return
	}
	c.OpsDone++
	c.S.Logf("n%d %s %s -> %s err=%v", sl.idx, r.kind, r.sub, r.got, r.err != nil)
	if r.err == nil || !errors.Is(r.err, errC12Injected) || !sl.up {
		return
	}
	for _, o := range all {
		if o != r && o.sub == r.sub {
			c.S.Probe("storefail_skipped_concurrent_same_subscriber")
			return
		}
	}
	if !r.preOK {
		c.S.Probe("storefail_skipped_disagreed_before")
		return
	}

	failed := "store"
	for _, k := range []string{"put", "delete", "get", "query"} {
		if strings.Contains(r.err.Error(), k+" /allocation/") {
			failed = k
		}
	}
	mem, rec := w.get(sl, r.sub), w.record(r.sub)
	if r.preBusy || sl.h.delivered[r.sub] != r.preDeliv {
		// a notification for the same subscriber reached the node between the two observations
		c.S.Probe("storefail_skipped_notification_during_call")
		return
	}
	c.S.Probe("storefail_checked_" + r.kind + "_" + failed)
	if mem == rec {
		return
	}
	kind := r.kind
	if kind == "alloc" {
		if r.preMem == "" {
			kind = "alloc-new"
		} else {
			kind = "alloc-existing"
		}
	}
	detail := "differ"
	if mem == "" {
		detail = "memory-absent-store-present"
	} else if rec == "" {
		detail = "memory-present-store-absent"
	}
	c.Fail("store-failure-agreement", fmt.Sprintf("storefail/dist/%s/%s/%s/%s", w.modeName(), kind, failed, detail),
		"node n%d: %s(%s) returned a store error (%v); before the call memory=%q store=%q, after it memory answers %q but the store record says %q",
		sl.idx, r.kind, r.sub, r.err, r.preMem, r.preRec, mem, rec)
}

// checkWatch: oracle (3), evaluated only when nothing is queued or in flight.
func (w *c12world) checkWatch() {
	c := w.c
	if !w.st.settled() {
		return
	}
	for _, sl := range w.slots {
		if !sl.up || sl.tok.Dead() {
			continue
		}
		subs := make([]string, 0, len(sl.touch))
		for s := range sl.touch {
			subs = append(subs, s)
		}
		sort.Strings(subs)
		for _, sub := range subs {
			t := sl.touch[sub]
			if t == nil || !t.event {
				continue
			}
			if t.ticks != sl.ticks {
				c.S.Probe("watch_skipped_epoch_tick_since")
				sl.touch[sub] = &c12touch{}
				continue
			}
			want := t.prefix
			if t.deleted {
				want = ""
			}
			ans := w.get(sl, sub)
			sl.touch[sub] = &c12touch{} // judged once
			if ans == want {
				if t.deleted {
					c.S.Probe("watch_delete_applied")
				} else if t.before != "" && t.before != want {
					c.S.Probe("watch_put_moved_existing")
				} else {
					c.S.Probe("watch_put_applied")
				}
				continue
			}
			if ans == w.record(sub) {
				// the notification was overtaken (reordering/duplication) and the node agrees with the store
				c.S.Probe("watch_stale_notification_node_agrees_with_store")
				continue
			}
			if t.deleted {
				c.Fail("watch-applied", "watch/"+w.modeName()+"/delete-not-applied"+t.ctx,
					"node n%d received delete(%s) from n%d (seq %d) but still answers %q for it", sl.idx, sub, t.from, t.seq, ans)
				continue
			}
			if w.st.conflicted[want] {
				// two store records claimed the prefix: a multi-writer conflict, not C12's subject
				c.S.Probe("watch_skipped_store_conflict")
				continue
			}
			if w.lease && t.recEpoch+2 < t.nodeEpoch {
				// classification only: the record's epoch (the writer's private counter) looks
				// expired to the receiver, which drops such a record before looking at anything
				// else, whatever the delivery order was
				c.Fail("watch-applied", "watch/lease/put-not-applied/epoch-skew",
					"node n%d (epoch %d) received put(%s -> %s, epoch %d) from n%d (seq %d); it answered %q before the notification and answers %q after it (store record: %q)",
					sl.idx, t.nodeEpoch, sub, want, t.recEpoch, t.from, t.seq, t.before, ans, w.record(sub))
				continue
			}
			// who held the announced prefix on this node when the notification arrived?
			if t.holder != "" && t.holder != sub {
				if t.holderRec == want || w.st.conflicted[t.holderRec] {
					// two store records claimed the prefix: a multi-writer conflict, not C12's subject
					c.S.Probe("watch_skipped_store_conflict")
					continue
				}
				ctxs := t.ctx
				if ctxs == "" && w.lease && t.holderRec == "" && len(w.slots) > 1 {
					// in-order delivery, yet the local holder's record is gone from the store: in lease
					// mode another node's store cleanup removed it (records carry per-process epoch numbers)
					ctxs = "/holder-record-cleaned-by-peer"
				}
				c.Fail("watch-applied", "watch/"+w.modeName()+"/put-rejected-stale-holder"+ctxs,
					"node n%d received put(%s -> %s) from n%d (seq %d) but answers %q: on arrival the prefix was held locally by %s, whose store record was %q",
					sl.idx, sub, want, t.from, t.seq, ans, t.holder, t.holderRec)
				continue
			}
			detail := "not-applied"
			switch {
			case ans != "" && ans == t.before:
				detail = "kept-previous-address"
			case ans != "":
				detail = "applied-other-address"
			case w.lease:
				if st := sl.da.Stats(); st.Allocated >= st.Total {
					detail = "not-applied/pool-reads-full"
				}
			}
			ctx := t.ctx
			c.Fail("watch-applied", "watch/"+w.modeName()+"/put-"+detail+ctx,
				"node n%d received put(%s -> %s) from n%d (seq %d); it answered %q before the notification and answers %q after it (store record: %q)",
				sl.idx, sub, want, t.from, t.seq, t.before, ans, w.record(sub))
		}
	}
}

// restartAndCheck: oracle (1). The slot is down; bring it up over the store
// and compare its answers with the records it was started from.
func (w *c12world) restartAndCheck(sl *c12slot) {
	c := w.c
	if sl.up {
		return
	}
	how := sl.downHow
	if how == "" {
		how = "stop"
	}
	v0 := w.st.version
	if !w.start(sl) {
		return
	}
	c.OpsDone++
	if w.st.version != v0 {
		c.S.Probe("restart_skipped_store_changed_during_start")
		return
	}
	recs := map[string]string{}
	byPrefix := map[string][]string{}
	for _, k := range w.st.keys("/allocation/" + c12PoolID + "/") {
		sub := strings.TrimPrefix(k, "/allocation/"+c12PoolID+"/")
		p := c12recPrefix(w.st.data[k])
		recs[sub] = p
		byPrefix[p] = append(byPrefix[p], sub)
	}
	c.S.Probe("restart_checked_after_" + how)
	if len(recs) >= 2 {
		c.S.Probe("restart_checked_2plus_records")
	}
	q := "canonical-query"
	if sl.lastQueryPermuted {
		q = "permuted-query"
	}
	answers := map[string]string{}
	for _, sub := range w.subs {
		answers[sub] = w.get(sl, sub)
	}
	for _, sub := range c12sortedKeys(recs) {
		p := recs[sub]
		if len(byPrefix[p]) > 1 {
			c.S.Probe("restart_skipped_store_conflict")
			continue
		}
		ans := answers[sub]
		if ans == p {
			continue
		}
		detail := "moved"
		if ans == "" {
			detail = "lost"
		}
		c.Fail("restart-same-address", fmt.Sprintf("restart/%s/%s/%s/%s", w.modeName(), how, detail, q),
			"node n%d restarted (after %s) from a store holding %s; the record for %s says %s but the node answers %q (all answers: %s)",
			sl.idx, how, c12fmtMap(recs), sub, p, ans, c12fmtMap(answers))
		return
	}
	seen := map[string]string{}
	for _, sub := range w.subs {
		a := answers[sub]
		if a == "" {
			continue
		}
		if o, dup := seen[a]; dup {
			c.Fail("restart-unique", fmt.Sprintf("restart/%s/%s/duplicate", w.modeName(), how),
				"node n%d after restart answers %s for both %s and %s", sl.idx, a, o, sub)
			return
		}
		seen[a] = sub
	}
}

func c12recEpoch(val []byte) uint64 {
	var a allocator.DistributedAllocation
	if len(val) == 0 || json.Unmarshal(val, &a) != nil {
		return 0
	}
	return a.Epoch
}

func c12fmtMap(m map[string]string) string {
	var b strings.Builder
	b.WriteString("{")
	for i, k := range c12sortedKeys(m) {
		if m[k] == "" {
			continue
		}
		if i > 0 && b.Len() > 1 {
			b.WriteString(" ")
		}
		fmt.Fprintf(&b, "%s:%s", k, m[k])
	}
	b.WriteString("}")
	return b.String()
}

// sweepAgreement: in a run with one node in which no crash, store error or
// watch fault has fired so far, whatever the node answers for a subscriber at a
// quiescent point must be on record in the store with the same address: every
// successful allocate/renew wrote it, and the store's own cleanup only removes
// records of leases the node no longer answers for. (The reverse - a record the
// node no longer answers for - is legitimate: store cleanup is lazy.)
func (w *c12world) sweepAgreement(after string) {
	c := w.c
	if len(w.slots) != 1 || w.st.perturbed || c.Failed() {
		return
	}
	sl := w.slots[0]
	if !sl.up || sl.tok.Dead() {
		return
	}
	for _, sub := range w.subs {
		m, rec := w.get(sl, sub), w.record(sub)
		if m == rec {
			continue
		}
		if m == "" && (w.lease && sl.ticks > 0) {
			continue // the lease may have run out in memory; the store is cleaned lazily
		}
		detail := "store-differs"
		if rec == "" {
			detail = "store-absent"
		} else if m == "" {
			detail = "memory-absent"
		}
		c.Fail("memory-store-agreement", fmt.Sprintf("agree/%s/%s/after=%s", w.modeName(), detail, after),
			"no fault has fired, yet node n%d answers %q for %s while the store record says %q", sl.idx, m, sub, rec)
		return
	}
	c.S.Probe("agreement_swept_faultfree")
}

// soloRules: memory/store agreement clauses that need no reference to expiry, for a call that ran
// alone on a single node in a run without any fault so far. A released subscriber is no longer
// recorded in the store (whatever Release returned: nothing failed, so nothing excuses a record
// that a restart would load); a Renew that was refused has not touched the subscriber's record.
func (w *c12world) soloRules(r *c12opres, rawBefore []byte) {
	c := w.c
	if len(w.slots) != 1 || w.st.perturbed || c.Failed() || !r.done || !r.slot.up || r.slot.tok.Dead() {
		return
	}
	raw := w.st.data[c12key(r.sub)]
	switch {
	case r.kind == "release" && raw != nil:
		c.Fail("memory-store-agreement", fmt.Sprintf("agree/%s/record-survives-release", w.modeName()),
			"no fault has fired: Release(%s) returned %v, yet the store still records %s for it (a restart would load that record)", r.sub, r.err, c12recPrefix(raw))
	case r.kind == "renew" && r.err != nil && !bytes.Equal(raw, rawBefore):
		c.Fail("memory-store-agreement", fmt.Sprintf("agree/%s/record-changed-by-refused-renew", w.modeName()),
			"no fault has fired: Renew(%s) was refused (%v), yet it changed the subscriber's store record from %q to %q", r.sub, r.err, rawBefore, raw)
	}
}

// checkInnerJSON: oracle (4) on the allocator state the distributed paths reached.
func (w *c12world) checkInnerJSON() {
	for _, sl := range w.slots {
		if !sl.up || sl.tok.Dead() {
			continue
		}
		ip, ep := sl.da.VerifC12Inner()
		if ip != nil {
			c12CheckIPJSON(w.c, "dist-session", ip, w.subs)
		}
		if ep != nil {
			c12CheckEpochJSON(w.c, "dist-lease", ep, w.pool, w.subs)
		}
	}
}
