package scn

import (
	"context"
	"fmt"
	"net"
	"time"

	"github.com/codelaboratoryltd/bng/pkg/pppoe"
	bngradius "github.com/codelaboratoryltd/bng/pkg/radius"
	"github.com/codelaboratoryltd/bng/pkg/simrt"
	"go.uber.org/zap"
	"layeh.com/radius"
	"layeh.com/radius/rfc2866"

	"verif/harness/sim"
)

// C16 variant pppoe-teardown: pppoe.SessionTeardown + pppoe.KeepAliveManager
// wired through their public setters the way their doc comments prescribe
// (cmd/bng does not wire them, so the harness plays the part of the server):
//
//	SetRADIUSClient  -> real radius.Client -> simulated RADIUS server
//	SetIPPool        -> the real pppoe.IPPool behind a recorder
//	SetSessionManager-> the real pppoe.SessionManager
//	SetSendPADT / SetSendLCPTermReq / SetUpdateEBPFMaps -> recording callbacks
//	  (the eBPF callback maintains the harness's model of the fast-path cache)
//	KeepAliveManager.SetSendEcho -> recorder (a peer that is alive answers every
//	  echo it is sent), SetTerminateSession -> SessionTeardown.TerminateSession
//
// The harness (as the server would) creates sessions, marks them
// authenticated, allocates their address, and on "up" marks them Established,
// sends the Accounting-Start, installs the fast-path entry and registers the
// session for keep-alive. Every termination goes through a fresh look-up of
// the session in the SessionManager, as a receive loop or an admin API would.

type c16tPool struct {
	in       *pppoe.IPPool
	releases map[string]int
	s        *simrt.Sim
}

func (p *c16tPool) Allocate(sessionID string) net.IP { return p.in.Allocate(sessionID) }
func (p *c16tPool) Release(sessionID string) {
	p.releases[sessionID]++
	p.s.Logf("pool release %s", c16short(sessionID))
	p.in.Release(sessionID)
}

func c16short(s string) string {
	if len(s) > 6 {
		return s[:6]
	}
	return s
}

type c16tSess struct {
	idx     int
	mac     net.HardwareAddr
	user    string
	id      uint16
	key     string // Session.SessionID = Acct-Session-Id = pool key
	stage   int    // 0 none, 1 created, 2 authenticated, 3 address, 4 up
	addr    net.IP
	started bool // Accounting-Start acknowledged
	fast    bool // a fast-path entry was installed
	ended   string
	padts   int
	// kinds of residue already reported for this session
	reported map[string]bool
}

func c16tClass(path string) string {
	switch path {
	case "padt", "keepalive":
		return path
	}
	return "admin" // TerminateSession and its wrappers
}

var c16tPaths = []string{"padt", "term", "by-id", "by-mac", "by-user", "all", "keepalive"}

func c16GenTeardown(r *sim.Rand, tier string, cs *sim.Case) {
	n := r.Range(1, 3)
	cs.Knobs["sessions"] = int64(n)
	cs.Knobs["radius"] = int64(r.Weighted(1, 5))
	cs.Knobs["padt_retries"] = int64(r.N(2))
	cs.Knobs["pool29"] = int64(r.N(2))
	if cs.Knobs["radius"] == 1 && r.P(15) {
		// the accounting server goes silent for Stop requests; in half of these runs the operator
		// has raised the RADIUS timeouts above the teardown's overall cleanup timeout (legal)
		cs.Knobs["acctsilent"] = 1
		cs.Knobs["radlong"] = int64(r.N(2))
	}
	stages := []string{"create", "auth", "ip", "up"}
	for s := 0; s < n; s++ {
		prefix := r.Weighted(1, 1, 2, 3, 10)
		for i := 0; i < prefix; i++ {
			cs.Ops = append(cs.Ops, sim.Op{K: stages[i], A: []int64{int64(s)}})
		}
	}
	pick := func() string { return c16tPaths[r.Weighted(4, 4, 2, 2, 2, 2, 3)] }
	if r.P(8) {
		// 16-bit session ids are reused once the counter has wrapped: the first session takes the
		// first id, ~65 000 set-ups and tear-downs later the counter is back at it, and a new client
		// connects at the very moment that session is ended by two paths at once
		cs.Knobs["idwrap"] = 1
		cs.Ops = nil
		for _, st := range stages {
			cs.Ops = append(cs.Ops, sim.Op{K: st, A: []int64{0}})
		}
		cs.Ops = append(cs.Ops, sim.Op{K: "end2", A: []int64{0, int64(r.Range(1, 18))}, S: []string{"by-mac", "padt"}}) // (by MAC: a command addressed by numeric id would legitimately hit whoever holds the id now)
		cs.Knobs["sessions"] = 1
		return
	}
	for s := 0; s < n; s++ {
		if r.P(15) {
			continue
		}
		cause := int64(r.Range(1, 18))
		p1 := pick()
		switch r.Weighted(5, 2, 4) {
		case 0:
			cs.Ops = append(cs.Ops, sim.Op{K: "end", A: []int64{int64(s), cause}, S: []string{p1}})
		case 1:
			cs.Ops = append(cs.Ops, sim.Op{K: "end", A: []int64{int64(s), cause}, S: []string{p1, pick()}})
		default:
			cs.Ops = append(cs.Ops, sim.Op{K: "end2", A: []int64{int64(s), cause}, S: []string{p1, pick()}})
		}
	}
}

func c16RunTeardown(c *sim.Ctx) {
	cs := c.Case
	log := zap.NewNop()
	sm := pppoe.NewSessionManager()
	cidr := "10.9.0.0/30"
	if cs.Knob("pool29", 1) == 1 {
		cidr = "10.9.0.0/29"
	}
	inner, err := pppoe.NewIPPool(cidr, "10.9.0.1")
	if err != nil {
		panic(err)
	}
	pool := &c16tPool{in: inner, releases: map[string]int{}, s: c.S}
	total, _ := inner.VerifPoolFree()
	tcfg := pppoe.DefaultTeardownConfig()
	tcfg.PADTRetries = int(cs.Knob("padt_retries", 1))
	if tcfg.PADTRetries < 0 || tcfg.PADTRetries > 2 {
		tcfg.PADTRetries = 1
	}
	acctSilent := cs.Knob("acctsilent", 0) == 1
	radTimeout, radRetries := 3*time.Second, 3
	if acctSilent && cs.Knob("radlong", 0) == 1 {
		tcfg.RADIUSTimeout = 12 * time.Second
		radTimeout, radRetries = 12*time.Second, 2
		c.S.Probe("radius_timeouts_above_cleanup_timeout")
	}
	td := pppoe.NewSessionTeardown(tcfg, log)
	td.SetSessionManager(sm)
	td.SetIPPool(pool)

	acct := map[string]*c16acct{}
	withRadius := cs.Knob("radius", 1) == 1
	var rcl *bngradius.Client
	if withRadius {
		rcl, err = bngradius.NewClient(bngradius.ClientConfig{Servers: []bngradius.ServerConfig{{Host: "radius.sim", Port: 1812, Secret: "s3cret"}},
			NASID: "bng", Timeout: radTimeout, Retries: radRetries}, log)
		if err != nil {
			panic(err)
		}
		td.SetRADIUSClient(rcl)
		rn := &sim.RadiusNet{S: c.S, Secret: []byte("s3cret"), Latency: 5 * time.Millisecond}
		if acctSilent {
			rn.Decide = func(p *radius.Packet, addr string) int {
				if p.Code == radius.CodeAccountingRequest && int(rfc2866.AcctStatusType_Get(p)) == 2 {
					c.S.Fault("radius.accounting-silent")
					return sim.RadDrop
				}
				return sim.RadOK
			}
		}
		rn.Serve = func(p *radius.Packet, addr string, raw []byte) *radius.Packet {
			if p.Code != radius.CodeAccountingRequest {
				return p.Response(radius.CodeAccessAccept)
			}
			sid := rfc2866.AcctSessionID_GetString(p)
			a := acct[sid]
			if a == nil {
				a = &c16acct{}
				acct[sid] = a
			}
			switch int(rfc2866.AcctStatusType_Get(p)) {
			case 1:
				a.starts++
			case 2:
				a.stops++
			}
			c.S.Logf("acct type=%d sid=%s", rfc2866.AcctStatusType_Get(p), c16short(sid))
			return p.Response(radius.CodeAccountingResponse)
		}
		c.S.Radius = rn.Exchange
	}

	n := int(cs.Knob("sessions", 1))
	if n < 1 {
		n = 1
	}
	if n > 4 {
		n = 4
	}
	var ss []*c16tSess
	byKey := map[string]*c16tSess{}
	for i := 0; i < n; i++ {
		ss = append(ss, &c16tSess{idx: i, mac: net.HardwareAddr{0x02, 0xaa, 0, 0, 1, byte(i + 1)}, user: fmt.Sprintf("user%d", i)})
	}
	serverMAC := net.HardwareAddr{0x02, 0xbb, 0, 0, 0, 1}

	// the fast-path cache as the eBPF callback maintains it: session key -> present
	fast := map[string]bool{}
	removes := map[string]int{}
	td.SetUpdateEBPFMaps(func(s *pppoe.Session, remove bool) error {
		c.S.Logf("ebpf remove=%v %s", remove, c16short(s.SessionID))
		if remove {
			removes[s.SessionID]++
			if !fast[s.SessionID] {
				return fmt.Errorf("no such entry")
			}
			delete(fast, s.SessionID)
			return nil
		}
		fast[s.SessionID] = true
		return nil
	})
	td.SetSendPADT(func(s *pppoe.Session, tags []pppoe.Tag) {
		if x := byKey[s.SessionID]; x != nil {
			x.padts++
		}
		c.S.Logf("tx padt %s", c16short(s.SessionID))
	})
	td.SetSendLCPTermReq(func(s *pppoe.Session, reason string) {
		c.S.Logf("tx lcp-term-req %s", c16short(s.SessionID))
	})

	// keep-alive: values chosen by the harness (configuration, not implementation constants)
	kcfg := pppoe.KeepAliveConfig{Enabled: true, Interval: 10 * time.Second, Timeout: 5 * time.Second, MaxFailures: 2, IdleThreshold: 20 * time.Second}
	ka := pppoe.NewKeepAliveManager(kcfg, log)
	dead := map[string]bool{} // peers that stopped answering echoes
	kaTerm := map[string]int{}
	var kaTasks []*simrt.Task
	ka.SetSendEcho(func(s *pppoe.Session) uint8 {
		id := s.NextLCPIdentifier()
		c.S.Logf("tx echo-req %s id=%d", c16short(s.SessionID), id)
		if !dead[s.SessionID] {
			// the peer is alive: its Echo-Reply comes back a moment later
			sid, magic := s.ID, s.MagicNumber
			kaTasks = append(kaTasks, c.S.Spawn("echo-reply", nil, func() {
				c.S.Sleep(2 * time.Millisecond)
				ka.ReceiveEchoReply(sid, id, magic)
			}))
		}
		return id
	})
	ka.SetTerminateSession(func(s *pppoe.Session, reason string) {
		kaTerm[s.SessionID]++
		c.S.Logf("keepalive terminate %s", c16short(s.SessionID))
		td.TerminateSession(s, pppoe.TerminateCauseLostCarrier, reason)
	})
	ka.Start()
	kaStart := c.S.Now()
	defer ka.Stop()

	up := func(x *c16tSess) bool { return x.stage >= 1 && x.ended == "" }
	// traffic: sessions that are up and whose peer is alive show activity
	touch := func() {
		for _, x := range ss {
			if up(x) && x.stage == 4 && !dead[x.key] {
				ka.UpdateActivity(x.id)
			}
		}
	}
	sleepBusy := func(d time.Duration) {
		for d > 0 {
			st := kcfg.Interval / 2
			if st > d {
				st = d
			}
			c.S.Sleep(st)
			d -= st
			touch()
		}
	}
	killed := func() uint64 { return ka.GetStats()["sessions_killed"] }

	// run one termination path against x; returns after the call returned
	call := func(x *c16tSess, path string, cause pppoe.TerminateCause) {
		c.S.Logf("call %s s%d", path, x.idx)
		switch path {
		case "padt":
			if s := sm.GetSession(x.id); s != nil {
				td.HandleClientPADT(s, x.mac, x.id)
			}
		case "term":
			if s := sm.GetSession(x.id); s != nil {
				td.TerminateSession(s, cause, "")
			}
		case "by-id":
			td.TerminateByID(x.id, "admin")
		case "by-mac":
			td.TerminateByMAC(x.mac, "admin")
		case "by-user":
			td.TerminateByUsername(x.user, "admin")
		case "all":
			td.TerminateAll(cause, "maintenance")
		}
		c.OpsDone++
	}
	mark := func(x *c16tSess, path, label, collateral string) {
		// the server takes a session it tore down out of keep-alive monitoring
		if path == "all" {
			for _, y := range ss {
				if y != x && up(y) {
					y.ended = collateral
					ka.UnregisterSession(y.id)
				}
			}
		}
		if x.ended == "" && path != "keepalive" {
			ka.UnregisterSession(x.id)
		}
		x.ended = label
	}
	// keep-alive death of x: its peer stops answering; returns true once the
	// keep-alive manager has counted a dead session. onKill, if set, runs at the
	// instant the harness first sees the count go up.
	kaDeath := func(x *c16tSess, onKill func()) bool {
		if x.stage != 4 || !up(x) {
			return false
		}
		dead[x.key] = true
		k0 := killed()
		// align with the manager's ticker so that the harness wakes at tick instants
		if off := (c.S.Now() - kaStart) % kcfg.Interval; off != 0 {
			c.S.Sleep(kcfg.Interval - off)
			touch()
		}
		limit := kcfg.IdleThreshold + time.Duration(kcfg.MaxFailures+4)*kcfg.Interval
		for el := time.Duration(0); el < limit; el += kcfg.Interval {
			if killed() > k0 {
				break
			}
			c.S.Sleep(kcfg.Interval)
			touch()
		}
		if killed() == k0 {
			c.S.Probe("keepalive-never-declared-dead")
			return false
		}
		c.OpsDone++
		if onKill != nil {
			onKill()
		}
		return true
	}
	// kaAudit: the keep-alive manager counted x as dead; was anything done about it?
	kaAudit := func(x *c16tSess) {
		if kaTerm[x.key] == 0 {
			c.Fail("not-terminated", "pppoe-teardown/not-terminated/keepalive", "session %d (s%d) stopped answering LCP echoes and the keep-alive manager counted it as a dead session (sessions_killed), but the callback installed with SetTerminateSession was never invoked: address %v released %d times, fast-path entry present=%v, session still in the table=%v, Accounting-Stop received=%d",
				x.id, x.idx, x.addr, pool.releases[x.key], fast[x.key], sm.GetSession(x.id) != nil, c16stops(acct, x.key))
		}
	}
	settle := func() {
		d := time.Duration(tcfg.PADTRetries+1)*tcfg.PADTRetryDelay + 2*time.Second
		if acctSilent {
			// the Stop attempt waits for an answer that never comes: the cleanup goes on when its
			// RADIUS timeout or, at the latest, its overall cleanup timeout has run out
			d += tcfg.CleanupTimeout + time.Second
		}
		sleepBusy(d)
	}

	// auditAll audits every session that has been ended, under the label of the
	// steps that ended it so far. It runs after every termination step has
	// settled and once more at the end; a residue that was reported for a session
	// under a shorter label is not reported again when a later step leaves it as
	// it was.
	auditAll := func() {
		for _, x := range ss {
			if x.stage < 1 || x.ended == "" {
				continue
			}
			l := x.ended
			if l == "keepalive" && kaTerm[x.key] == 0 {
				continue // nothing at all was done about it: reported once by kaAudit, not once per resource
			}
			once := func(kind string) bool {
				if x.reported[kind] {
					return false
				}
				if x.reported == nil {
					x.reported = map[string]bool{}
				}
				x.reported[kind] = true
				return true
			}
			if x.fast && fast[x.key] && once("fastpath") {
				c.Fail("fastpath-not-removed", "pppoe-teardown/fastpath/"+l, "session %d (s%d) ended by %s but its fast-path entry was never removed (eBPF callback called with remove=true %d times)", x.id, x.idx, l, removes[x.key])
			}
			if s := sm.GetSession(x.id); s != nil && s.SessionID == x.key {
				if once("table") {
					c.Fail("session-not-removed", "pppoe-teardown/session-table/"+l, "session %d (s%d) ended by %s but SessionManager.GetSession still returns it (state %v)", x.id, x.idx, l, s.GetState())
				}
			} else if s := sm.GetSessionByMAC(x.mac); s != nil && s.SessionID == x.key && once("table-mac") {
				c.Fail("session-not-removed", "pppoe-teardown/session-table-mac/"+l, "session %d (s%d) ended by %s but SessionManager.GetSessionByMAC still returns it", x.id, x.idx, l)
			}
			if x.addr != nil {
				switch r := pool.releases[x.key]; {
				case r == 0 && once("address"):
					c.Fail("address-not-released", "pppoe-teardown/address/"+l, "session %d (s%d, address %v) ended by %s but IPPool.Release was never called for it", x.id, x.idx, x.addr, l)
				case r > 1 && once("address-twice"):
					c.Fail("double-release", "pppoe-teardown/address-released-twice/"+l, "session %d (s%d, address %v) ended by %s: IPPool.Release was called %d times for it", x.id, x.idx, x.addr, l, r)
				}
			}
			if withRadius && !acctSilent { // (a silent accounting server receives nothing: no Stop can be demanded of it)
				st := c16stops(acct, x.key)
				switch {
				case x.started && st == 0 && once("acct0"):
					c.Fail("acct", "pppoe-teardown/acct-stops=0/"+l, "session %d (s%d) had its Accounting-Start acknowledged and was ended by %s: the RADIUS server received no Accounting-Stop", x.id, x.idx, l)
				case st > 1 && once("acct2"):
					c.Fail("acct", "pppoe-teardown/acct-stops=2/"+l, "session %d (s%d, Accounting-Start acknowledged: %v) was ended by %s: the RADIUS server received %d Accounting-Stop for it (want exactly one)", x.id, x.idx, x.started, l, st)
				case !x.started && st == 1 && once("probe"):
					c.S.Probe("stop-without-start")
				}
			}
		}
	}

	for i, op := range cs.Ops {
		c.OpIdx = i
		if c.Failed() {
			break
		}
		si := int(op.Arg(0))
		if si < 0 || si >= len(ss) {
			continue
		}
		x := ss[si]
		cause := pppoe.TerminateCause(op.Arg(1))
		if cause < 1 || cause > 18 {
			cause = pppoe.TerminateCauseAdminReset
		}
		switch op.K {
		case "create":
			if x.stage != 0 {
				continue
			}
			s, err := sm.CreateSession(x.mac, serverMAC)
			if err != nil {
				continue
			}
			if byKey[s.SessionID] != nil {
				// session identities come from crypto/rand, i.e. from the tape; a zeroed
				// (shrunk) tape gives every session the same one: not a meaningful run
				c.S.Probe("session-identity-collision")
				return
			}
			x.id, x.key, x.stage = s.ID, s.SessionID, 1
			byKey[x.key] = x
			s.SetState(pppoe.StateLCPNegotiation)
			c.OpsDone++
			if cs.Knob("idwrap", 0) == 1 && si == 0 {
				// other clients come and go until the id counter is back at this session's id
				quantum := c.S.SkipMax
				c.S.SkipMax = 4096
				spin := net.HardwareAddr{0x02, 0x20, 0xff, 0, 0, 1}
				for k := 0; k < 65534; k++ {
					t, err := sm.CreateSession(spin, serverMAC)
					if err != nil {
						break
					}
					sm.RemoveSession(t.ID)
				}
				c.S.SkipMax = quantum
				c.S.Probe("session_id_counter_wrapped")
			}
		case "auth":
			s := sm.GetSession(x.id)
			if x.stage != 1 || !up(x) || s == nil {
				continue
			}
			s.Username, s.Authenticated, s.AuthMethod = x.user, true, "PAP"
			s.SetState(pppoe.StateIPCPNegotiation)
			x.stage = 2
			c.OpsDone++
		case "ip":
			s := sm.GetSession(x.id)
			if x.stage != 2 || !up(x) || s == nil {
				continue
			}
			if ip := pool.Allocate(s.SessionID); ip != nil {
				s.ClientIP = ip
				x.addr = append(net.IP(nil), ip.To4()...)
			}
			x.stage = 3
			c.OpsDone++
		case "up":
			s := sm.GetSession(x.id)
			if x.stage != 3 || !up(x) || s == nil || x.addr == nil {
				continue
			}
			s.SetState(pppoe.StateEstablished)
			fast[x.key] = true
			x.fast = true
			c.S.Logf("ebpf add %s", c16short(x.key))
			if rcl != nil {
				t := c.S.Spawn("acct-start", nil, func() {
					ctx, cancel := context.WithTimeout(context.Background(), 5*time.Second)
					defer cancel()
					if err := rcl.SendAccounting(ctx, &bngradius.AcctRequest{SessionID: s.SessionID, Username: s.Username, MAC: s.ClientMAC,
						FramedIP: s.ClientIP, StatusType: bngradius.AcctStatusStart}); err == nil {
						x.started = true
					}
				})
				c.S.Join(t)
			}
			ka.RegisterSession(s)
			x.stage = 4
			c.OpsDone++
		case "end":
			if !up(x) {
				continue
			}
			label := ""
			for k := 0; k < 2 && k < len(op.S); k++ {
				path := op.Str(k)
				if path == "by-user" && x.stage < 2 {
					continue // a session without a user name cannot be named by one
				}
				if path == "keepalive" {
					if !kaDeath(x, nil) {
						continue
					}
				} else {
					t := c.S.Spawn("end", nil, func() { call(x, path, cause) })
					c.S.Join(t)
				}
				settle()
				if path == "keepalive" {
					kaAudit(x)
				}
				if label == "" {
					label = path
				} else {
					label += "+" + path
				}
				mark(x, path, label, "all")
				auditAll()
				if c.Failed() {
					break
				}
			}
		case "end2":
			if !up(x) {
				continue
			}
			p1, p2 := op.Str(0), op.Str(1)
			if x.stage < 2 {
				if p1 == "by-user" {
					p1 = "by-id"
				}
				if p2 == "by-user" {
					p2 = "by-id"
				}
			}
			if p1 == "keepalive" && p2 == "keepalive" {
				p2 = "padt"
			}
			if p2 == "keepalive" {
				p1, p2 = p2, p1
			}
			a, b := c16tClass(p1), c16tClass(p2)
			if a > b {
				a, b = b, a
			}
			label := a + "|" + b
			c.S.Fault("terminate.concurrent")
			if p1 == "keepalive" {
				// the other path is taken at the instant the harness sees the
				// keep-alive manager count the session as dead
				var t *simrt.Task
				if !kaDeath(x, func() { t = c.S.Spawn("end", nil, func() { call(x, p2, cause) }) }) {
					continue
				}
				c.S.Join(t)
			} else {
				t1 := c.S.Spawn("end", nil, func() { call(x, p1, cause) })
				t2 := c.S.Spawn("end", nil, func() { call(x, p2, cause) })
				var fresh *pppoe.Session
				if cs.Knob("idwrap", 0) == 1 {
					// a new client connects while the old session is being ended
					t3 := c.S.Spawn("newcomer", nil, func() {
						// ... as soon as the old session has left the table (its id is free again)
						deadline := c.S.Now() + 30*time.Second
						c.S.WaitUntil(func() bool { return sm.GetSession(x.id) == nil || c.S.Now() >= deadline })
						fresh, _ = sm.CreateSession(net.HardwareAddr{0x02, 0xdd, 0, 0, 3, 1}, serverMAC)
					})
					c.S.Join(t3)
				}
				c.S.Join(t1, t2)
				if fresh != nil {
					settle()
					if fresh.ID == x.id {
						c.S.Probe("session_id_reused_during_termination")
					}
					if a := acct[fresh.SessionID]; a != nil && a.stops > 0 {
						c.Fail("acct", "pppoe-teardown/newcomer-stopped/"+label, "a session created while session %d was being ended (id reused: %v) got %d Accounting-Stop although nobody ended it", x.id, fresh.ID == x.id, a.stops)
					}
					if sm.GetSession(fresh.ID) != fresh {
						c.Fail("not-disturbed", "pppoe-teardown/newcomer-removed/"+label, "a session created while session %d was being ended (id reused: %v) is gone from the session table although nobody ended it", x.id, fresh.ID == x.id)
					}
					sm.RemoveSession(fresh.ID)
				}
			}
			settle()
			mark(x, p1, label, label)
			mark(x, p2, label, label)
			auditAll()
		}
	}
	// quiescence
	settle()
	c.S.Join(kaTasks...)

	// ---- audit -------------------------------------------------------------------
	auditAll()
	liveAddr := map[string]bool{}
	for _, x := range ss {
		if x.stage >= 1 && x.ended == "" && x.addr != nil {
			liveAddr[x.addr.String()] = true
		}
	}
	// the addresses of ended sessions are obtainable again, each once
	got := map[string]int{}
	for i := 0; i < total+1; i++ {
		ip := pool.Allocate(fmt.Sprintf("fresh-%d", i))
		if ip == nil {
			break
		}
		got[ip.String()]++
		if liveAddr[ip.String()] {
			c.Fail("double-free", "pppoe-teardown/address-of-live-session-reassigned", "address %v belongs to a session that is still up and was allocated again", ip)
		}
		if got[ip.String()] > 1 {
			c.Fail("double-free", "pppoe-teardown/address-handed-out-twice", "address %v was allocated to two fresh sessions", ip)
		}
	}
	if !c.Failed() {
		for _, x := range ss {
			if x.addr != nil && x.ended != "" && got[x.addr.String()] == 0 && !(kaTerm[x.key] == 0 && x.ended == "keepalive") {
				c.Fail("address-not-released", "pppoe-teardown/address-not-obtainable/"+x.ended, "session %d (s%d) ended by %s, IPPool.Release was called %d times, but its address %v cannot be allocated again", x.id, x.idx, x.ended, pool.releases[x.key], x.addr)
			}
		}
	}
	c.State(uint64(len(liveAddr))<<8 | uint64(len(got)))
}

func c16stops(acct map[string]*c16acct, key string) int {
	if a := acct[key]; a != nil {
		return a.stops
	}
	return 0
}

func init() {
	c16Variants["pppoe-teardown"] = &c16Variant{gen: c16GenTeardown, run: c16RunTeardown, weight: 6}
}
