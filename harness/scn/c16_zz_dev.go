package scn

import "os"

// temporary development aid: VF_C16_ONLY=<variant> zeroes the other weights
func init() {
	if v := os.Getenv("VF_C16_ONLY"); v != "" {
		for n, x := range c16Variants {
			if n != v {
				x.weight = 0
			}
		}
	}
}
