package scn

import (
	"encoding/json"
	"os"
	"path/filepath"
	"sort"
	"strconv"
	"strings"
	"time"
)

// Independent resolver for the NAT log: written from the on-disk formats of
// pkg/nat/logging.go (bulk RFC 6908 port-block records and per-allocation
// records, as JSON / syslog / CSV / NEL lines). It answers the compliance
// question "who held (public address, port) at time t" from the files alone.

type c10rec struct {
	t      time.Time
	hasT   bool
	assign bool
	priv   string
	pub    string
	start  int
	end    int // -1: the record does not carry the end of the range
	seq    int // position in the concatenated log
}

// c10readLogDir returns the lines of every file in dir, rotated files
// (name.<timestamp>) first in name order, the live file last.
func c10readLogDir(dir, base string) (lines []string, files int, err error) {
	ents, err := os.ReadDir(dir)
	if err != nil {
		return nil, 0, err
	}
	var rotated []string
	live := false
	for _, e := range ents {
		if e.IsDir() {
			continue
		}
		if e.Name() == base {
			live = true
		} else {
			rotated = append(rotated, e.Name())
		}
	}
	sort.Strings(rotated)
	names := rotated
	if live {
		names = append(names, base)
	}
	for _, n := range names {
		b, err := os.ReadFile(filepath.Join(dir, n))
		if err != nil {
			return nil, 0, err
		}
		files++
		for _, l := range strings.Split(string(b), "\n") {
			if strings.TrimSpace(l) != "" {
				lines = append(lines, l)
			}
		}
	}
	return lines, files, nil
}

func c10num(v any) int {
	switch x := v.(type) {
	case float64:
		return int(x)
	case string:
		n, _ := strconv.Atoi(x)
		return n
	}
	return 0
}

func c10str(v any) string {
	s, _ := v.(string)
	return s
}

// c10parseLine parses one log line of any of the formats. relevant=false means
// the line is well-formed but is not a block assignment/release record.
func c10parseLine(l string) (r c10rec, relevant bool, ok bool) {
	r.end = -1
	ev := ""
	switch {
	case strings.HasPrefix(l, "{"):
		var m map[string]any
		if json.Unmarshal([]byte(l), &m) != nil {
			return r, false, false
		}
		if body, isNEL := m["body"].(map[string]any); isNEL {
			ev = c10str(body["event"])
			r.priv, r.pub = c10str(body["private_ip"]), c10str(body["public_ip"])
			r.start = c10num(body["public_port"])
			if ts, has := m["timestamp"]; has {
				if t, err := time.Parse(time.RFC3339Nano, c10str(ts)); err == nil {
					r.t, r.hasT = t, true
				}
			}
			break
		}
		ev = c10str(m["event_type"])
		r.priv, r.pub = c10str(m["private_ip"]), c10str(m["public_ip"])
		if t, err := time.Parse(time.RFC3339Nano, c10str(m["timestamp"])); err == nil {
			r.t, r.hasT = t, true
		}
		if _, bulk := m["port_start"]; bulk {
			r.start = c10num(m["port_start"])
			if e := c10num(m["port_end"]); e >= r.start && e > 0 {
				r.end = e
			} else if bs := c10num(m["block_size"]); bs > 0 {
				r.end = r.start + bs - 1
			}
		} else {
			r.start = c10num(m["public_port"])
		}
	case strings.Contains(l, " NAT "):
		f := strings.Fields(l)
		if len(f) < 4 || f[1] != "NAT" {
			return r, false, false
		}
		if t, err := time.Parse(time.RFC3339, f[0]); err == nil {
			r.t, r.hasT = t, true
		}
		ev = strings.TrimSuffix(f[2], ":")
		for _, kv := range f[3:] {
			k, v, found := strings.Cut(kv, "=")
			if !found {
				continue
			}
			switch k {
			case "private":
				r.priv, _, _ = strings.Cut(v, ":")
			case "public":
				ip, port, has := strings.Cut(v, ":")
				r.pub = ip
				if has {
					r.start, _ = strconv.Atoi(port)
				}
			case "ports":
				a, b, _ := strings.Cut(v, "-")
				r.start, _ = strconv.Atoi(a)
				if e, err := strconv.Atoi(b); err == nil && e >= r.start && e > 0 {
					r.end = e
				}
			}
		}
	default:
		f := strings.Split(l, ",")
		if len(f) != 13 {
			return r, false, false
		}
		if t, err := time.Parse(time.RFC3339, f[0]); err == nil {
			r.t, r.hasT = t, true
		}
		ev = f[1]
		r.priv, r.pub = f[3], f[5]
		r.start, _ = strconv.Atoi(f[6])
	}
	switch ev {
	case "port_block_assign", "allocate":
		r.assign = true
	case "port_block_release", "deallocate":
		r.assign = false
	default:
		return r, false, true
	}
	if r.priv == "" || r.pub == "" || r.start <= 0 {
		return r, true, false
	}
	return r, true, true
}

type c10iv struct {
	priv, pub  string
	start, end int
	from, to   time.Time
	open       bool
}

// c10resolve turns the records into holding intervals. A record that does not
// carry the end of its range is completed with the configured block size (the
// operator of the gateway knows its configuration).
func c10resolve(recs []c10rec, size int) (ivs []*c10iv, unmatched int) {
	sort.SliceStable(recs, func(i, j int) bool { return recs[i].t.Before(recs[j].t) })
	for _, r := range recs {
		if r.assign {
			end := r.end
			if end < 0 {
				end = r.start + size - 1
			}
			ivs = append(ivs, &c10iv{priv: r.priv, pub: r.pub, start: r.start, end: end, from: r.t, open: true})
			continue
		}
		found := false
		for i := len(ivs) - 1; i >= 0; i-- {
			v := ivs[i]
			if v.open && v.priv == r.priv && v.pub == r.pub && v.start == r.start {
				v.open, v.to = false, r.t
				found = true
				break
			}
		}
		if !found {
			unmatched++
		}
	}
	return
}

// c10query: the distinct private addresses the log attributes (pub, port) to at q.
func c10query(ivs []*c10iv, pub string, port int, q time.Time) []string {
	var out []string
	for _, v := range ivs {
		if v.pub != pub || port < v.start || port > v.end || q.Before(v.from) {
			continue
		}
		if !v.open && !q.Before(v.to) {
			continue
		}
		dup := false
		for _, o := range out {
			if o == v.priv {
				dup = true
			}
		}
		if !dup {
			out = append(out, v.priv)
		}
	}
	sort.Strings(out)
	return out
}
