package scn

import (
	"context"
	"encoding/json"
	"fmt"
	"math/big"
	"net"
	"sort"
	"strings"
	"time"

	"github.com/codelaboratoryltd/bng/pkg/allocator"

	"verif/harness/sim"
)

// Oracle (4): Unmarshal(Marshal(a)) answers every read query like a.

func c12prefixAt(base *net.IPNet, prefixLen int, i uint64) *net.IPNet {
	bits := 32
	ip := base.IP.To4()
	if ip == nil {
		bits = 128
		ip = base.IP.To16()
	}
	v := new(big.Int).SetBytes(ip)
	off := new(big.Int).Lsh(new(big.Int).SetUint64(i), uint(bits-prefixLen))
	v.Add(v, off)
	b := v.Bytes()
	out := make(net.IP, bits/8)
	if len(b) <= len(out) {
		copy(out[len(out)-len(b):], b)
	}
	return &net.IPNet{IP: out, Mask: net.CIDRMask(prefixLen, bits)}
}

func c12ipnetStr(p *net.IPNet) string {
	if p == nil {
		return "<nil>"
	}
	return p.String()
}

func c12listStr(l []allocator.Allocation) string {
	var xs []string
	for _, a := range l {
		xs = append(xs, fmt.Sprintf("%s=%s#%d", a.SubscriberID, c12ipnetStr(a.Prefix), a.Index))
	}
	sort.Strings(xs)
	return strings.Join(xs, ",")
}

// c12CheckIPJSON round-trips a and compares all read queries; it returns the
// restored allocator (nil if the round trip itself failed).
func c12CheckIPJSON(c *sim.Ctx, tag string, a *allocator.IPAllocator, subs []string) *allocator.IPAllocator {
	data, err := json.Marshal(a)
	if err != nil {
		c.Fail("json-roundtrip", "json/"+tag+"/ip/marshal-error", "IPAllocator.MarshalJSON: %v", err)
		return nil
	}
	b := new(allocator.IPAllocator)
	if err := json.Unmarshal(data, b); err != nil {
		c.Fail("json-roundtrip", "json/"+tag+"/ip/unmarshal-error", "IPAllocator.UnmarshalJSON(%s): %v", data, err)
		return nil
	}
	c.S.Probe("json_ip_roundtrips")
	fail := func(q, format string, args ...any) {
		c.Fail("json-roundtrip", "json/"+tag+"/ip/"+q, "IPAllocator restored from %s differs: "+format, append([]any{string(data)}, args...)...)
	}
	aa, at, au := a.Stats()
	ba, bt, bu := b.Stats()
	if aa != ba || at != bt || au != bu {
		fail("Stats", "Stats() original (%d,%d,%.3f) restored (%d,%d,%.3f); ListAllocations original [%s]", aa, at, au, ba, bt, bu, c12listStr(a.ListAllocations()))
	}
	if a.PrefixLength() != b.PrefixLength() || a.IsIPv6() != b.IsIPv6() || a.BaseNetwork().String() != b.BaseNetwork().String() {
		fail("config", "config %s/%d vs %s/%d", a.BaseNetwork(), a.PrefixLength(), b.BaseNetwork(), b.PrefixLength())
	}
	for _, s := range subs {
		if x, y := c12ipnetStr(a.Lookup(s)), c12ipnetStr(b.Lookup(s)); x != y {
			fail("Lookup", "Lookup(%s) original %s restored %s", s, x, y)
		}
	}
	if at <= 64 {
		base := a.BaseNetwork()
		for i := uint64(0); i < at; i++ {
			p := c12prefixAt(base, a.PrefixLength(), i)
			if x, y := a.LookupByPrefix(p), b.LookupByPrefix(p); x != y {
				fail("LookupByPrefix", "LookupByPrefix(%s) original %q restored %q", p, x, y)
			}
			if x, y := a.IsAllocated(p), b.IsAllocated(p); x != y {
				fail("IsAllocated", "IsAllocated(%s) original %v restored %v", p, x, y)
			}
		}
	}
	if x, y := c12listStr(a.ListAllocations()), c12listStr(b.ListAllocations()); x != y {
		fail("ListAllocations", "ListAllocations original [%s] restored [%s]", x, y)
	}
	return b
}

func c12CheckEpochJSON(c *sim.Ctx, tag string, a *allocator.EpochBitmapAllocator, pool c12poolCfg, subs []string) *allocator.EpochBitmapAllocator {
	data, err := json.Marshal(a)
	if err != nil {
		c.Fail("json-roundtrip", "json/"+tag+"/epoch/marshal-error", "EpochBitmapAllocator.MarshalJSON: %v", err)
		return nil
	}
	b := new(allocator.EpochBitmapAllocator)
	if err := json.Unmarshal(data, b); err != nil {
		c.Fail("json-roundtrip", "json/"+tag+"/epoch/unmarshal-error", "EpochBitmapAllocator.UnmarshalJSON(%s): %v", data, err)
		return nil
	}
	c.S.Probe("json_epoch_roundtrips")
	fail := func(q, format string, args ...any) {
		c.Fail("json-roundtrip", "json/"+tag+"/epoch/"+q, "EpochBitmapAllocator restored from %s differs: "+format, append([]any{string(data)}, args...)...)
	}
	aa, at, au := a.Stats()
	ba, bt, bu := b.Stats()
	if aa != ba || at != bt || au != bu {
		fail("Stats", "Stats() original (%d,%d,%.3f) restored (%d,%d,%.3f)", aa, at, au, ba, bt, bu)
	}
	if x, y := a.GetCurrentEpoch(), b.GetCurrentEpoch(); x != y {
		fail("GetCurrentEpoch", "epoch original %d restored %d", x, y)
	}
	for _, s := range subs {
		if x, y := a.Lookup(s).String(), b.Lookup(s).String(); x != y {
			fail("Lookup", "Lookup(%s) original %s restored %s", s, x, y)
		}
	}
	_, base, err := net.ParseCIDR(pool.base)
	if err == nil && at+2 <= 64 {
		for i := uint64(0); i < at+2; i++ {
			ip := c12prefixAt(base, 32, i).IP
			if x, y := a.LookupByIP(ip), b.LookupByIP(ip); x != y {
				fail("LookupByIP", "LookupByIP(%s) original %q restored %q", ip, x, y)
			}
		}
	}
	return b
}

func c12mod(v int64, n int) int { return int(((v % int64(n)) + int64(n)) % int64(n)) }

// ---- MemoryAllocationStore -------------------------------------------------

func c12recStr(r allocator.AllocationRecord) string {
	var md []string
	for k, v := range r.Metadata {
		md = append(md, k+"="+v)
	}
	sort.Strings(md)
	exp := "-"
	if r.ExpiresAt != nil {
		exp = fmt.Sprint(r.ExpiresAt.UnixNano())
	}
	return fmt.Sprintf("%s|%s|%s|%s|%s|%s|%d|%d|%s|%s", r.SubscriberID, r.PoolID, r.PoolType, c12ipnetStr(r.Prefix), r.MAC, r.DUID, r.IAID,
		r.AllocatedAt.UnixNano(), exp, strings.Join(md, ","))
}

func c12recsStr(rs []allocator.AllocationRecord, err error) string {
	if err != nil {
		return "error:" + err.Error()
	}
	var xs []string
	for _, r := range rs {
		xs = append(xs, c12recStr(r))
	}
	sort.Strings(xs)
	return "[" + strings.Join(xs, " ; ") + "]"
}

var c12masPools = []string{"pA", "pB"}
var c12masTypes = []allocator.PoolType{allocator.PoolTypeIPv4Address, allocator.PoolTypeIPv6Address, allocator.PoolTypeIPv6Prefix}

func c12masPrefix(pool int64, idx int64) *net.IPNet {
	idx = ((idx % 6) + 6) % 6
	if c12mod(pool, 2) == 0 {
		return &net.IPNet{IP: net.IPv4(10, 12, 3, byte(idx)).To4(), Mask: net.CIDRMask(32, 32)}
	}
	_, p, _ := net.ParseCIDR(fmt.Sprintf("2001:db8:12:3%d::/64", idx))
	return p
}

func c12CheckStoreJSON(c *sim.Ctx, tag string, a *allocator.MemoryAllocationStore, subs []string) *allocator.MemoryAllocationStore {
	ctx := context.Background()
	data, err := json.Marshal(a)
	if err != nil {
		c.Fail("json-roundtrip", "json/"+tag+"/store/marshal-error", "MemoryAllocationStore.MarshalJSON: %v", err)
		return nil
	}
	b := allocator.NewMemoryAllocationStore()
	if err := json.Unmarshal(data, b); err != nil {
		c.Fail("json-roundtrip", "json/"+tag+"/store/unmarshal-error", "MemoryAllocationStore.UnmarshalJSON(%s): %v", data, err)
		return nil
	}
	c.S.Probe("json_store_roundtrips")
	fail := func(q, format string, args ...any) {
		c.Fail("json-roundtrip", "json/"+tag+"/store/"+q, "MemoryAllocationStore restored from %s differs: "+format, append([]any{string(data)}, args...)...)
	}
	if x, y := a.Count(), b.Count(); x != y {
		fail("Count", "Count original %d restored %d", x, y)
	}
	for _, s := range subs {
		if x, y := c12recsStr(a.GetBySubscriber(ctx, s)), c12recsStr(b.GetBySubscriber(ctx, s)); x != y {
			fail("GetBySubscriber", "GetBySubscriber(%s) original %s restored %s", s, x, y)
		}
	}
	pools := append([]string{c12PoolID}, c12masPools...)
	for _, p := range pools {
		if x, y := c12recsStr(a.GetByPool(ctx, p)), c12recsStr(b.GetByPool(ctx, p)); x != y {
			fail("GetByPool", "GetByPool(%s) original %s restored %s", p, x, y)
		}
		xa, xt, _ := a.GetPoolUtilization(ctx, p)
		ya, yt, _ := b.GetPoolUtilization(ctx, p)
		if xa != ya || xt != yt {
			fail("GetPoolUtilization", "GetPoolUtilization(%s) original (%d,%d) restored (%d,%d)", p, xa, xt, ya, yt)
		}
	}
	for _, t := range c12masTypes {
		if x, y := c12recsStr(a.GetByPoolType(ctx, t)), c12recsStr(b.GetByPoolType(ctx, t)); x != y {
			fail("GetByPoolType", "GetByPoolType(%s) original %s restored %s", t, x, y)
		}
	}
	lp := func(s *allocator.MemoryAllocationStore) string {
		l, _ := s.ListPools(ctx)
		sort.Strings(l)
		return strings.Join(l, ",")
	}
	if x, y := lp(a), lp(b); x != y {
		fail("ListPools", "ListPools original %s restored %s", x, y)
	}
	var ips []net.IP
	for pool := int64(0); pool < 2; pool++ {
		for i := int64(0); i < 6; i++ {
			ips = append(ips, c12masPrefix(pool, i).IP)
		}
	}
	// the addresses a PoolAllocator over the C12 pools hands out
	for _, pc := range c12sessionPools[:2] {
		_, base, _ := net.ParseCIDR(pc.base)
		for i := uint64(0); i < 8; i++ {
			ips = append(ips, c12prefixAt(base, pc.prefixLen, i).IP)
		}
	}
	gi := func(s *allocator.MemoryAllocationStore, ip net.IP) string {
		r, err := s.GetByIP(ctx, ip)
		if err != nil || r == nil {
			return "none"
		}
		return c12recStr(*r)
	}
	for _, ip := range ips {
		if x, y := gi(a, ip), gi(b, ip); x != y {
			fail("GetByIP", "GetByIP(%s) original %s restored %s", ip, x, y)
		}
	}
	return b
}

// ---- the json-* variants -----------------------------------------------------

var c12epochJSONPools = []c12poolCfg{
	{"10.12.1.0/29", 32},
	{"10.12.1.0/28", 32},
	{"10.12.1.0/30", 32},
	{"10.12.2.0/24", 28}, // a pool whose unit is not a host address
}

func c12GenJSON(r *sim.Rand, cs *sim.Case, n int) {
	nsub := r.Range(2, 6)
	switch cs.Variant {
	case "json-ip":
		cs.Knobs["pool"] = int64(r.N(len(c12sessionPools)))
		for i := 0; i < n; i++ {
			s, x := int64(r.N(nsub)), int64(r.N(8))
			switch r.Weighted(8, 3, 4, 2, 4, 2) {
			case 0:
				cs.Ops = append(cs.Ops, sim.Op{K: "alloc", A: []int64{s}})
			case 1:
				cs.Ops = append(cs.Ops, sim.Op{K: "spec", A: []int64{s, x}})
			case 2:
				cs.Ops = append(cs.Ops, sim.Op{K: "rel", A: []int64{s}})
			case 3:
				cs.Ops = append(cs.Ops, sim.Op{K: "relp", A: []int64{x}})
			case 4:
				cs.Ops = append(cs.Ops, sim.Op{K: "set", A: []int64{s, x}})
			case 5:
				cs.Ops = append(cs.Ops, sim.Op{K: "swap"})
			}
		}
	case "json-epoch":
		cs.Knobs["pool"] = int64(r.Weighted(4, 3, 2, 1))
		cs.Knobs["grace"] = int64(r.Weighted(4, 1, 1))
		for i := 0; i < n; i++ {
			s := int64(r.N(nsub))
			switch r.Weighted(8, 3, 4, 5, 2) {
			case 0:
				cs.Ops = append(cs.Ops, sim.Op{K: "alloc", A: []int64{s}})
			case 1:
				cs.Ops = append(cs.Ops, sim.Op{K: "renew", A: []int64{s}})
			case 2:
				cs.Ops = append(cs.Ops, sim.Op{K: "rel", A: []int64{s}})
			case 3:
				cs.Ops = append(cs.Ops, sim.Op{K: "adv"})
			case 4:
				cs.Ops = append(cs.Ops, sim.Op{K: "swap"})
			}
		}
	case "json-store":
		for i := 0; i < n; i++ {
			s, p, x := int64(r.N(nsub)), int64(r.N(2)), int64(r.N(6))
			switch r.Weighted(10, 4, 2, 2) {
			case 0:
				cs.Ops = append(cs.Ops, sim.Op{K: "save", A: []int64{s, p, x, int64(r.N(4))}})
			case 1:
				cs.Ops = append(cs.Ops, sim.Op{K: "remove", A: []int64{s, p}})
			case 2:
				cs.Ops = append(cs.Ops, sim.Op{K: "total", A: []int64{p, int64(r.N(20))}})
			case 3:
				cs.Ops = append(cs.Ops, sim.Op{K: "swap"})
			}
		}
	}
}

func c12RunJSON(c *sim.Ctx) {
	cs := c.Case
	var subs []string
	for i := 0; i < 6; i++ {
		subs = append(subs, fmt.Sprintf("s%d", i))
	}
	ctx := context.Background()
	switch cs.Variant {
	case "json-ip":
		pc := c12sessionPools[int(cs.Knob("pool", 0))%len(c12sessionPools)]
		a, err := allocator.NewIPAllocator(pc.base, pc.prefixLen)
		if err != nil {
			panic(err)
		}
		_, total, _ := a.Stats()
		for i, op := range cs.Ops {
			c.OpIdx = i
			if c.Failed() {
				return
			}
			s := c12sub(op.Arg(0))
			switch op.K {
			case "alloc":
				a.Allocate(s)
			case "spec":
				a.AllocateSpecific(s, c12prefixAt(a.BaseNetwork(), pc.prefixLen, uint64(op.Arg(1))%total))
			case "rel":
				a.Release(s)
			case "relp":
				a.ReleasePrefix(c12prefixAt(a.BaseNetwork(), pc.prefixLen, uint64(op.Arg(0))%total))
			case "set":
				a.SetAllocation(s, c12prefixAt(a.BaseNetwork(), pc.prefixLen, uint64(op.Arg(1))%total))
			}
			c.OpsDone++
			b := c12CheckIPJSON(c, "direct", a, subs)
			if op.K == "swap" && b != nil {
				a = b
			}
			x, _, _ := a.Stats()
			c.State(uint64(len(a.ListAllocations()))<<8 | x)
		}
	case "json-epoch":
		pi := int(cs.Knob("pool", 0)) % len(c12epochJSONPools)
		pc := c12epochJSONPools[pi]
		a, err := allocator.NewEpochBitmapAllocator(allocator.EpochBitmapConfig{BaseNetwork: pc.base, PrefixLength: pc.prefixLen, GracePeriod: uint64(cs.Knob("grace", 0))})
		if err != nil {
			panic(err)
		}
		tag := "direct"
		if pc.prefixLen != 32 {
			tag = "direct-nonhost"
		}
		for i, op := range cs.Ops {
			c.OpIdx = i
			if c.Failed() {
				return
			}
			s := c12sub(op.Arg(0))
			switch op.K {
			case "alloc":
				a.Allocate(ctx, s)
			case "renew":
				a.Renew(ctx, s)
			case "rel":
				a.Release(ctx, s)
			case "adv":
				a.AdvanceEpoch()
			}
			c.OpsDone++
			b := c12CheckEpochJSON(c, tag, a, pc, subs)
			if op.K == "swap" && b != nil {
				a = b
			}
			x, _, _ := a.Stats()
			c.State(a.GetCurrentEpoch()<<8 | x)
		}
	case "json-store":
		a := allocator.NewMemoryAllocationStore()
		for i, op := range cs.Ops {
			c.OpIdx = i
			if c.Failed() {
				return
			}
			switch op.K {
			case "save":
				s, p := c12sub(op.Arg(0)), op.Arg(1)
				rec := allocator.AllocationRecord{SubscriberID: s, PoolID: c12masPools[c12mod(p, 2)], Prefix: c12masPrefix(p, op.Arg(2)),
					AllocatedAt: time.Now(), MAC: "02:00:00:00:12:0" + s[1:]}
				rec.PoolType = c12masTypes[c12mod(p, 2)]
				switch op.Arg(3) {
				case 1:
					t := time.Now().Add(time.Hour)
					rec.ExpiresAt = &t
				case 2:
					rec.Metadata = map[string]string{"k": "v" + s, "z": "1"}
					rec.DUID, rec.IAID = "00:01:"+s, uint32(op.Arg(2))+1
				case 3:
					rec.PoolType = allocator.PoolTypeIPv6Prefix
				}
				a.SaveAllocation(ctx, rec)
			case "remove":
				a.RemoveAllocation(ctx, c12masPools[c12mod(op.Arg(1), 2)], c12sub(op.Arg(0)))
			case "total":
				a.SetPoolTotal(c12masPools[c12mod(op.Arg(0), 2)], int(op.Arg(1)))
			}
			c.S.Sleep(time.Millisecond)
			c.OpsDone++
			b := c12CheckStoreJSON(c, "direct", a, subs)
			if op.K == "swap" && b != nil {
				a = b
			}
			c.State(uint64(a.Count()))
		}
	}
}
