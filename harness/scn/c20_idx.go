package scn

import (
	"context"
	"fmt"
	"net"
	"time"

	"github.com/codelaboratoryltd/bng/pkg/allocator"
	"github.com/codelaboratoryltd/bng/pkg/ebpf"
	"github.com/codelaboratoryltd/bng/pkg/simrt"
	"github.com/codelaboratoryltd/bng/pkg/state"
	"github.com/codelaboratoryltd/bng/pkg/subscriber"
	"go.uber.org/zap"

	"verif/harness/sim"
)

// Secondary-index components: state.Store (sessions / leases by MAC and IP),
// allocator.MemoryAllocationStore, subscriber.Manager, and the circuit-id keys.
// Checked at every quiescent point: a lookup by key returns a live entity that
// carries this key, and every live entity is found under each of its keys.

func c20ip(i int) net.IP { return net.IPv4(10, 20, 0, byte(10+i)).To4() }

// ---------------------------------------------------------------------------
// state.Store

type c20sslot struct {
	id      string
	mac, ip int
	live    bool
	ready   bool // the create call has returned
}

type c20state struct {
	c     *sim.Ctx
	st    *state.Store
	lease bool
	n     int
	slots []*c20sslot
	name  string
	next  int
	an    c20anoms
	taint map[string]bool // index keys left inconsistent by a reported update (not judged again)
	upd   [3]int          // last update: {1 mac / 0 ip, old key, new key}
}

func newC20state(c *sim.Ctx, nent int, lease bool) *c20state {
	w := &c20state{c: c, st: state.NewStore(state.DefaultConfig(), zap.NewNop()), lease: lease, n: nent, name: "state-session"}
	if lease {
		w.name = "state-lease"
	}
	return w
}

func (w *c20state) barrier(k string) bool { return k == "update" }

func (w *c20state) byID(id string) (mac net.HardwareAddr, ip net.IP, ok bool) {
	if w.lease {
		l, err := w.st.GetLease(id)
		if err != nil || l == nil {
			return nil, nil, false
		}
		return l.MAC, l.IPv4, true
	}
	s, err := w.st.GetSession(id)
	if err != nil || s == nil {
		return nil, nil, false
	}
	return s.MAC, s.IPv4, true
}

func (w *c20state) byKey(mac bool, k int) (id string, m net.HardwareAddr, ip net.IP, ok bool, dangling bool) {
	if w.lease {
		var l *state.Lease
		var err error
		if mac {
			l, err = w.st.GetLeaseByMAC(c20mac(k))
		} else {
			l, err = w.st.GetLeaseByIP(c20ip(k))
		}
		if err != nil {
			return "", nil, nil, false, false
		}
		if l == nil {
			return "", nil, nil, false, true
		}
		return l.ID, l.MAC, l.IPv4, true, false
	}
	var s *state.Session
	var err error
	if mac {
		s, err = w.st.GetSessionByMAC(c20mac(k))
	} else {
		s, err = w.st.GetSessionByIP(c20ip(k))
	}
	if err != nil {
		return "", nil, nil, false, false
	}
	if s == nil {
		return "", nil, nil, false, true
	}
	return s.ID, s.MAC, s.IPv4, true, false
}

func (w *c20state) exec(op sim.Op) string {
	switch op.K {
	case "create":
		sl := &c20sslot{id: fmt.Sprintf("e%d", w.next), mac: c20idx(op.Arg(1), w.n), ip: c20idx(op.Arg(2), w.n), live: true}
		w.next++
		// MAC and address are exclusive keys of this store (its indexes are single-valued):
		// a well-behaved caller never gives a key of a live entity to a second one
		for _, o := range w.slots {
			if o.live && (o.ip == sl.ip || o.mac == sl.mac) {
				return "create skipped (key in use)"
			}
		}
		w.slots = append(w.slots, sl)
		var err error
		if w.lease {
			err = w.st.CreateLease(&state.Lease{ID: sl.id, MAC: c20mac(sl.mac), IPv4: c20ip(sl.ip), PoolID: "p"})
		} else {
			err = w.st.CreateSession(&state.Session{ID: sl.id, MAC: c20mac(sl.mac), IPv4: c20ip(sl.ip)})
		}
		sl.ready = true
		if err != nil {
			sl.live = false
			return "create failed"
		}
		return fmt.Sprintf("create %s mac#%d ip#%d", sl.id, sl.mac, sl.ip)
	case "delete":
		if len(w.slots) == 0 {
			return "delete -"
		}
		sl := w.slots[c20idx(op.Arg(1), len(w.slots))]
		if !sl.ready {
			return "delete skipped (create in flight)"
		}
		if w.lease {
			w.st.DeleteLease(sl.id)
		} else {
			w.st.DeleteSession(sl.id)
		}
		sl.live = false
		return "delete " + sl.id
	case "update":
		// change the MAC (Arg(2)==0) or the address of a live entity to a key nobody carries
		if len(w.slots) == 0 {
			return "update -"
		}
		sl := w.slots[c20idx(op.Arg(1), len(w.slots))]
		nk := c20idx(op.Arg(3), w.n)
		byMac := op.Arg(2)%2 == 0
		if !sl.live || !sl.ready {
			return "update skipped (not live)"
		}
		for _, o := range w.slots {
			if o.live && ((byMac && o.mac == nk) || (!byMac && o.ip == nk)) {
				return "update skipped (key in use)"
			}
		}
		mac, ip := sl.mac, sl.ip
		if byMac {
			mac = nk
		} else {
			ip = nk
		}
		var err error
		if w.lease {
			err = w.st.UpdateLease(&state.Lease{ID: sl.id, MAC: c20mac(mac), IPv4: c20ip(ip), PoolID: "p"})
		} else {
			err = w.st.UpdateSession(&state.Session{ID: sl.id, MAC: c20mac(mac), IPv4: c20ip(ip)})
		}
		if err != nil {
			return "update failed"
		}
		w.upd = [3]int{-1, -1, -1}
		if byMac {
			w.upd = [3]int{1, sl.mac, nk}
		} else {
			w.upd = [3]int{0, sl.ip, nk}
		}
		sl.mac, sl.ip = mac, ip
		return fmt.Sprintf("update %s -> mac#%d ip#%d", sl.id, mac, ip)
	case "bymac":
		w.byKey(true, c20idx(op.Arg(1), w.n))
	case "byip":
		w.byKey(false, c20idx(op.Arg(1), w.n))
	}
	return op.K
}

func (w *c20state) check(after string) {
	c := w.c
	w.an.begin()
	defer w.an.end()
	live := map[string]*c20sslot{}
	for _, sl := range w.slots {
		mac, ip, ok := w.byID(sl.id)
		if sl.live {
			live[sl.id] = sl
			if !ok {
				if w.an.fresh("id-missing/" + sl.id) {
					c.Fail("others-unchanged", w.name+"/by-id/missing/after-"+after, "entity %s was not deleted but the lookup by id fails", sl.id)
				}
			} else if (mac.String() != c20mac(sl.mac).String() || !ip.Equal(c20ip(sl.ip))) && w.an.fresh("id-wrong/"+sl.id) {
				c.Fail("lookups-agree", w.name+"/by-id/wrong/after-"+after, "entity %s has MAC %v IP %v, created with MAC #%d IP #%d", sl.id, mac, ip, sl.mac, sl.ip)
			}
		} else if ok && w.an.fresh("id-ghost/"+sl.id) {
			c.Fail("release", w.name+"/by-id/ghost/after-"+after, "entity %s was deleted but the lookup by id still finds it", sl.id)
		}
	}
	for _, byMac := range []bool{true, false} {
		kind := "by-ip"
		if byMac {
			kind = "by-mac"
		}
		for k := 0; k < w.n; k++ {
			var owners []string
			for _, sl := range w.slots {
				if sl.live && ((byMac && sl.mac == k) || (!byMac && sl.ip == k)) {
					owners = append(owners, sl.id)
				}
			}
			if w.taint[fmt.Sprintf("%s/%d", kind, k)] {
				continue
			}
			id, mac, ip, ok, dangling := w.byKey(byMac, k)
			if (dangling || (!ok && len(owners) > 0)) && !w.an.fresh(fmt.Sprintf("%s-lost/%d", kind, k)) {
				continue
			}
			if after == "update" {
				// a key change through Update: the old key must stop resolving, the new one must resolve
				l := live[id]
				bad := dangling || (!ok && len(owners) > 0) ||
					(ok && !(l != nil && ((byMac && l.mac == k) || (!byMac && l.ip == k))))
				if bad {
					if w.taint == nil {
						w.taint = map[string]bool{}
					}
					w.taint[fmt.Sprintf("%s/%d", kind, w.upd[1])] = true
					w.taint[fmt.Sprintf("%s/%d", kind, w.upd[2])] = true
					c.Fail("lookups-agree", w.name+"/"+kind+"/not-reindexed/after-update", "after Update changed the key of an entity from #%d to #%d, lookup %s #%d returns %q (found=%v); live carriers of #%d: %v", w.upd[1], w.upd[2], kind, k, id, ok, k, owners)
				}
				continue
			}
			switch {
			case dangling:
				c.Fail("lookups-agree", w.name+"/"+kind+"/dangling/after-"+after, "lookup %s #%d returns a nil entity without error (index points to a deleted entity); live owners %v", kind, k, owners)
			case !ok && len(owners) > 0:
				c.Fail("lookups-agree", w.name+"/"+kind+"/lost/after-"+after, "lookup %s #%d finds nothing although %v (live, found by id) carry that key", kind, k, owners)
			case ok:
				l := live[id]
				carries := l != nil && ((byMac && l.mac == k && mac.String() == c20mac(k).String()) || (!byMac && l.ip == k && ip.Equal(c20ip(k))))
				if !carries && w.an.fresh(fmt.Sprintf("%s-stale/%d", kind, k)) {
					c.Fail("lookups-agree", w.name+"/"+kind+"/stale/after-"+after, "lookup %s #%d returns %s (MAC %v IP %v) which is not a live entity with that key; live owners %v", kind, k, id, mac, ip, owners)
				}
			}
		}
	}
	c.State(uint64(len(live))<<8 | uint64(len(w.slots)) | 0x20a000)
}

func (w *c20state) seq(op sim.Op) {
	w.c.S.Logf("%s", w.exec(op))
	w.check(op.K)
}
func (w *c20state) par(client int, op sim.Op) { w.c.S.Logf("c%d %s", client, w.exec(op)) }
func (w *c20state) quiesce()                  { w.check("conc") }
func (w *c20state) finish()                   {}

// ---------------------------------------------------------------------------
// allocator.MemoryAllocationStore: IP <-> (pool, subscriber)

type c20astore struct {
	c     *sim.Ctx
	st    *allocator.MemoryAllocationStore
	n     int
	model map[[2]int]int // (sub, pool) -> ip
	ever  map[int]bool
	an    c20anoms
}

func newC20astore(c *sim.Ctx, nent int) *c20astore {
	return &c20astore{c: c, st: allocator.NewMemoryAllocationStore(), n: nent, model: map[[2]int]int{}, ever: map[int]bool{}}
}

func (w *c20astore) barrier(string) bool { return false }

func c20pool(i int) string { return fmt.Sprintf("pool%d", i) }

func (w *c20astore) holder(ip int) ([2]int, bool) {
	for k, v := range w.model {
		if v == ip {
			return k, true
		}
	}
	return [2]int{}, false
}

func (w *c20astore) exec(op sim.Op, checked bool) string {
	c := w.c
	ctx := context.Background()
	switch op.K {
	case "save":
		sub, pool, ip := c20idx(op.Arg(1), w.n), c20idx(op.Arg(2), 2), c20idx(op.Arg(3), w.n)
		key := [2]int{sub, pool}
		err := w.st.SaveAllocation(ctx, allocator.AllocationRecord{SubscriberID: c20sub(sub), PoolID: c20pool(pool),
			Prefix: &net.IPNet{IP: c20ip(ip), Mask: net.CIDRMask(32, 32)}})
		// no yield between the store's critical section and here: the model is updated in lock order
		h, held := w.holder(ip)
		if err == nil {
			if held && h != key && checked {
				c.Fail("unique", "allocstore/save/took-held-ip", "SaveAllocation(%s,%s,ip#%d) succeeded although the address identifies %s in %s", c20sub(sub), c20pool(pool), ip, c20sub(h[0]), c20pool(h[1]))
			}
			if held && h != key {
				delete(w.model, h)
			}
			w.model[key] = ip
			w.ever[ip] = true
		} else if !held && w.ever[ip] && checked {
			c.Fail("reusable", "allocstore/save/released-ip-rejected", "SaveAllocation(%s,%s,ip#%d) failed (%v) although the address was released and identifies nobody", c20sub(sub), c20pool(pool), ip, err)
		}
		return fmt.Sprintf("save %s %s ip#%d -> %v", c20sub(sub), c20pool(pool), ip, err != nil)
	case "remove":
		sub, pool := c20idx(op.Arg(1), w.n), c20idx(op.Arg(2), 2)
		w.st.RemoveAllocation(ctx, c20pool(pool), c20sub(sub))
		delete(w.model, [2]int{sub, pool})
		return fmt.Sprintf("remove %s %s", c20sub(sub), c20pool(pool))
	case "byip":
		w.st.GetByIP(ctx, c20ip(c20idx(op.Arg(1), w.n)))
	case "bysub":
		w.st.GetBySubscriber(ctx, c20sub(c20idx(op.Arg(1), w.n)))
	}
	return op.K
}

func (w *c20astore) check(after string) {
	c := w.c
	ctx := context.Background()
	w.an.begin()
	defer w.an.end()
	for ip := 0; ip < w.n; ip++ {
		rec, err := w.st.GetByIP(ctx, c20ip(ip))
		h, held := w.holder(ip)
		found := err == nil && rec != nil
		if (found != held || (found && (rec.SubscriberID != c20sub(h[0]) || rec.PoolID != c20pool(h[1])))) && !w.an.fresh(fmt.Sprintf("byip/%d/%v/%v", ip, found, held)) {
			continue
		}
		switch {
		case (err != nil || rec == nil) && held:
			c.Fail("lookups-agree", "allocstore/by-ip/lost/after-"+after, "GetByIP(ip#%d) finds nothing although %s holds it in %s", ip, c20sub(h[0]), c20pool(h[1]))
		case err == nil && rec != nil && !held:
			c.Fail("lookups-agree", "allocstore/by-ip/stale/after-"+after, "GetByIP(ip#%d) returns %s/%s although nobody holds the address (by subscriber: %v)", ip, rec.SubscriberID, rec.PoolID, w.subView(rec.SubscriberID))
		case err == nil && rec != nil:
			if rec.SubscriberID != c20sub(h[0]) || rec.PoolID != c20pool(h[1]) || !rec.Prefix.IP.Equal(c20ip(ip)) {
				c.Fail("lookups-agree", "allocstore/by-ip/wrong/after-"+after, "GetByIP(ip#%d) returns %s/%s %v, the holder is %s/%s", ip, rec.SubscriberID, rec.PoolID, rec.Prefix, c20sub(h[0]), c20pool(h[1]))
			}
		}
	}
	for sub := 0; sub < w.n; sub++ {
		recs, _ := w.st.GetBySubscriber(ctx, c20sub(sub))
		got := map[int]string{}
		for _, r := range recs {
			for p := 0; p < 2; p++ {
				if r.PoolID == c20pool(p) {
					got[p] = r.Prefix.IP.String()
				}
			}
		}
		for p := 0; p < 2; p++ {
			want := ""
			if ip, ok := w.model[[2]int{sub, p}]; ok {
				want = c20ip(ip).String()
			}
			if got[p] != want && w.an.fresh(fmt.Sprintf("bysub/%d/%d", sub, p)) {
				c.Fail("lookups-agree", "allocstore/by-subscriber/wrong/after-"+after, "GetBySubscriber(%s) has %q in %s, expected %q", c20sub(sub), got[p], c20pool(p), want)
			}
		}
	}
	for p := 0; p < 2; p++ {
		recs, _ := w.st.GetByPool(ctx, c20pool(p))
		n := 0
		for k := range w.model {
			if k[1] == p {
				n++
			}
		}
		if len(recs) != n && w.an.fresh(fmt.Sprintf("bypool/%d", p)) {
			c.Fail("lookups-agree", "allocstore/by-pool/wrong/after-"+after, "GetByPool(%s) has %d records, expected %d", c20pool(p), len(recs), n)
		}
	}
	c.State(uint64(len(w.model)) | 0x20b000)
}

func (w *c20astore) subView(id string) string {
	recs, _ := w.st.GetBySubscriber(context.Background(), id)
	s := ""
	for _, r := range recs {
		s += fmt.Sprintf(" %s=%v", r.PoolID, r.Prefix.IP)
	}
	return s
}

func (w *c20astore) seq(op sim.Op) {
	w.c.S.Logf("%s", w.exec(op, true))
	w.check(op.K)
}

// concurrent saves on one address race in the harness model's view only
// through execution order, which is the store's lock order: still checked.
func (w *c20astore) par(client int, op sim.Op) { w.c.S.Logf("c%d %s", client, w.exec(op, true)) }
func (w *c20astore) quiesce()                  { w.check("conc") }
func (w *c20astore) finish()                   {}

// ---------------------------------------------------------------------------
// subscriber.Manager: session id <-> MAC, session id <-> IP

type c20alloc struct {
	s     *simrt.Sim // every call is a scheduling point on entry and on return (a remote allocator blocks)
	nip   int
	used  map[int]string // ip -> session id
	used6 map[int]string // the same for the IPv6 pool (nil: no IPv6)
}

// lat: the answer of a remote allocator takes a while now and then (everything else goes on meanwhile)
func (a *c20alloc) lat() {
	if a.s.Choose(simrt.StNet, 4) == 3 {
		a.s.Sleep(time.Millisecond)
	} else {
		a.s.Pause()
	}
}

func c20ip6(i int) net.IP { return net.ParseIP(fmt.Sprintf("2001:db8:20::%x", 0x10+i)) }

func (a *c20alloc) AllocateIPv4(ctx context.Context, s *subscriber.Session, poolID string) (net.IP, net.IPMask, net.IP, error) {
	a.s.Pause()
	defer a.lat()
	for ip, id := range a.used {
		if id == s.ID {
			return c20ip(ip), net.CIDRMask(24, 32), net.IPv4(10, 20, 0, 1).To4(), nil
		}
	}
	for ip := 0; ip < a.nip; ip++ {
		if _, ok := a.used[ip]; !ok {
			a.used[ip] = s.ID
			return c20ip(ip), net.CIDRMask(24, 32), net.IPv4(10, 20, 0, 1).To4(), nil
		}
	}
	return nil, nil, nil, fmt.Errorf("pool exhausted")
}
func (a *c20alloc) AllocateIPv6(ctx context.Context, s *subscriber.Session, poolID string) (net.IP, *net.IPNet, error) {
	a.s.Pause()
	defer a.lat()
	if a.used6 == nil {
		return nil, nil, fmt.Errorf("no ipv6")
	}
	for ip, id := range a.used6 {
		if id == s.ID {
			return c20ip6(ip), nil, nil
		}
	}
	for ip := 0; ip < a.nip; ip++ {
		if _, ok := a.used6[ip]; !ok {
			a.used6[ip] = s.ID
			return c20ip6(ip), nil, nil
		}
	}
	return nil, nil, fmt.Errorf("pool exhausted")
}
func (a *c20alloc) ReleaseIPv4(ctx context.Context, ip net.IP) error {
	a.s.Pause()
	for i := 0; i < a.nip; i++ {
		if c20ip(i).Equal(ip) {
			delete(a.used, i)
		}
	}
	return nil
}
func (a *c20alloc) ReleaseIPv6(ctx context.Context, ip net.IP) error {
	a.s.Pause()
	for i := 0; i < a.nip; i++ {
		if c20ip6(i).Equal(ip) {
			delete(a.used6, i)
		}
	}
	return nil
}

type c20mslot struct {
	s    *subscriber.Session
	mac  int
	live bool
}

type c20submgr struct {
	c     *sim.Ctx
	m     *subscriber.Manager
	al    *c20alloc
	n     int
	slots []*c20mslot
	an    c20anoms
}

func newC20submgr(c *sim.Ctx, nent int) *c20submgr {
	nip := int(c.Case.Knob("nip", 2))
	if nip < 1 || nip > 3 {
		nip = 2
	}
	al := &c20alloc{s: c.S, nip: nip, used: map[int]string{}}
	if c.Case.Knob("v6", 0) == 1 {
		al.used6 = map[int]string{} // dual stack: every assignment also asks for an IPv6 address
	}
	cfg := subscriber.ManagerConfig{MaxSessions: 100}
	return &c20submgr{c: c, al: al, n: nent, m: subscriber.NewManager(cfg, nil, al, zap.NewNop())}
}

func (w *c20submgr) barrier(string) bool { return false }

func (w *c20submgr) exec(op sim.Op, alone bool) string {
	ctx := context.Background()
	switch op.K {
	case "create":
		mac := c20idx(op.Arg(1), w.n)
		s, err := w.m.CreateSession(ctx, &subscriber.SessionRequest{MAC: c20mac(mac), Type: subscriber.SessionTypeIPoE})
		if err != nil || s == nil {
			for _, sl := range w.slots {
				if sl.live && sl.mac == mac {
					return fmt.Sprintf("create mac#%d refused (in use)", mac)
				}
			}
			if w.used(mac) && alone {
				w.c.Fail("reusable", "submgr/create/released-mac-rejected", "CreateSession(MAC #%d) failed (%v) although no live session has that MAC", mac, err)
			}
			return fmt.Sprintf("create mac#%d failed", mac)
		}
		for _, sl := range w.slots {
			if sl.live && sl.mac == mac && alone {
				w.c.Fail("unique", "submgr/create/second-session-for-mac", "CreateSession(MAC #%d) succeeded although slot session of that MAC is live", mac)
			}
		}
		w.slots = append(w.slots, &c20mslot{s: s, mac: mac, live: true})
		return fmt.Sprintf("create mac#%d -> slot %d", mac, len(w.slots)-1)
	case "assign", "terminate":
		if len(w.slots) == 0 {
			return op.K + " -"
		}
		i := c20idx(op.Arg(1), len(w.slots))
		if k := int(op.Arg(2)); k >= 1 && k <= len(w.slots) {
			i = len(w.slots) - k // 1: the session created last, 2: the one before it
		}
		sl := w.slots[i]
		if op.K == "assign" {
			p6 := ""
			if w.al.used6 != nil {
				p6 = "pool6"
			}
			err := w.m.AssignAddress(ctx, sl.s.ID, "pool4", p6)
			return fmt.Sprintf("assign slot %d -> %v", i, err != nil)
		}
		err := w.m.TerminateSession(ctx, sl.s.ID, subscriber.TerminateUserRequest)
		if err == nil {
			sl.live = false
		}
		return fmt.Sprintf("terminate slot %d -> %v", i, err != nil)
	case "bymac":
		w.m.GetSessionByMAC(c20mac(c20idx(op.Arg(1), w.n)))
	case "byip":
		w.m.GetSessionByIP(c20ip(c20idx(op.Arg(1), w.al.nip)))
	}
	return op.K
}

func (w *c20submgr) used(mac int) bool {
	for _, sl := range w.slots {
		if sl.mac == mac {
			return true
		}
	}
	return false
}

func (w *c20submgr) slotOf(s *subscriber.Session) int {
	for i, sl := range w.slots {
		if sl.s == s {
			return i
		}
	}
	return -1
}

func (w *c20submgr) check(after string) {
	c := w.c
	w.an.begin()
	defer w.an.end()
	for i, sl := range w.slots {
		s, ok := w.m.GetSession(sl.s.ID)
		if sl.live && (!ok || s != sl.s) && w.an.fresh(fmt.Sprintf("id-missing/%d", i)) {
			c.Fail("others-unchanged", "submgr/by-id/missing/after-"+after, "slot %d (MAC #%d) was not terminated but GetSession fails", i, sl.mac)
		} else if !sl.live && ok && w.an.fresh(fmt.Sprintf("id-ghost/%d", i)) {
			c.Fail("release", "submgr/by-id/ghost/after-"+after, "slot %d was terminated but GetSession still finds it", i)
		}
	}
	for mac := 0; mac < w.n; mac++ {
		owner := -1
		for i, sl := range w.slots {
			if sl.live && sl.mac == mac {
				owner = i
			}
		}
		s, ok := w.m.GetSessionByMAC(c20mac(mac))
		if ((ok && s == nil) || (!ok && owner >= 0) || (ok && w.slotOf(s) != owner)) && !w.an.fresh(fmt.Sprintf("bymac/%d/%v/%d", mac, ok, owner)) {
			continue
		}
		switch {
		case ok && s == nil:
			c.Fail("lookups-agree", "submgr/by-mac/dangling/after-"+after, "GetSessionByMAC(MAC #%d) reports found with a nil session", mac)
		case !ok && owner >= 0:
			c.Fail("lookups-agree", "submgr/by-mac/lost/after-"+after, "GetSessionByMAC(MAC #%d) finds nothing although slot %d is live with that MAC", mac, owner)
		case ok && w.slotOf(s) != owner:
			c.Fail("lookups-agree", "submgr/by-mac/stale/after-"+after, "GetSessionByMAC(MAC #%d) returns slot %d, the live session of that MAC is slot %d", mac, w.slotOf(s), owner)
		}
	}
	nfam := 1
	if w.al.used6 != nil {
		nfam = 2
	}
	for fip := 0; fip < nfam*w.al.nip; fip++ {
		ip, fam := fip%w.al.nip, fip/w.al.nip
		addr := c20ip(ip)
		held := func(s *subscriber.Session) net.IP { return s.IPv4 }
		if fam == 1 {
			addr = c20ip6(ip)
			held = func(s *subscriber.Session) net.IP { return s.IPv6 }
			ip += 100 // numbering of the messages and anomaly keys: #100.. are the IPv6 addresses
		}
		owner := -1
		for i, sl := range w.slots {
			if sl.live && held(sl.s) != nil && held(sl.s).Equal(addr) {
				if owner >= 0 {
					c.Fail("unique", "submgr/ip/two-sessions/after-"+after, "slots %d and %d are both live with address #%d", owner, i, ip)
				}
				owner = i
			}
		}
		s, ok := w.m.GetSessionByIP(addr)
		if ((ok && s == nil) || (!ok && owner >= 0) || (ok && w.slotOf(s) != owner)) && !w.an.fresh(fmt.Sprintf("byip/%d/%v/%v", ip, ok, s == nil)) {
			continue
		}
		switch {
		case ok && s == nil:
			c.Fail("lookups-agree", "submgr/by-ip/dangling/after-"+after, "GetSessionByIP(address #%d) reports found with a nil session (index points to a terminated session)", ip)
		case !ok && owner >= 0:
			c.Fail("lookups-agree", "submgr/by-ip/lost/after-"+after, "GetSessionByIP(address #%d) finds nothing although slot %d is live with that address", ip, owner)
		case ok && w.slotOf(s) != owner:
			c.Fail("lookups-agree", "submgr/by-ip/stale/after-"+after, "GetSessionByIP(address #%d) returns slot %d, the live session with that address is slot %d", ip, w.slotOf(s), owner)
		}
	}
	c.State(uint64(len(w.slots)) | 0x20c000)
}

func (w *c20submgr) seq(op sim.Op) {
	w.c.S.Logf("%s", w.exec(op, true))
	w.check(op.K)
}
func (w *c20submgr) par(client int, op sim.Op) { w.c.S.Logf("c%d %s", client, w.exec(op, false)) }
func (w *c20submgr) quiesce()                  { w.check("conc") }
func (w *c20submgr) finish()                   {}

// ---------------------------------------------------------------------------
// circuit-id keys: the fixed 32-byte key and the 64-bit hash the slow path
// installs entries under (kernel maps absent: a harness map keyed by the real
// key functions stands in for them).

type c20circuit struct {
	c      *sim.Ctx
	n      int
	ids    [][]byte
	fixed  map[ebpf.CircuitIDKey]int // key -> subscriber
	hashed map[uint64]int
	inUse  map[int]int // circuit-id index -> subscriber
}

func newC20circuit(c *sim.Ctx, nent int) *c20circuit {
	w := &c20circuit{c: c, n: nent, fixed: map[ebpf.CircuitIDKey]int{}, hashed: map[uint64]int{}, inUse: map[int]int{}}
	long := "olt-eu-west-07/shelf2/slot11/pon3/onu" // 37 bytes: longer than the fixed key
	w.ids = [][]byte{
		[]byte("eth 0/1/1:100.200"),
		[]byte("eth 0/1/1:100.201"),
		[]byte("eth 0/1/2:100.200"),
		[]byte(long + "-0001:vlan100"),
		[]byte(long + "-0002:vlan100"),
		[]byte(long[:32]),
		[]byte("ge-0/0/1.42"),
		append([]byte("ge-0/0/1.42"), 0),
		append([]byte("eth 0/1/1:100.200"), 0, 0),
		[]byte("0123456789abcdef0123456789abcdef0123456789abcdef0123456789abcdef"),
	}
	return w
}

func (w *c20circuit) barrier(string) bool { return false }

func (w *c20circuit) seq(op sim.Op) {
	c := w.c
	i := c20idx(op.Arg(1), len(w.ids))
	id := w.ids[i]
	switch op.K {
	case "bind":
		sub := c20idx(op.Arg(2), w.n)
		w.fixed[ebpf.MakeCircuitIDKey(id)] = sub
		w.hashed[ebpf.HashCircuitID(id)] = sub
		w.inUse[i] = sub
		c.S.Logf("bind cid#%d (%d bytes) -> sub%d", i, len(id), sub)
	case "unbind":
		if _, ok := w.inUse[i]; !ok {
			return
		}
		delete(w.fixed, ebpf.MakeCircuitIDKey(id))
		delete(w.hashed, ebpf.HashCircuitID(id))
		delete(w.inUse, i)
		c.S.Logf("unbind cid#%d", i)
	}
	// two distinct circuit-ids in use must not resolve to the same entry
	for a := 0; a < len(w.ids); a++ {
		for b := a + 1; b < len(w.ids); b++ {
			_, ua := w.inUse[a]
			_, ub := w.inUse[b]
			if !ua || !ub {
				continue
			}
			if ebpf.MakeCircuitIDKey(w.ids[a]) == ebpf.MakeCircuitIDKey(w.ids[b]) {
				why := "zero-padding"
				if len(w.ids[a]) > ebpf.CircuitIDKeyLen || len(w.ids[b]) > ebpf.CircuitIDKeyLen {
					why = "truncation"
				}
				c.Fail("unique", "circuit/fixed-key/"+why, "circuit-ids %q (%d bytes) and %q (%d bytes) are both in use and resolve to the same %d-byte key", w.ids[a], len(w.ids[a]), w.ids[b], len(w.ids[b]), ebpf.CircuitIDKeyLen)
			}
			if ebpf.HashCircuitID(w.ids[a]) == ebpf.HashCircuitID(w.ids[b]) {
				c.Fail("unique", "circuit/hash/collision", "circuit-ids %q and %q are both in use and hash to the same 64-bit key", w.ids[a], w.ids[b])
			}
		}
	}
	// and every circuit-id in use resolves to its own subscriber
	for a := 0; a < len(w.ids) && !c.Failed() && len(c.Viols) == 0; a++ {
		sub, used := w.inUse[a]
		if !used {
			continue
		}
		if got, ok := w.fixed[ebpf.MakeCircuitIDKey(w.ids[a])]; !ok || got != sub {
			why := "zero-padding"
			if len(w.ids[a]) > ebpf.CircuitIDKeyLen {
				why = "truncation"
			}
			for b := 0; b < len(w.ids); b++ {
				if _, ub := w.inUse[b]; ub && b != a && len(w.ids[b]) > ebpf.CircuitIDKeyLen && ebpf.MakeCircuitIDKey(w.ids[a]) == ebpf.MakeCircuitIDKey(w.ids[b]) {
					why = "truncation"
				}
			}
			c.Fail("lookups-agree", "circuit/fixed-key/lookup-"+why, "circuit-id %q is in use by sub%d but its fixed key resolves to %d (present=%v)", w.ids[a], sub, got, ok)
		}
	}
	c.State(uint64(len(w.inUse)) | 0x20d000)
}
func (w *c20circuit) par(client int, op sim.Op) { w.seq(op) }
func (w *c20circuit) quiesce()                  {}
func (w *c20circuit) finish()                   {}
