package scn

import (
	"fmt"
	"net"
	"sort"
	"strings"
	"time"

	"github.com/anishathalye/porcupine"
	"github.com/codelaboratoryltd/bng/pkg/pppoe"
	"github.com/codelaboratoryltd/bng/pkg/simrt"

	"verif/harness/sim"
)

// pppoe.SessionManager: session id <-> client MAC.

type c20pslot struct {
	id      uint16
	mac     int
	s       *pppoe.Session
	live    bool
	lastAct time.Duration
}

type c20pin struct {
	Kind string
	Mac  int
	ID   uint16
}

type c20pout struct {
	ID    uint16
	Mac   int // -1 none
	Found bool
	Err   bool
}

type c20pppoe struct {
	c        *sim.Ctx
	m        *pppoe.SessionManager
	nm, ncl  int
	slots    []*c20pslot
	hist     c20hist
	segInit  string
	segConc  bool
	server   net.HardwareAddr
	wrapped  bool
	an       c20anoms
}

func c20mac(i int) net.HardwareAddr { return net.HardwareAddr{0x02, 0x20, 0, 0, 0, byte(i + 1)} }

func newC20pppoe(c *sim.Ctx, nent, ncl int) *c20pppoe {
	return &c20pppoe{c: c, m: pppoe.NewSessionManager(), nm: nent, ncl: ncl, server: net.HardwareAddr{0x02, 0xbb, 0, 0, 0, 1}}
}

func (w *c20pppoe) barrier(k string) bool { return k == "cleanup" || k == "spin" }

func (w *c20pppoe) macIdx(m net.HardwareAddr) int {
	for i := 0; i < c20maxEnt; i++ {
		if m.String() == c20mac(i).String() {
			return i
		}
	}
	return -1
}

func (w *c20pppoe) liveState() string {
	var e []string
	for _, sl := range w.slots {
		if sl.live {
			e = append(e, fmt.Sprintf("%05d:%d", sl.id, sl.mac))
		}
	}
	sort.Strings(e)
	return strings.Join(e, ";")
}

// exec performs one op; slot arguments are resolved when the op runs.
func (w *c20pppoe) exec(client int, op sim.Op) (c20pin, c20pout, *c20pslot) {
	in := c20pin{Kind: op.K}
	out := c20pout{Mac: -1}
	var sl *c20pslot
	switch op.K {
	case "create", "bymac":
		in.Mac = c20idx(op.Arg(1), w.nm)
	default:
		if len(w.slots) == 0 {
			return in, out, nil
		}
		sl = w.slots[c20idx(op.Arg(1), len(w.slots))]
		in.ID, in.Mac = sl.id, sl.mac
	}
	st := w.hist.call()
	switch op.K {
	case "create":
		s, err := w.m.CreateSession(c20mac(in.Mac), w.server)
		if err != nil || s == nil {
			out.Err = true
		} else {
			out.ID, out.Mac = s.ID, w.macIdx(s.ClientMAC)
			sl = &c20pslot{id: s.ID, mac: in.Mac, s: s, live: true, lastAct: w.c.S.Now()}
			if s.ID == 0 {
				w.c.Fail("id-zero", "pppoe/create/id-zero", "CreateSession issued session id 0 (after the id counter wrapped: %v)", w.wrapped)
			}
			for _, o := range w.slots {
				if o.live && o.id == s.ID {
					w.c.Fail("unique", "pppoe/create/dup-id", "CreateSession issued id %d which is in use by a session of MAC #%d", s.ID, o.mac)
				}
			}
			if out.Mac != in.Mac {
				w.c.Fail("lookups-agree", "pppoe/create/wrong-mac", "CreateSession(MAC #%d) returned a session of MAC #%d", in.Mac, out.Mac)
			}
			w.slots = append(w.slots, sl)
		}
	case "remove":
		w.m.RemoveSession(in.ID)
		for _, o := range w.slots {
			if o.id == in.ID {
				o.live = false
			}
		}
	case "get":
		if s := w.m.GetSession(in.ID); s != nil {
			out.Found, out.ID, out.Mac = true, s.ID, w.macIdx(s.ClientMAC)
		}
	case "bymac":
		if s := w.m.GetSessionByMAC(c20mac(in.Mac)); s != nil {
			out.Found, out.ID, out.Mac = true, s.ID, w.macIdx(s.ClientMAC)
		}
	case "touch":
		sl.s.UpdateActivity()
		sl.lastAct = w.c.S.Now()
	}
	if op.K != "touch" {
		w.hist.ret(client, in, out, st)
	}
	return in, out, sl
}

// check compares every lookup with the model of live sessions.
func (w *c20pppoe) check(after string) {
	c := w.c
	w.an.begin()
	defer w.an.end()
	liveByID := map[uint16]*c20pslot{}
	for _, sl := range w.slots {
		if sl.live {
			liveByID[sl.id] = sl
		}
	}
	seen := map[uint16]bool{}
	for _, sl := range w.slots {
		if seen[sl.id] {
			continue
		}
		seen[sl.id] = true
		s := w.m.GetSession(sl.id)
		l := liveByID[sl.id]
		kind := ""
		switch {
		case l != nil && s == nil:
			kind = "missing"
		case l != nil && (s.ID != sl.id || w.macIdx(s.ClientMAC) != l.mac):
			kind = "wrong"
		case l == nil && s != nil:
			kind = "ghost"
		}
		if kind == "" || !w.an.fresh(fmt.Sprintf("get/%s/%d", kind, sl.id)) {
			continue
		}
		switch kind {
		case "missing":
			c.Fail("others-unchanged", "pppoe/get/missing/after-"+after, "after %s GetSession(%d) returns nothing, the session of MAC #%d was not removed", after, sl.id, l.mac)
		case "wrong":
			c.Fail("lookups-agree", "pppoe/get/wrong/after-"+after, "GetSession(%d) returns id %d MAC #%d, expected MAC #%d", sl.id, s.ID, w.macIdx(s.ClientMAC), l.mac)
		default:
			c.Fail("release", "pppoe/get/ghost/after-"+after, "after %s GetSession(%d) still returns a session although it was removed", after, sl.id)
		}
	}
	for m := 0; m < w.nm; m++ {
		var live []uint16
		for _, sl := range w.slots {
			if sl.live && sl.mac == m {
				live = append(live, sl.id)
			}
		}
		s := w.m.GetSessionByMAC(c20mac(m))
		switch {
		case s == nil && len(live) > 0 && !w.an.fresh(fmt.Sprintf("bymac-lost/%d", m)):
		case s == nil && len(live) > 0:
			many := "single"
			if len(live) > 1 || w.hadSibling(m) {
				many = "sibling-sessions"
			}
			c.Fail("lookups-agree", "pppoe/by-mac/lost/"+many+"/after-"+after, "after %s GetSessionByMAC(MAC #%d) returns nothing although session(s) %v of that MAC are live (GetSession finds them)", after, m, live)
		case s != nil:
			l := liveByID[s.ID]
			if (l == nil || l.mac != m || w.macIdx(s.ClientMAC) != m) && w.an.fresh(fmt.Sprintf("bymac-stale/%d", m)) {
				c.Fail("lookups-agree", "pppoe/by-mac/stale/after-"+after, "after %s GetSessionByMAC(MAC #%d) returns session %d (MAC #%d) which is not a live session of that MAC (live: %v)", after, m, s.ID, w.macIdx(s.ClientMAC), live)
			}
		}
	}
	h := uint64(14695981039346656037)
	for _, b := range []byte(w.liveState()) {
		h = (h ^ uint64(b)) * 1099511628211
	}
	c.State(h ^ 0x2099)
}

// hadSibling: some MAC had two sessions at once during this run.
func (w *c20pppoe) hadSibling(m int) bool {
	n := 0
	for _, sl := range w.slots {
		if sl.mac == m {
			n++
		}
	}
	return n > 1
}

func (w *c20pppoe) seq(op sim.Op) {
	c := w.c
	switch op.K {
	case "spin":
		w.lin()
		n := int(op.Arg(1))
		if n < 0 || n > 70000 {
			n = 0
		}
		spin := net.HardwareAddr{0x02, 0x20, 0xff, 0, 0, 1}
		for i := 0; i < n && !c.Failed(); i++ {
			s, err := w.m.CreateSession(spin, w.server)
			if err != nil {
				break
			}
			if s.ID == 0 {
				c.Fail("id-zero", "pppoe/create/id-zero", "CreateSession issued session id 0 (create/remove pair %d)", i)
			}
			if s.ID == 65535 {
				w.wrapped = true
			}
			w.m.RemoveSession(s.ID)
		}
		c.S.Logf("spin %d", n)
		w.segInit = w.liveState()
		return
	case "sweeprace":
		// the idle sweep runs while an idle session is torn down and its id is handed out again
		// (only after the id counter has wrapped onto that session's id): the sweep must not take
		// the new session away
		w.lin()
		var old *c20pslot
		for _, sl := range w.slots {
			if sl.live && w.m.GetSession(sl.id) == sl.s {
				old = sl
				break
			}
		}
		if old == nil {
			return
		}
		c.S.Sleep(3 * time.Second) // the old session goes idle
		timeout := 1500 * time.Millisecond
		freshMAC := net.HardwareAddr{0x02, 0x20, 0xfe, 0, 0, byte(len(w.slots))}
		var fresh *pppoe.Session
		// (the wrap variant runs with long scheduling quanta to get through the spin; the race itself
		// is explored at the finest grain)
		quantum := c.S.SkipMax
		c.S.SkipMax = 1 + c.S.Choose(simrt.StSched, 3)
		defer func() { c.S.SkipMax = quantum }()
		t1 := c.S.Spawn("idle-sweep", nil, func() { w.m.CleanupExpired(timeout) })
		t2 := c.S.Spawn("teardown+setup", nil, func() {
			w.m.RemoveSession(old.id)
			fresh, _ = w.m.CreateSession(freshMAC, w.server)
		})
		c.S.Join(t1, t2)
		old.live = false
		c.S.Fault("sweep.concurrent-with-teardown")
		if fresh != nil {
			if fresh.ID == old.id {
				c.S.Probe("session_id_reused_during_sweep")
			}
			if got := w.m.GetSession(fresh.ID); got != fresh {
				c.Fail("lookups-agree", "pppoe/sweep/new-session-lost-by-id", "a session created (id %d, reused=%v) while the idle sweep ran is gone from the table although it was never released or idle", fresh.ID, fresh.ID == old.id)
			} else if got := w.m.GetSessionByMAC(freshMAC); got != fresh {
				c.Fail("lookups-agree", "pppoe/sweep/new-session-lost-by-mac", "a session created (id %d) while the idle sweep ran cannot be found by its MAC", fresh.ID)
			}
			w.m.RemoveSession(fresh.ID)
		}
		for _, sl := range w.slots {
			if sl.live {
				sl.live = w.m.GetSession(sl.id) == sl.s // others may have expired legitimately
			}
		}
		w.segInit = w.liveState()
		return
	case "cleanup":
		w.lin()
		timeout := time.Duration(op.Arg(1))*time.Second + 500*time.Millisecond
		now := c.S.Now()
		removed := w.m.CleanupExpired(timeout)
		c.S.Logf("cleanup %v -> %d", timeout, removed)
		for _, sl := range w.slots {
			if sl.live && now-sl.lastAct > timeout {
				// expired: whether it is gone is the manager's call
				sl.live = w.m.GetSession(sl.id) == sl.s
			}
		}
		w.check("cleanup")
		w.segInit = w.liveState()
		return
	}
	in, out, _ := w.exec(0, op)
	c.S.Logf("%s mac=%d id=%d -> id=%d found=%v", in.Kind, in.Mac, in.ID, out.ID, out.Found)
	if out.ID == 65535 {
		w.wrapped = true
	}
	w.check(op.K)
}

func (w *c20pppoe) par(client int, op sim.Op) {
	in, out, _ := w.exec(client, op)
	w.segConc = true
	w.c.S.Logf("c%d %s mac=%d id=%d -> id=%d found=%v", client, in.Kind, in.Mac, in.ID, out.ID, out.Found)
}

func (w *c20pppoe) quiesce() { w.check("conc") }

func (w *c20pppoe) lin() {
	c := w.c
	hist := w.hist.ops
	w.hist.ops = nil
	conc := w.segConc
	w.segConc = false
	init := w.segInit
	w.segInit = w.liveState()
	if !conc || c.Failed() {
		return
	}
	parse := func(s string) map[uint16]int {
		m := map[uint16]int{}
		for _, e := range strings.Split(s, ";") {
			var id, mac int
			if _, err := fmt.Sscanf(e, "%d:%d", &id, &mac); err == nil {
				m[uint16(id)] = mac
			}
		}
		return m
	}
	enc := func(m map[uint16]int) string {
		var e []string
		for id, mac := range m {
			e = append(e, fmt.Sprintf("%05d:%d", id, mac))
		}
		sort.Strings(e)
		return strings.Join(e, ";")
	}
	mk := func(relaxLost bool) func(steps *int, budget int) porcupine.Model {
		return func(steps *int, budget int) porcupine.Model {
			return porcupine.Model{
				Init: func() interface{} { return init },
				Step: func(state, input, output interface{}) (bool, interface{}) {
					*steps++
					if *steps > budget {
						return false, state
					}
					st := parse(state.(string))
					in, out := input.(c20pin), output.(c20pout)
					switch in.Kind {
					case "create":
						if out.Err {
							return true, state
						}
						if _, used := st[out.ID]; used || out.ID == 0 || out.Mac != in.Mac {
							return false, state
						}
						st[out.ID] = in.Mac
						return true, enc(st)
					case "remove":
						delete(st, in.ID)
						return true, enc(st)
					case "get":
						mac, ok := st[in.ID]
						if !ok {
							return !out.Found, state
						}
						return out.Found && out.ID == in.ID && out.Mac == mac, state
					default: // bymac
						if out.Found {
							mac, ok := st[out.ID]
							return ok && mac == in.Mac && out.Mac == in.Mac, state
						}
						if relaxLost {
							return true, state
						}
						for _, mac := range st {
							if mac == in.Mac {
								return false, state
							}
						}
						return true, state
					}
				},
			}
		}
	}
	c.S.Probe("lin_checked")
	switch c20check(mk(false), hist) {
	case "unknown":
		c.S.Probe("lin_unknown")
	case "illegal":
		cls := "other"
		if c20check(mk(true), hist) == "ok" {
			cls = "by-mac-lost"
		}
		c.Fail("linearizable", "pppoe/lin/"+cls, "concurrent history not linearizable against the session model (%s):%s", cls,
			c20describe(hist, w.ncl, func(i, o interface{}) string {
				in, out := i.(c20pin), o.(c20pout)
				return fmt.Sprintf("%s(mac%d,id%d)->id=%d mac=%d found=%v", in.Kind, in.Mac, in.ID, out.ID, out.Mac, out.Found)
			}))
	}
}

func (w *c20pppoe) finish() { w.lin() }
