package scn

import (
	"fmt"
	"sort"
	"time"

	"github.com/anishathalye/porcupine"
	"github.com/codelaboratoryltd/bng/pkg/simrt"

	"verif/harness/sim"
)

// C20 — subscriber-identifying keys map to at most one subscriber.
//
// One component per run (the variant): the nexus VLAN allocator, the QinQ
// mapper, the PPPoE session table (incl. id wrap-around), the MAC/IP indexes
// of state.Store, allocator.MemoryAllocationStore and subscriber.Manager, and
// the fixed-size circuit-id keys of the eBPF loader. 1-4 caller tasks; ops
// between two "tick" ops form a round: a round with one caller is checked
// step by step against the bijection model, a round with several callers runs
// concurrently and is checked at the quiescent point and by porcupine.

type c20drv interface {
	barrier(k string) bool     // op kinds that only run alone (never inside a concurrent round)
	seq(op sim.Op)             // execute one op alone and check it against the model
	par(client int, op sim.Op) // execute one op from a caller task (recording only)
	quiesce()                  // checks at the quiescent point after a concurrent round
	finish()                   // end-of-run checks
}

type c20hist struct {
	stamp int64
	ops   []porcupine.Operation
}

func (h *c20hist) call() int64 { h.stamp++; return h.stamp }
func (h *c20hist) ret(client int, in, out interface{}, call int64) {
	h.stamp++
	h.ops = append(h.ops, porcupine.Operation{ClientId: client, Input: in, Call: call, Output: out, Return: h.stamp})
}

// c20check runs porcupine with a step budget (virtual time cannot cap a
// computation inside the bubble). Returns ok / illegal / unknown.
func c20check(mk func(steps *int, budget int) porcupine.Model, hist []porcupine.Operation) string {
	steps := 0
	const budget = 400000
	res := porcupine.CheckOperationsTimeout(mk(&steps, budget), hist, 0)
	if steps > budget {
		return "unknown"
	}
	if res == porcupine.Illegal {
		return "illegal"
	}
	return "ok"
}

func c20describe(hist []porcupine.Operation, skipClient int, f func(in, out interface{}) string) string {
	s := ""
	for _, o := range hist {
		if o.ClientId == skipClient && len(hist) > 20 {
			continue
		}
		s += fmt.Sprintf(" [%d..%d c%d %s]", o.Call, o.Return, o.ClientId, f(o.Input, o.Output))
	}
	return s
}

func c20Gen(r *sim.Rand, tier string) *sim.Case {
	cs := &sim.Case{Knobs: map[string]int64{}}
	cs.Variant = []string{"vlan", "qinq", "pppoe", "pppoe-wrap", "state-session", "state-lease", "allocstore", "submgr", "circuit", "pon"}[r.Weighted(60, 32, 32, 3, 14, 14, 18, 45, 8, 30)]
	ncl := sim.Pick(r, 1, 1, 1, 2, 2, 3, 4)
	if cs.Variant == "pppoe-wrap" || cs.Variant == "circuit" {
		ncl = 1
	}
	cs.Knobs["ncl"] = int64(ncl)
	cs.Knobs["skipmax"] = int64(sim.Pick(r, 1, 1, 2, 4, 16, 64, 256))
	cs.Knobs["maporder"] = int64(r.N(4))
	cs.Knobs["nent"] = int64(r.Range(2, 5)) // NTEs / subscribers / MACs
	rounds := r.Range(3, 9)
	if tier == "thorough" {
		rounds = r.Range(3, 16)
	}
	var gen func(cl int) sim.Op
	var between func() []sim.Op
	n := int(cs.Knobs["nent"])
	hot := 0 // the round's hot entity
	switch cs.Variant {
	case "vlan":
		cs.Knobs["ns"] = int64(r.Range(1, 2))
		cs.Knobs["nc"] = int64(r.Range(1, 3))
		// in every round half of the operations go to one "hot" NTE, so that the callers of a
		// round meet on the same entity (allocate / move to another S-TAG / release overlapping)
		pick := func() int64 {
			if r.P(50) {
				return int64(hot)
			}
			return int64(r.N(n))
		}
		gen = func(cl int) sim.Op {
			switch r.Weighted(10, 5, 6, 2, 3) {
			case 0:
				return sim.Op{K: "alloc", A: []int64{int64(cl), pick()}}
			case 1:
				return sim.Op{K: "allocs", A: []int64{int64(cl), pick(), int64(r.Weighted(5, 5, 1, 1))}}
			case 2:
				return sim.Op{K: "release", A: []int64{int64(cl), pick()}}
			case 3:
				return sim.Op{K: "get", A: []int64{int64(cl), pick()}}
			}
			return sim.Op{K: "sync", A: []int64{int64(cl), int64(r.N(n))}}
		}
		between = func() []sim.Op {
			switch r.Weighted(12, 2, 2, 2) {
			case 1:
				return []sim.Op{{K: "storeput", A: []int64{0, int64(r.N(n)), int64(r.N(6))}}}
			case 2:
				return []sim.Op{{K: "reload"}}
			case 3:
				return []sim.Op{{K: "restart"}}
			}
			return nil
		}
	case "qinq":
		gen = func(cl int) sim.Op {
			switch r.Weighted(10, 3, 3, 2, 2) {
			case 0:
				return sim.Op{K: "register", A: []int64{int64(cl), int64(r.N(8)), int64(r.N(n))}}
			case 1:
				return sim.Op{K: "unregister", A: []int64{int64(cl), int64(r.N(8))}}
			case 2:
				return sim.Op{K: "unregsub", A: []int64{int64(cl), int64(r.N(n))}}
			case 3:
				return sim.Op{K: "getsub", A: []int64{int64(cl), int64(r.N(8))}}
			}
			return sim.Op{K: "getvlan", A: []int64{int64(cl), int64(r.N(n))}}
		}
	case "pppoe", "pppoe-wrap":
		gen = func(cl int) sim.Op {
			switch r.Weighted(10, 6, 2, 3, 2) {
			case 0:
				return sim.Op{K: "create", A: []int64{int64(cl), int64(r.N(n))}}
			case 1:
				return sim.Op{K: "remove", A: []int64{int64(cl), int64(r.N(8))}}
			case 2:
				return sim.Op{K: "get", A: []int64{int64(cl), int64(r.N(8))}}
			case 3:
				return sim.Op{K: "bymac", A: []int64{int64(cl), int64(r.N(n))}}
			}
			return sim.Op{K: "touch", A: []int64{int64(cl), int64(r.N(8))}}
		}
		between = func() []sim.Op {
			if r.P(20) {
				return []sim.Op{{K: "cleanup", A: []int64{0, int64(r.Range(1, 6))}}}
			}
			return nil
		}
	case "state-session", "state-lease":
		gen = func(cl int) sim.Op {
			switch r.Weighted(10, 6, 2, 2) {
			case 0:
				return sim.Op{K: "create", A: []int64{int64(cl), int64(r.N(n)), int64(r.N(n))}}
			case 1:
				return sim.Op{K: "delete", A: []int64{int64(cl), int64(r.N(8))}}
			case 2:
				return sim.Op{K: "bymac", A: []int64{int64(cl), int64(r.N(n))}}
			}
			return sim.Op{K: "byip", A: []int64{int64(cl), int64(r.N(n))}}
		}
		between = func() []sim.Op {
			if r.P(25) {
				return []sim.Op{{K: "update", A: []int64{0, int64(r.N(8)), int64(r.N(2)), int64(r.N(n))}}}
			}
			return nil
		}
	case "allocstore":
		gen = func(cl int) sim.Op {
			switch r.Weighted(10, 5, 2, 2) {
			case 0:
				return sim.Op{K: "save", A: []int64{int64(cl), int64(r.N(n)), int64(r.N(2)), int64(r.N(n))}}
			case 1:
				return sim.Op{K: "remove", A: []int64{int64(cl), int64(r.N(n)), int64(r.N(2))}}
			case 2:
				return sim.Op{K: "byip", A: []int64{int64(cl), int64(r.N(n))}}
			}
			return sim.Op{K: "bysub", A: []int64{int64(cl), int64(r.N(n))}}
		}
	case "submgr":
		cs.Knobs["nip"] = int64(r.Range(1, 3))
		cs.Knobs["v6"] = int64(r.Weighted(1, 2))
		gen = func(cl int) sim.Op {
			switch r.Weighted(8, 8, 7, 2, 2) {
			case 0:
				return sim.Op{K: "create", A: []int64{int64(cl), int64(r.N(n))}}
			case 1:
				return sim.Op{K: "assign", A: []int64{int64(cl), int64(r.N(6))}}
			case 2:
				return sim.Op{K: "terminate", A: []int64{int64(cl), int64(r.N(6))}}
			case 3:
				return sim.Op{K: "bymac", A: []int64{int64(cl), int64(r.N(n))}}
			}
			return sim.Op{K: "byip", A: []int64{int64(cl), int64(r.N(3))}}
		}
	case "pon":
		cs.Knobs["ns"] = int64(r.Range(1, 2))
		cs.Knobs["nc"] = int64(r.Range(1, 4))
		cs.Knobs["echo"] = int64(r.Range(1, 2))
		cs.Knobs["qorder"] = int64(r.N(3))
		cs.Knobs["retries"] = int64(r.N(3))
		gen = func(cl int) sim.Op {
			if r.P(75) {
				if r.P(40) {
					return sim.Op{K: "disc", A: []int64{int64(cl), int64(hot)}}
				}
				return sim.Op{K: "disc", A: []int64{int64(cl), int64(r.N(n))}}
			}
			return sim.Op{K: "disconnect", A: []int64{int64(cl), int64(r.N(n))}}
		}
		between = func() []sim.Op {
			if r.P(45) {
				return []sim.Op{{K: "storefail", A: []int64{int64(r.N(4)), int64(r.N(6))}}}
			}
			return nil
		}
	case "circuit":
		gen = func(cl int) sim.Op {
			if r.P(70) {
				return sim.Op{K: "bind", A: []int64{0, int64(r.N(10)), int64(r.N(n))}}
			}
			return sim.Op{K: "unbind", A: []int64{0, int64(r.N(10))}}
		}
	}
	if cs.Variant == "pppoe-wrap" {
		// a long-lived session takes the first id; then drive the id counter to just below the
		// wrap (or right round to that session's id) and let the idle sweep race a teardown+setup
		cs.Ops = append(cs.Ops, sim.Op{K: "create", A: []int64{0, 0}})
		if r.P(50) {
			cs.Ops = append(cs.Ops, sim.Op{K: "spin", A: []int64{0, 65534}}, sim.Op{K: "sweeprace"})
		} else {
			cs.Ops = append(cs.Ops, sim.Op{K: "spin", A: []int64{0, int64(65535 - r.Range(1, 6))}})
		}
		cs.Knobs["skipmax"] = 4096
		cs.Knobs["maxsteps"] = 3000000
	}
	total := 0
	for i := 0; i < rounds && total < 40; i++ {
		hot = r.N(n)
		if cs.Variant == "vlan" && ncl >= 2 && r.P(20) {
			// motif: an NTE is released by one caller while another moves it to a different S-TAG
			// (and a third allocates for someone else)
			// (the NTE holds a pair beforehand and another NTE holds none; that one allocates during
			// the overlap, and afterwards the first allocates again, taking whatever was freed)
			oth := (hot + 1 + r.N(n-1)) % n
			cs.Ops = append(cs.Ops, sim.Op{K: "alloc", A: []int64{0, int64(hot)}}, sim.Op{K: "release", A: []int64{0, int64(oth)}}, sim.Op{K: "tick", A: []int64{1}})
			cs.Ops = append(cs.Ops, sim.Op{K: "release", A: []int64{0, int64(hot)}}, sim.Op{K: "allocs", A: []int64{1, int64(hot), int64(r.N(2))}})
			if ncl >= 3 && r.P(50) {
				cs.Ops = append(cs.Ops, sim.Op{K: "alloc", A: []int64{2, int64(oth)}})
			} else {
				cs.Ops = append(cs.Ops, sim.Op{K: "alloc", A: []int64{1, int64(oth)}})
			}
			cs.Ops = append(cs.Ops, sim.Op{K: "tick", A: []int64{1}},
				sim.Op{K: "alloc", A: []int64{0, int64(hot)}}, sim.Op{K: "alloc", A: []int64{0, int64(r.N(n))}}, sim.Op{K: "tick", A: []int64{1}})
			total += 8
			continue
		}
		if cs.Variant == "qinq" && ncl >= 2 && r.P(20) {
			// motif: a subscriber is unregistered by id while another caller moves it to a different
			// pair and its old pair goes to someone else
			pp, qq := r.N(8), 0
			qq = (pp + 1 + r.N(7)) % 8
			oth := (hot + 1 + r.N(n-1)) % n
			cs.Ops = append(cs.Ops, sim.Op{K: "register", A: []int64{0, int64(pp), int64(hot)}}, sim.Op{K: "unregsub", A: []int64{0, int64(oth)}}, sim.Op{K: "tick", A: []int64{1}})
			cs.Ops = append(cs.Ops, sim.Op{K: "unregsub", A: []int64{0, int64(hot)}}, sim.Op{K: "register", A: []int64{1, int64(qq), int64(hot)}})
			if ncl >= 3 && r.P(50) {
				cs.Ops = append(cs.Ops, sim.Op{K: "register", A: []int64{2, int64(pp), int64(oth)}})
			} else {
				cs.Ops = append(cs.Ops, sim.Op{K: "register", A: []int64{1, int64(pp), int64(oth)}})
			}
			cs.Ops = append(cs.Ops, sim.Op{K: "tick", A: []int64{1}},
				sim.Op{K: "getsub", A: []int64{0, int64(pp)}}, sim.Op{K: "getvlan", A: []int64{0, int64(hot)}}, sim.Op{K: "tick", A: []int64{1}})
			total += 8
			continue
		}
		if cs.Variant == "submgr" && ncl >= 2 && r.P(50) {
			// motif: one session is re-assigned while it is terminated (twice, with a third
			// caller), other sessions take addresses meanwhile and are then terminated too
			sl := int64(r.N(6))
			hotRef, nextRef := int64(0), int64(0)
			if r.P(60) {
				// ... on sessions that certainly exist: the hot one (holding its addresses) and a
				// fresh one without any, created just before
				hotRef, nextRef = 2, 1
				ma := r.N(n)
				cs.Ops = append(cs.Ops, sim.Op{K: "create", A: []int64{0, int64(ma)}}, sim.Op{K: "assign", A: []int64{0, 0, 1}},
					sim.Op{K: "create", A: []int64{0, int64((ma + 1 + r.N(n-1)) % n)}}, sim.Op{K: "tick", A: []int64{1}})
			}
			cs.Ops = append(cs.Ops, sim.Op{K: "assign", A: []int64{0, sl, hotRef}}, sim.Op{K: "terminate", A: []int64{1, sl, hotRef}}, sim.Op{K: "assign", A: []int64{1, sl + 1, nextRef}})
			if ncl >= 3 {
				cs.Ops = append(cs.Ops, sim.Op{K: "terminate", A: []int64{2, sl, hotRef}}, sim.Op{K: "assign", A: []int64{2, sl + 2}})
			}
			cs.Ops = append(cs.Ops, sim.Op{K: "tick", A: []int64{1}},
				sim.Op{K: "create", A: []int64{0, int64(r.N(n))}}, sim.Op{K: "assign", A: []int64{0, sl + 3, int64(r.N(2))}}, sim.Op{K: "terminate", A: []int64{0, sl + 3}},
				sim.Op{K: "tick", A: []int64{1}})
			total += 8
			continue
		}
		for cl := 0; cl < ncl; cl++ {
			k := r.Weighted(2, 6, 3)
			if ncl == 1 {
				k = r.Range(1, 2)
			}
			for ; k > 0; k-- {
				cs.Ops = append(cs.Ops, gen(cl))
				total++
			}
		}
		cs.Ops = append(cs.Ops, sim.Op{K: "tick", A: []int64{int64(r.Range(1, 3))}})
		if between != nil {
			cs.Ops = append(cs.Ops, between()...)
		}
	}
	return cs
}

func c20Run(c *sim.Ctx) {
	cs := c.Case
	ncl := int(cs.Knob("ncl", 1))
	if ncl < 1 || ncl > 4 {
		ncl = 1
	}
	nent := int(cs.Knob("nent", 3))
	if nent < 1 || nent > 5 {
		nent = 5
	}
	var d c20drv
	switch cs.Variant {
	case "vlan":
		d = newC20vlan(c, nent, ncl)
	case "qinq":
		d = newC20qinq(c, nent, ncl)
	case "pppoe", "pppoe-wrap":
		d = newC20pppoe(c, nent, ncl)
	case "state-session", "state-lease":
		d = newC20state(c, nent, cs.Variant == "state-lease")
	case "allocstore":
		d = newC20astore(c, nent)
	case "submgr":
		d = newC20submgr(c, nent)
	case "circuit":
		d = newC20circuit(c, nent)
	case "pon":
		d = newC20pon(c, nent)
	default:
		return
	}
	type pendOp struct {
		idx, client int
		op          sim.Op
	}
	var pend []pendOp
	flush := func() {
		defer func() { pend = nil }()
		if len(pend) == 0 || c.Failed() {
			return
		}
		byClient := map[int][]pendOp{}
		var order []int
		for _, p := range pend {
			if _, ok := byClient[p.client]; !ok {
				order = append(order, p.client)
			}
			byClient[p.client] = append(byClient[p.client], p)
		}
		sort.Ints(order)
		if len(order) == 1 {
			for _, p := range pend {
				if c.Failed() {
					return
				}
				c.OpIdx = p.idx
				d.seq(p.op)
				c.OpsDone++
			}
			return
		}
		c.OpIdx = pend[len(pend)-1].idx
		var tasks []*simrt.Task
		for _, cl := range order {
			ops := byClient[cl]
			tasks = append(tasks, c.S.Spawn(fmt.Sprintf("caller%d", cl), nil, func() {
				for _, p := range ops {
					d.par(p.client, p.op)
					c.OpsDone++
				}
			}))
		}
		c.S.Join(tasks...)
		d.quiesce()
	}
	for i, op := range cs.Ops {
		if c.Failed() {
			break
		}
		c.OpIdx = i
		switch {
		case op.K == "tick":
			flush()
			if s := op.Arg(0); s > 0 && s < 3600 && !c.Failed() {
				c.S.Sleep(time.Duration(s) * time.Second)
			}
		case d.barrier(op.K):
			flush()
			if !c.Failed() {
				c.OpIdx = i
				d.seq(op)
				c.OpsDone++
			}
		default:
			cl := int(op.Arg(0))
			if cl < 0 {
				cl = 0
			}
			pend = append(pend, pendOp{i, cl % ncl, op})
		}
	}
	flush()
	c.OpIdx = len(cs.Ops)
	if !c.Failed() {
		d.finish()
	}
}

// c20anoms remembers which anomalies were present at the previous quiescent
// point, so that a persisting inconsistency is reported once, against the
// operation (or concurrent round) that introduced it.
type c20anoms struct{ prev, cur map[string]bool }

func (a *c20anoms) begin() { a.cur = map[string]bool{} }

// fresh records the anomaly and reports whether it is new.
func (a *c20anoms) fresh(key string) bool {
	a.cur[key] = true
	return !a.prev[key]
}
func (a *c20anoms) end() { a.prev = a.cur }

func c20idx(v int64, n int) int {
	if n <= 0 {
		return 0
	}
	if v < 0 {
		v = -v
	}
	return int(v % int64(n))
}

func init() {
	sim.Register(&sim.Scenario{
		ID:  "C20",
		Gen: c20Gen,
		Run: c20Run,
		Real: []string{"nexus.VLANAllocator (Allocate, AllocateWithSTag, Release, Get, LoadFromStore, SyncToNTE; statement-level yields)",
			"qinq.Mapper (Register, Unregister, UnregisterSubscriber, GetSubscriber, GetVLAN; statement-level yields)",
			"pppoe.SessionManager (CreateSession, GetSession, GetSessionByMAC, RemoveSession, CleanupExpired, Session.UpdateActivity; id counter driven around 65535 by repeated create/remove; statement-level yields)",
			"state.Store session and lease tables with their by-MAC / by-IP indexes", "allocator.MemoryAllocationStore (by pool / subscriber / IP)",
			"subscriber.Manager (CreateSession, AssignAddress, TerminateSession, lookups by id / MAC / IP)", "ebpf.MakeCircuitIDKey, ebpf.HashCircuitID",
			"pon.Manager (discovery worker with retries, HandleDisconnect; statement-level yields) over nexus.Client (typed stores, watch caches) and nexus.VLANAllocator"},
		Stub: []string{"NTE store behind LoadFromStore/SyncToNTE (in-memory map of nexus.NTE records)", "address allocator behind subscriber.Manager (lowest-free model over 1-3 addresses)",
			"fixed-key circuit-id map (harness map keyed by the real MakeCircuitIDKey/HashCircuitID; kernel maps absent)", "key-value store behind nexus.Client in the pon variant (in-memory, asynchronous change notifications, single failing calls)", "callers (harness tasks)"},
		Rule: "cases: one component per run; 3-16 rounds of 1-4 callers x 0-2 ops over <=5 NTEs/subscribers/MACs (VLAN: half of a round's ops go to one hot NTE, plus a release-vs-move motif; scheduling quanta up to 256 yields), tag ranges 1-2 outer x 1-3 inner, stored-pair loads (restart / reload, incl. conflicting records), two sessions per MAC (PPPoE session table only; state.Store records keep distinct MACs and addresses, key changes through Update), id wrap-around (65535 create/remove pairs), cleanup under virtual time; subscriber.Manager: single or dual stack over an idempotent allocator stub whose calls are scheduling points with an occasional 1 ms latency, with a motif (a session holding its addresses is re-assigned while it is terminated, a fresh session is assigned meanwhile, a third afterwards); pon.Manager: discoveries (half on a hot ONT) and disconnects from 1-4 callers, one failing store Put/Get armed between rounds, 0-2 retries, FIFO or per-event change notifications; non-trivial = >=3 completed operations and (a fault fired or >2 context switches); distinct = distinct (case hash, schedule fingerprint)",
		QuickRuns:    60000,
		ThoroughRuns: 1500000,
		Assumptions: []string{"a tag value of 0 is never offered (0 = no tag)",
			"state.Store: live sessions (leases) never share a MAC or an address - its by-MAC / by-IP indexes are single-valued by design, so giving a key of a live record to a second record (create or update) is a caller error outside the property; two sessions from one MAC are exercised on pppoe.SessionManager only", "an operation may fail at any time unless a released key would have satisfied it; a failed operation leaves other subscribers' mappings unchanged",
			"with several live sessions for one MAC a by-MAC lookup may return any of them, but not none", "session expiry is only judged at least 0.5 s away from the timeout boundary",
			"linearizability check capped by a model-step budget; over-budget histories are counted as unknown"},
	})
}
