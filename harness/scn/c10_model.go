package scn

import (
	"fmt"

	"github.com/anishathalye/porcupine"
)

// Interval model of the CGNAT port-block bookkeeping.

const c10maxSubs = 6

type c10blk struct {
	Held       bool
	IP         int // index into the configured public addresses, -1 = not a configured address
	Start, End int
}

func (b c10blk) String() string {
	if !b.Held {
		return "-"
	}
	return fmt.Sprintf("ip%d:%d-%d", b.IP, b.Start, b.End)
}

type c10state [c10maxSubs]c10blk

type c10cfg struct {
	pps, pstart, pend int
}

const (
	c10Alloc = iota
	c10Dealloc
	c10Get
)

var c10kindName = [...]string{"alloc", "dealloc", "get"}

type c10in struct {
	Kind int
	Sub  int
	NIPs int // public addresses configured when the op was invoked
}

type c10out struct {
	B   c10blk
	Err bool
}

// problem returns "" for a block with the configured size inside the configured
// range on a configured address.
func (cfg c10cfg) problem(b c10blk, nips int) string {
	switch {
	case b.IP < 0 || b.IP >= nips:
		return "address"
	case b.End-b.Start+1 != cfg.pps:
		return "size"
	case b.Start < cfg.pstart || b.End > cfg.pend:
		return "range"
	}
	return ""
}

func c10overlap(a, b c10blk) bool {
	return a.Held && b.Held && a.IP == b.IP && a.Start <= b.End && b.Start <= a.End
}

func (st c10state) overlapping(b c10blk, except int) int {
	for s := range st {
		if s != except && c10overlap(st[s], b) {
			return s
		}
	}
	return -1
}

// c10model is the sequential specification. relaxOverlap / relaxStable switch
// off one clause each; they are only used to classify an illegal history.
func c10model(cfg c10cfg, relaxOverlap, relaxStable bool, steps *int, budget int) porcupine.Model {
	return porcupine.Model{
		Init: func() interface{} { return c10state{} },
		Step: func(state, input, output interface{}) (bool, interface{}) {
			*steps++
			if *steps > budget {
				return false, state
			}
			st := state.(c10state)
			in := input.(c10in)
			out := output.(c10out)
			switch in.Kind {
			case c10Alloc:
				if st[in.Sub].Held && !relaxStable {
					return !out.Err && out.B == st[in.Sub], st
				}
				if out.Err {
					return true, st
				}
				if !out.B.Held || cfg.problem(out.B, in.NIPs) != "" {
					return false, st
				}
				if !relaxOverlap && st.overlapping(out.B, in.Sub) >= 0 {
					return false, st
				}
				st[in.Sub] = out.B
				return true, st
			case c10Dealloc:
				if out.Err {
					return true, st
				}
				st[in.Sub] = c10blk{}
				return true, st
			default:
				return out.B == st[in.Sub], st
			}
		},
		DescribeOperation: func(input, output interface{}) string {
			in, out := input.(c10in), output.(c10out)
			return fmt.Sprintf("%s(s%d)->%v err=%v", c10kindName[in.Kind], in.Sub, out.B, out.Err)
		},
	}
}

// c10lin checks a history; returns "", "unknown" or the class of illegality.
func c10lin(cfg c10cfg, hist []porcupine.Operation, budget int) string {
	run := func(ro, rs bool) (porcupine.CheckResult, bool) {
		steps := 0
		// timeout 0: inside the bubble a timeout would be virtual time and can never
		// fire while the checker goroutine computes; the cap is the step budget.
		res := porcupine.CheckOperationsTimeout(c10model(cfg, ro, rs, &steps, budget), hist, 0)
		return res, steps > budget
	}
	res, over := run(false, false)
	if over {
		return "unknown"
	}
	if res != porcupine.Illegal {
		return ""
	}
	if r, o := run(true, false); !o && r == porcupine.Ok {
		return "overlap"
	}
	if r, o := run(false, true); !o && r == porcupine.Ok {
		return "block-not-stable"
	}
	if r, o := run(true, true); !o && r == porcupine.Ok {
		return "overlap+block-not-stable"
	}
	return "other"
}
