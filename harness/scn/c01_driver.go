package scn

import (
	"context"
	"encoding/json"
	"errors"
	"fmt"
	"math/big"
	"net"
	"net/netip"
	"sort"
	"strings"
	"time"

	"github.com/codelaboratoryltd/bng/pkg/allocator"
	"github.com/codelaboratoryltd/bng/pkg/dhcp"
	"github.com/codelaboratoryltd/bng/pkg/dhcpv6"
	"github.com/codelaboratoryltd/bng/pkg/nexus"
	"github.com/codelaboratoryltd/bng/pkg/pool"
	"github.com/codelaboratoryltd/bng/pkg/pppoe"
	"github.com/codelaboratoryltd/bng/pkg/simrt"
	"go.uber.org/zap"

	"verif/harness/sim"
)

// Common driver over every address / prefix pool implementation the gateway
// can be configured with (shared by C01 and C05).
//
// Values cross the driver boundary as canonical strings ("10.0.0.5",
// "10.0.0.16/28", "2001:db8:0:3::/64"): exactly what the implementation
// returned, re-rendered through net/netip without masking, so a misaligned or
// foreign value never compares equal to a usable unit. The list of usable
// units is computed by the harness from the configuration alone.

type pdCaps struct {
	Lease      bool // epoch based expiry (AdvanceEpoch, Renew meaningful)
	Lookup     bool // Lookup(sub)
	LookupVal  bool // LookupValue(v)
	List       bool // List()
	Specific   bool // AllocSpecific
	Set        bool // SetAlloc (forced replay of a record)
	RelBySub   bool // Release(sub)
	RelByValue bool // ReleaseValue(v)
	Stats      bool
	Reload     bool
	Faults     bool // persistence failures can be injected
	Tick       bool // has a real epoch ticker
	// ReloadRefreshes: a reload restarts the lease clock of every loaded record
	ReloadRefreshes bool
}

type pdStat struct {
	Source  string
	Alloc   int
	Total   int
	Util    float64
	HasUtil bool
}

// fault kinds
const (
	pfPut = iota
	pfDel
	pfGet
	pfNum
)

var pfNames = [pfNum]string{"put", "delete", "get"}

var errPDUnsupported = errors.New("driver: operation not supported by this pool")
var errPDExhausted = errors.New("driver: pool returned no value")

type poolDriver interface {
	Name() string
	Caps() pdCaps
	Units() []string   // usable units, canonical, in address order
	Outside() []string // a few well-formed values that are not usable units
	Allocate(sub int) (string, error)
	Release(sub int) error
	ReleaseValue(v string) error
	Renew(sub int) error
	Lookup(sub int) (string, bool)
	LookupValue(v string) (int, bool)
	List() map[int]string
	AllocSpecific(sub int, v string) error
	SetAlloc(sub int, v string) error
	Stats() []pdStat
	Advance()
	Reload() error
	ArmFault(kind, k int) bool
	Disarm()
	TakeFired() bool
	Close()
}

// Subscriber identifiers are opaque to every pool except the hash-based central
// allocator, so they get a per-case salt: "sub-003-9f2c".
func pdSubIDSalted(i int, salt uint64) string {
	x := salt*0x9E3779B97F4A7C15 + uint64(i+1)*0xD1B54A32D192ED03
	x ^= x >> 29
	x *= 0xBF58476D1CE4E5B9
	x ^= x >> 32
	return fmt.Sprintf("sub-%03d-%04x", i, x&0xffff)
}

func pdSubIdx(id string) int {
	var i int
	if _, err := fmt.Sscanf(id, "sub-%03d", &i); err != nil {
		return -1
	}
	return i
}

func pdMAC(i int) net.HardwareAddr {
	return net.HardwareAddr{0x02, 0x00, 0x5e, 0x10, byte(i >> 8), byte(i)}
}

// ---------------------------------------------------------------------------
// canonical values and geometry

func canonIP(ip net.IP) string {
	if ip == nil {
		return ""
	}
	a, ok := netip.AddrFromSlice(ip)
	if !ok {
		return "?" + ip.String()
	}
	return a.Unmap().String()
}

func canonNet(n *net.IPNet) string {
	if n == nil {
		return ""
	}
	a, ok := netip.AddrFromSlice(n.IP)
	if !ok {
		return "?" + n.String()
	}
	ones, _ := n.Mask.Size()
	return netip.PrefixFrom(a.Unmap(), ones).String()
}

func parseNetStr(v string) *net.IPNet {
	p, err := netip.ParsePrefix(v)
	if err != nil {
		return nil
	}
	a := p.Addr()
	bits := 32
	var ip net.IP
	if a.Is4() {
		b := a.As4()
		ip = net.IP(b[:])
	} else {
		b := a.As16()
		ip = net.IP(b[:])
		bits = 128
	}
	return &net.IPNet{IP: ip, Mask: net.CIDRMask(p.Bits(), bits)}
}

func parseIPStr(v string) net.IP {
	a, err := netip.ParseAddr(v)
	if err != nil {
		return nil
	}
	if a.Is4() {
		b := a.As4()
		return net.IP(b[:])
	}
	b := a.As16()
	return net.IP(b[:])
}

// addrAt returns base + i*2^(bits-unitLen).
func addrAt(base netip.Addr, i int, unitLen int) netip.Addr {
	bits := base.BitLen()
	raw := base.AsSlice()
	x := new(big.Int).SetBytes(raw)
	off := new(big.Int).Lsh(big.NewInt(int64(i)), uint(bits-unitLen))
	x.Add(x, off)
	out := make([]byte, len(raw))
	b := x.Bytes()
	if len(b) > len(out) {
		b = b[len(b)-len(out):]
	}
	copy(out[len(out)-len(b):], b)
	a, _ := netip.AddrFromSlice(out)
	return a
}

type pdGeo struct {
	CIDR    string
	UnitLen int
}

func (g pdGeo) prefix() netip.Prefix { return netip.MustParsePrefix(g.CIDR).Masked() }

func (g pdGeo) count() int { return 1 << (g.UnitLen - g.prefix().Bits()) }

// prefixUnits: every unit of the pool, rendered as prefixes.
func (g pdGeo) prefixUnits() []string {
	p := g.prefix()
	out := make([]string, 0, g.count())
	for i := 0; i < g.count(); i++ {
		out = append(out, netip.PrefixFrom(addrAt(p.Addr(), i, g.UnitLen), g.UnitLen).String())
	}
	return out
}

// hostUnits: addresses [from, count-1-skipEnd] of the pool (unit = one address).
func (g pdGeo) hostUnits(from, skipEnd int, asPrefix bool, exclude ...string) []string {
	p := g.prefix()
	bits := p.Addr().BitLen()
	n := 1 << (bits - p.Bits())
	ex := map[string]bool{}
	for _, e := range exclude {
		ex[e] = true
	}
	var out []string
	for i := from; i < n-skipEnd; i++ {
		a := addrAt(p.Addr(), i, bits)
		if ex[a.String()] {
			continue
		}
		if asPrefix {
			out = append(out, netip.PrefixFrom(a, bits).String())
		} else {
			out = append(out, a.String())
		}
	}
	return out
}

// outsideOf: the unit-sized blocks just before and just after the pool.
func (g pdGeo) outsideOf(asPrefix bool) []string {
	p := g.prefix()
	var out []string
	for _, i := range []int{g.count(), -1} {
		a := addrAt(p.Addr(), i, g.UnitLen)
		if i < 0 {
			// base - one unit
			raw := p.Addr().AsSlice()
			x := new(big.Int).SetBytes(raw)
			x.Sub(x, new(big.Int).Lsh(big.NewInt(1), uint(p.Addr().BitLen()-g.UnitLen)))
			if x.Sign() < 0 {
				continue
			}
			b := x.Bytes()
			o := make([]byte, len(raw))
			copy(o[len(o)-len(b):], b)
			a, _ = netip.AddrFromSlice(o)
		}
		if asPrefix {
			out = append(out, netip.PrefixFrom(a, g.UnitLen).String())
		} else {
			out = append(out, a.String())
		}
	}
	return out
}

func (g pdGeo) hostAddr(i int) string {
	p := g.prefix()
	return addrAt(p.Addr(), i, p.Addr().BitLen()).String()
}

func (g pdGeo) hosts() int {
	p := g.prefix()
	return 1 << (p.Addr().BitLen() - p.Bits())
}

// Geometry tables (index = knob "geo" modulo table length; small pools first).
var pdGeoV4Addr = []pdGeo{
	{"10.0.0.0/30", 32}, {"10.20.30.8/29", 32}, {"172.16.9.240/28", 32}, {"10.0.0.0/29", 32},
	{"192.168.7.192/28", 32}, {"10.1.255.248/29", 32}, {"100.64.0.0/27", 32}, {"10.9.8.0/24", 32}, {"10.0.255.128/26", 32},
}

var pdGeoPrefix = []pdGeo{
	{"10.0.0.0/30", 32}, {"10.20.30.8/29", 32}, {"172.16.9.240/28", 32},
	{"10.4.0.0/24", 28}, {"10.4.1.0/26", 30}, {"10.5.0.0/24", 26},
	{"2001:db8:0:10::/61", 64}, {"2001:db8:0:20::/62", 64}, {"2001:db8:7:f0::/60", 64},
	{"2001:db8:1:800::/53", 56}, {"2001:db8:2:400::/54", 56},
	{"2001:db8::1:0:0:8/125", 128}, {"2001:db8::ff:fff0/124", 128},
	{"10.9.8.0/24", 32}, {"2001:db8:9::/120", 128}, {"2001:db8:a::/48", 56},
}

var pdGeoV6Addr = []pdGeo{
	{"2001:db8:1::/126", 128}, {"2001:db8:1::8/125", 128}, {"2001:db8:1::fff0/124", 128}, {"2001:db8:2::/125", 128}, {"2001:db8:3::/120", 128},
}

var pdGeoV6PD = []pdGeo{
	{"2001:db8:0:10::/62", 64}, {"2001:db8:0:18::/61", 64}, {"2001:db8:5:f0::/60", 64},
	{"2001:db8:1:400::/54", 56}, {"2001:db8:1:800::/53", 56}, {"2001:db8:40::/48", 56}, {"2001:db8:50::/44", 48},
}

var pdGeoV4Host = []pdGeo{
	{"10.0.0.0/30", 32}, {"10.20.30.8/29", 32}, {"172.16.9.240/28", 32}, {"10.0.0.0/29", 32},
	{"192.168.7.192/28", 32}, {"10.1.255.248/29", 32}, {"100.64.0.0/27", 32}, {"10.9.8.0/24", 32},
}

func pickGeo(tab []pdGeo, k int64) pdGeo {
	if k < 0 {
		k = -k
	}
	return tab[int(k)%len(tab)]
}

// gatewayFor: gw knob 0 = first host, 1 = last host, 2 = a middle host, 3 = outside the pool.
func gatewayFor(g pdGeo, gw int64) string {
	n := g.hosts()
	switch gw % 4 {
	case 0:
		return g.hostAddr(1)
	case 1:
		return g.hostAddr(n - 2)
	case 2:
		return g.hostAddr(n / 2)
	}
	return "198.51.100.1"
}

// ---------------------------------------------------------------------------
// in-memory key/value store (deterministic; injectable failures; watch echo)

type kvEvent struct {
	key     string
	value   []byte
	deleted bool
}

type kvWatcher struct {
	prefix string
	cb     func(key string, value []byte, deleted bool)
}

type memKV struct {
	c        *sim.Ctx
	data     map[string][]byte
	watchers []kvWatcher
	gen      int // bumped when the watchers are dropped (process restart)
	// echo of local writes to watchers: 0 none, 1 FIFO through one pump task,
	// 2 one task per event (what the in-repo stores do with `go cb(...)`)
	echo    int
	queue   []kvEvent
	pumping bool
	qorder  int // Query order: 0 sorted, 1 reversed, 2 tape shuffle
	calls   [pfNum]int
	failAt  [pfNum]int // absolute call index that fails; -1 = none
	fired   bool
	yield   bool // visit the scheduler at every store call
}

func newMemKV(c *sim.Ctx, echo, qorder int) *memKV {
	kv := &memKV{c: c, data: map[string][]byte{}, echo: echo, qorder: qorder}
	kv.disarm()
	return kv
}

func (kv *memKV) disarm() {
	for i := range kv.failAt {
		kv.failAt[i] = -1
	}
}

func (kv *memKV) arm(kind, k int) {
	kv.failAt[kind] = kv.calls[kind] + k
}

func (kv *memKV) step(kind int) error {
	if kv.yield {
		kv.c.S.Pause()
	}
	idx := kv.calls[kind]
	kv.calls[kind]++
	if kv.failAt[kind] == idx {
		kv.failAt[kind] = -1
		kv.fired = true
		kv.c.S.Fault("store.err." + pfNames[kind])
		if idx < 12 {
			kv.c.S.Probe(fmt.Sprintf("store_fail_at[%s:%d]", pfNames[kind], idx))
		} else {
			kv.c.S.Probe("store_fail_at[" + pfNames[kind] + ":12+]")
		}
		return fmt.Errorf("simulated store %s failure", pfNames[kind])
	}
	return nil
}

func (kv *memKV) get(key string) ([]byte, bool, error) {
	if err := kv.step(pfGet); err != nil {
		return nil, false, err
	}
	v, ok := kv.data[key]
	return v, ok, nil
}

func (kv *memKV) put(key string, value []byte) error {
	if err := kv.step(pfPut); err != nil {
		return err
	}
	v := append([]byte(nil), value...)
	kv.data[key] = v
	kv.notify(kvEvent{key, v, false})
	return nil
}

func (kv *memKV) del(key string) error {
	if err := kv.step(pfDel); err != nil {
		return err
	}
	delete(kv.data, key)
	kv.notify(kvEvent{key, nil, true})
	return nil
}

func (kv *memKV) query(prefix string) []kvEvent {
	if kv.yield {
		kv.c.S.Pause()
	}
	var keys []string
	for k := range kv.data {
		if strings.HasPrefix(k, prefix) {
			keys = append(keys, k)
		}
	}
	sort.Strings(keys)
	switch kv.qorder {
	case 1:
		for i, j := 0, len(keys)-1; i < j; i, j = i+1, j-1 {
			keys[i], keys[j] = keys[j], keys[i]
		}
	case 2:
		for i := 0; i < len(keys)-1; i++ {
			j := i + kv.c.S.Choose(simrt.StDisk, len(keys)-i)
			keys[i], keys[j] = keys[j], keys[i]
		}
	}
	out := make([]kvEvent, 0, len(keys))
	for _, k := range keys {
		out = append(out, kvEvent{key: k, value: kv.data[k]})
	}
	return out
}

func (kv *memKV) watch(prefix string, cb func(string, []byte, bool)) {
	kv.watchers = append(kv.watchers, kvWatcher{prefix, cb})
}

// dropWatchers models the end of the process that registered them.
func (kv *memKV) dropWatchers() {
	kv.watchers = nil
	kv.queue = nil
	kv.gen++
}

func (kv *memKV) deliver(ev kvEvent, gen int) {
	if gen != kv.gen {
		return
	}
	ws := append([]kvWatcher(nil), kv.watchers...)
	for _, w := range ws {
		if gen != kv.gen {
			return
		}
		if strings.HasPrefix(ev.key, w.prefix) {
			w.cb(ev.key, ev.value, ev.deleted)
		}
	}
}

func (kv *memKV) notify(ev kvEvent) {
	if kv.echo == 0 || len(kv.watchers) == 0 {
		return
	}
	gen := kv.gen
	if kv.echo == 2 {
		kv.c.S.Spawn("kv-echo", nil, func() { kv.deliver(ev, gen) })
		return
	}
	kv.queue = append(kv.queue, ev)
	if kv.pumping {
		return
	}
	kv.pumping = true
	kv.c.S.Spawn("kv-pump", nil, func() {
		for len(kv.queue) > 0 && gen == kv.gen {
			e := kv.queue[0]
			kv.queue = kv.queue[1:]
			kv.deliver(e, gen)
		}
		kv.pumping = false
	})
}

// allocator.Store adapter
type kvAllocStore struct{ kv *memKV }

func (s kvAllocStore) Get(ctx context.Context, key string) ([]byte, error) {
	v, ok, err := s.kv.get(key)
	if err != nil {
		return nil, err
	}
	if !ok {
		return nil, allocator.ErrNotFound
	}
	return v, nil
}
func (s kvAllocStore) Put(ctx context.Context, key string, value []byte) error {
	return s.kv.put(key, value)
}
func (s kvAllocStore) Delete(ctx context.Context, key string) error { return s.kv.del(key) }
func (s kvAllocStore) Query(ctx context.Context, prefix string) ([]allocator.KeyValue, error) {
	var out []allocator.KeyValue
	for _, e := range s.kv.query(prefix) {
		out = append(out, allocator.KeyValue{Key: e.key, Value: e.value})
	}
	return out, nil
}
func (s kvAllocStore) Watch(prefix string, cb func(key string, value []byte, deleted bool)) {
	s.kv.watch(prefix, cb)
}

// nexus.Store adapter
type kvNexusStore struct{ kv *memKV }

func (s kvNexusStore) Get(ctx context.Context, key string) ([]byte, error) {
	v, ok, err := s.kv.get(key)
	if err != nil {
		return nil, err
	}
	if !ok {
		return nil, nexus.ErrNotFound
	}
	return v, nil
}
func (s kvNexusStore) Put(ctx context.Context, key string, value []byte) error {
	return s.kv.put(key, value)
}
func (s kvNexusStore) Delete(ctx context.Context, key string) error { return s.kv.del(key) }
func (s kvNexusStore) Query(ctx context.Context, prefix string) ([]nexus.KeyValue, error) {
	var out []nexus.KeyValue
	for _, e := range s.kv.query(prefix) {
		out = append(out, nexus.KeyValue{Key: e.key, Value: e.value})
	}
	return out, nil
}
func (s kvNexusStore) Watch(prefix string, cb nexus.WatchCallback) {
	s.kv.watch(prefix, func(k string, v []byte, d bool) { cb(k, v, d) })
}
func (s kvNexusStore) Close() error { return nil }

// failing AllocationStore wrapper (SaveAllocation / RemoveAllocation failures)
type faultyAllocStore struct {
	allocator.AllocationStore
	c      *sim.Ctx
	calls  [pfNum]int
	failAt [pfNum]int
	fired  bool
}

func (f *faultyAllocStore) step(kind int) error {
	idx := f.calls[kind]
	f.calls[kind]++
	if f.failAt[kind] == idx {
		f.failAt[kind] = -1
		f.fired = true
		f.c.S.Fault("store.err." + pfNames[kind])
		if idx < 12 {
			f.c.S.Probe(fmt.Sprintf("store_fail_at[%s:%d]", pfNames[kind], idx))
		} else {
			f.c.S.Probe("store_fail_at[" + pfNames[kind] + ":12+]")
		}
		return fmt.Errorf("simulated allocation store %s failure", pfNames[kind])
	}
	return nil
}

func (f *faultyAllocStore) SaveAllocation(ctx context.Context, a allocator.AllocationRecord) error {
	if err := f.step(pfPut); err != nil {
		return err
	}
	return f.AllocationStore.SaveAllocation(ctx, a)
}

func (f *faultyAllocStore) RemoveAllocation(ctx context.Context, poolID, sub string) error {
	if err := f.step(pfDel); err != nil {
		return err
	}
	return f.AllocationStore.RemoveAllocation(ctx, poolID, sub)
}

// ---------------------------------------------------------------------------
// base with defaults

type pdBase struct {
	salt    uint64
	name    string
	caps    pdCaps
	units   []string
	outside []string
}

func (b *pdBase) sid(i int) string                      { return pdSubIDSalted(i, b.salt) }
func (b *pdBase) setSalt(x uint64)                      { b.salt = x }
func (b *pdBase) Name() string                          { return b.name }
func (b *pdBase) Caps() pdCaps                          { return b.caps }
func (b *pdBase) Units() []string                       { return b.units }
func (b *pdBase) Outside() []string                     { return b.outside }
func (b *pdBase) Release(sub int) error                 { return errPDUnsupported }
func (b *pdBase) ReleaseValue(v string) error           { return errPDUnsupported }
func (b *pdBase) Renew(sub int) error                   { return errPDUnsupported }
func (b *pdBase) Lookup(sub int) (string, bool)         { return "", false }
func (b *pdBase) LookupValue(v string) (int, bool)      { return -1, false }
func (b *pdBase) List() map[int]string                  { return nil }
func (b *pdBase) AllocSpecific(sub int, v string) error { return errPDUnsupported }
func (b *pdBase) SetAlloc(sub int, v string) error      { return errPDUnsupported }
func (b *pdBase) Stats() []pdStat                       { return nil }
func (b *pdBase) Advance()                              {}
func (b *pdBase) Reload() error                         { return errPDUnsupported }
func (b *pdBase) ArmFault(kind, k int) bool             { return false }
func (b *pdBase) Disarm()                               {}
func (b *pdBase) TakeFired() bool                       { return false }
func (b *pdBase) Close()                                {}

// ---------------------------------------------------------------------------
// allocator.IPAllocator

type bitmapDrv struct {
	pdBase
	a *allocator.IPAllocator
}

func newBitmapDrv(g pdGeo) (*bitmapDrv, error) {
	a, err := allocator.NewIPAllocator(g.CIDR, g.UnitLen)
	if err != nil {
		return nil, err
	}
	d := &bitmapDrv{a: a}
	d.name = "bitmap"
	d.caps = pdCaps{Lookup: true, LookupVal: true, List: true, Specific: true, Set: true, RelBySub: true, RelByValue: true, Stats: true, Reload: true}
	d.units = g.prefixUnits()
	d.outside = g.outsideOf(true)
	return d, nil
}

func (d *bitmapDrv) Allocate(sub int) (string, error) {
	p, err := d.a.Allocate(d.sid(sub))
	if err != nil {
		return "", err
	}
	return canonNet(p), nil
}
func (d *bitmapDrv) Release(sub int) error { return d.a.Release(d.sid(sub)) }
func (d *bitmapDrv) ReleaseValue(v string) error {
	n := parseNetStr(v)
	if n == nil {
		return errPDUnsupported
	}
	return d.a.ReleasePrefix(n)
}
func (d *bitmapDrv) Lookup(sub int) (string, bool) {
	p := d.a.Lookup(d.sid(sub))
	return canonNet(p), p != nil
}
func (d *bitmapDrv) LookupValue(v string) (int, bool) {
	n := parseNetStr(v)
	if n == nil {
		return -1, false
	}
	id := d.a.LookupByPrefix(n)
	if id == "" {
		return -1, false
	}
	return pdSubIdx(id), true
}
func (d *bitmapDrv) List() map[int]string {
	out := map[int]string{}
	for _, al := range d.a.ListAllocations() {
		out[pdSubIdx(al.SubscriberID)] = canonNet(al.Prefix)
	}
	return out
}
func (d *bitmapDrv) AllocSpecific(sub int, v string) error {
	n := parseNetStr(v)
	if n == nil {
		return errPDUnsupported
	}
	return d.a.AllocateSpecific(d.sid(sub), n)
}
func (d *bitmapDrv) SetAlloc(sub int, v string) error {
	n := parseNetStr(v)
	if n == nil {
		return errPDUnsupported
	}
	return d.a.SetAllocation(d.sid(sub), n)
}
func (d *bitmapDrv) Stats() []pdStat {
	a, t, u := d.a.Stats()
	return []pdStat{{"Stats", int(a), int(t), u, true}}
}
func (d *bitmapDrv) Reload() error {
	b, err := json.Marshal(d.a)
	if err != nil {
		return err
	}
	n := new(allocator.IPAllocator)
	if err := json.Unmarshal(b, n); err != nil {
		return err
	}
	d.a = n
	return nil
}

// ---------------------------------------------------------------------------
// allocator.EpochBitmapAllocator

type epochDrv struct {
	pdBase
	e   *allocator.EpochBitmapAllocator
	ctx context.Context
}

func newEpochDrv(g pdGeo, grace int) (*epochDrv, error) {
	e, err := allocator.NewEpochBitmapAllocator(allocator.EpochBitmapConfig{BaseNetwork: g.CIDR, PrefixLength: g.UnitLen, GracePeriod: uint64(grace)})
	if err != nil {
		return nil, err
	}
	d := &epochDrv{e: e, ctx: context.Background()}
	d.name = fmt.Sprintf("epoch-g%d", grace)
	d.caps = pdCaps{Lease: true, Lookup: true, LookupVal: true, RelBySub: true, Stats: true, Reload: true}
	d.units = g.hostUnits(1, 1, false)
	d.outside = append(g.outsideOf(false), g.hostAddr(0), g.hostAddr(g.hosts()-1))
	return d, nil
}

func (d *epochDrv) Allocate(sub int) (string, error) {
	ip, err := d.e.Allocate(d.ctx, d.sid(sub))
	if err != nil {
		return "", err
	}
	return canonIP(ip), nil
}
func (d *epochDrv) Release(sub int) error { return d.e.Release(d.ctx, d.sid(sub)) }
func (d *epochDrv) Renew(sub int) error   { return d.e.Renew(d.ctx, d.sid(sub)) }
func (d *epochDrv) Lookup(sub int) (string, bool) {
	ip := d.e.Lookup(d.sid(sub))
	return canonIP(ip), ip != nil
}
func (d *epochDrv) LookupValue(v string) (int, bool) {
	ip := parseIPStr(v)
	if ip == nil {
		return -1, false
	}
	id := d.e.LookupByIP(ip)
	if id == "" {
		return -1, false
	}
	return pdSubIdx(id), true
}
func (d *epochDrv) Stats() []pdStat {
	a, t, u := d.e.Stats()
	return []pdStat{{"Stats", int(a), int(t), u, true}}
}
func (d *epochDrv) Advance() { d.e.AdvanceEpoch() }
func (d *epochDrv) Reload() error {
	b, err := json.Marshal(d.e)
	if err != nil {
		return err
	}
	n := new(allocator.EpochBitmapAllocator)
	if err := json.Unmarshal(b, n); err != nil {
		return err
	}
	d.e = n
	return nil
}

// ---------------------------------------------------------------------------
// allocator.PoolAllocator + MemoryAllocationStore (optionally behind a failing wrapper)

type poolAllocDrv struct {
	pdBase
	p     *allocator.PoolAllocator
	mem   *allocator.MemoryAllocationStore
	wrap  *faultyAllocStore
	ctx   context.Context
	useMA bool
}

func newPoolAllocDrv(c *sim.Ctx, g pdGeo, wrap bool) (*poolAllocDrv, error) {
	d := &poolAllocDrv{mem: allocator.NewMemoryAllocationStore(), ctx: context.Background()}
	var st allocator.AllocationStore = d.mem
	d.name = "poolalloc"
	if wrap {
		d.wrap = &faultyAllocStore{AllocationStore: d.mem, c: c}
		for i := range d.wrap.failAt {
			d.wrap.failAt[i] = -1
		}
		st = d.wrap
		d.name = "poolalloc-wrapped"
	}
	p, err := allocator.NewPoolAllocatorWithType(allocator.PoolAllocatorConfig{PoolID: "p1", BaseNetwork: g.CIDR, PrefixLength: g.UnitLen, Store: st})
	if err != nil {
		return nil, err
	}
	if wrap {
		// NewPoolAllocatorWithType registers the capacity only on a bare memory store
		d.mem.SetPoolTotal("p1", g.count())
	}
	d.p = p
	d.caps = pdCaps{Lookup: true, LookupVal: true, List: true, RelBySub: true, Stats: true, Faults: wrap}
	d.units = g.prefixUnits()
	d.outside = g.outsideOf(true)
	return d, nil
}

func (d *poolAllocDrv) Allocate(sub int) (string, error) {
	p, err := d.p.Allocate(d.ctx, d.sid(sub), pdMAC(sub).String())
	if err != nil {
		return "", err
	}
	return canonNet(p), nil
}
func (d *poolAllocDrv) Release(sub int) error { return d.p.Release(d.ctx, d.sid(sub)) }
func (d *poolAllocDrv) Lookup(sub int) (string, bool) {
	p := d.p.Lookup(d.sid(sub))
	return canonNet(p), p != nil
}
func (d *poolAllocDrv) LookupValue(v string) (int, bool) {
	n := parseNetStr(v)
	if n == nil {
		return -1, false
	}
	rec, err := d.mem.GetByIP(d.ctx, n.IP)
	if err != nil || rec == nil {
		return -1, false
	}
	return pdSubIdx(rec.SubscriberID), true
}
func (d *poolAllocDrv) List() map[int]string {
	recs, _ := d.mem.GetByPool(d.ctx, "p1")
	out := map[int]string{}
	for _, r := range recs {
		out[pdSubIdx(r.SubscriberID)] = canonNet(r.Prefix)
	}
	return out
}
func (d *poolAllocDrv) Stats() []pdStat {
	a, t, u := d.p.Stats()
	sa, stt, _ := d.mem.GetPoolUtilization(d.ctx, "p1")
	return []pdStat{{"Stats", int(a), int(t), u, true}, {"GetPoolUtilization", sa, stt, 0, false}}
}
func (d *poolAllocDrv) ArmFault(kind, k int) bool {
	if d.wrap == nil || kind == pfGet {
		return false
	}
	d.wrap.failAt[kind] = d.wrap.calls[kind] + k
	return true
}
func (d *poolAllocDrv) Disarm() {
	if d.wrap != nil {
		for i := range d.wrap.failAt {
			d.wrap.failAt[i] = -1
		}
	}
}
func (d *poolAllocDrv) TakeFired() bool {
	if d.wrap == nil {
		return false
	}
	f := d.wrap.fired
	d.wrap.fired = false
	return f
}

// ---------------------------------------------------------------------------
// allocator.LocalAllocator (modes.go)

type localDrv struct {
	pdBase
	l   *allocator.LocalAllocator
	ctx context.Context
}

func newLocalDrv(g pdGeo) (*localDrv, error) {
	l, err := allocator.NewLocalAllocator(allocator.LocalAllocatorConfig{Pools: []allocator.PoolConfig{{ID: "p1", CIDR: g.CIDR, PrefixLength: g.UnitLen}}})
	if err != nil {
		return nil, err
	}
	d := &localDrv{l: l, ctx: context.Background()}
	d.name = "local"
	d.caps = pdCaps{Lookup: true, LookupVal: true, List: true, RelBySub: true, Stats: true}
	d.units = g.prefixUnits()
	d.outside = g.outsideOf(true)
	return d, nil
}

func (d *localDrv) Allocate(sub int) (string, error) {
	var p *net.IPNet
	var err error
	if sub%2 == 0 {
		p, err = d.l.Allocate(d.ctx, d.sid(sub), "p1")
	} else {
		p, err = d.l.AllocateWithMAC(d.ctx, d.sid(sub), "p1", pdMAC(sub).String())
	}
	if err != nil {
		return "", err
	}
	return canonNet(p), nil
}
func (d *localDrv) Release(sub int) error { return d.l.Release(d.ctx, d.sid(sub), "p1") }
func (d *localDrv) Lookup(sub int) (string, bool) {
	infos, err := d.l.Lookup(d.ctx, d.sid(sub))
	if err != nil || len(infos) == 0 {
		return "", false
	}
	return canonNet(infos[0].Prefix), true
}
func (d *localDrv) LookupValue(v string) (int, bool) {
	n := parseNetStr(v)
	if n == nil {
		return -1, false
	}
	info, err := d.l.LookupByIP(d.ctx, n.IP)
	if err != nil || info == nil {
		return -1, false
	}
	return pdSubIdx(info.SubscriberID), true
}
func (d *localDrv) List() map[int]string {
	infos, _ := d.l.LookupByPool(d.ctx, "p1")
	out := map[int]string{}
	for _, r := range infos {
		out[pdSubIdx(r.SubscriberID)] = canonNet(r.Prefix)
	}
	return out
}
func (d *localDrv) Stats() []pdStat {
	a, t, u, err := d.l.Stats(d.ctx, "p1")
	if err != nil {
		return nil
	}
	return []pdStat{{"Stats", int(a), int(t), u, true}}
}
func (d *localDrv) Close() { d.l.Close() }

// ---------------------------------------------------------------------------
// allocator.DistributedAllocator (session / lease) over memKV

type distDrv struct {
	pdBase
	c      *sim.Ctx
	kv     *memKV
	cfg    allocator.DistributedConfig
	da     *allocator.DistributedAllocator
	ctx    context.Context
	cancel context.CancelFunc
	useMAC bool
}

func newDistDrv(c *sim.Ctx, g pdGeo, lease bool, grace int, kv *memKV, period time.Duration) (*distDrv, error) {
	d := &distDrv{c: c, kv: kv}
	d.cfg = allocator.DistributedConfig{PoolID: "p1", BaseNetwork: g.CIDR, PrefixLen: g.UnitLen, Mode: allocator.PoolModeSession, EpochPeriod: period}
	d.name = "dist-session"
	d.caps = pdCaps{Lookup: true, LookupVal: true, RelBySub: true, Stats: true, Reload: true, Faults: true}
	d.units = g.prefixUnits()
	d.outside = g.outsideOf(true)
	if lease {
		d.cfg.Mode = allocator.PoolModeLease
		d.cfg.EpochGrace = grace
		d.name = fmt.Sprintf("dist-lease-g%d", grace)
		d.caps.Lease, d.caps.Tick, d.caps.ReloadRefreshes = true, true, true
		d.units = g.hostUnits(1, 1, true)
	}
	if err := d.start(); err != nil {
		return nil, err
	}
	return d, nil
}

func (d *distDrv) start() error {
	da, err := allocator.NewDistributedAllocator(d.cfg, kvAllocStore{d.kv})
	if err != nil {
		return err
	}
	d.ctx, d.cancel = context.WithCancel(context.Background())
	if err := da.Start(d.ctx); err != nil {
		d.cancel()
		return err
	}
	d.da = da
	return nil
}

func (d *distDrv) Allocate(sub int) (string, error) {
	var p *net.IPNet
	var err error
	if d.useMAC && sub%2 == 1 {
		p, err = d.da.AllocateWithMAC(d.ctx, d.sid(sub), pdMAC(sub))
	} else {
		p, err = d.da.Allocate(d.ctx, d.sid(sub))
	}
	if err != nil {
		return "", err
	}
	return canonNet(p), nil
}
func (d *distDrv) Release(sub int) error { return d.da.Release(d.ctx, d.sid(sub)) }
func (d *distDrv) Renew(sub int) error   { return d.da.Renew(d.ctx, d.sid(sub)) }
func (d *distDrv) Lookup(sub int) (string, bool) {
	p, ok := d.da.Get(d.sid(sub))
	if !ok {
		return "", false
	}
	return canonNet(p), true
}
func (d *distDrv) LookupValue(v string) (int, bool) {
	n := parseNetStr(v)
	if n == nil {
		return -1, false
	}
	id, ok := d.da.GetByPrefix(n)
	if !ok {
		return -1, false
	}
	return pdSubIdx(id), true
}
func (d *distDrv) Stats() []pdStat {
	s := d.da.Stats()
	return []pdStat{{"Stats", s.Allocated, s.Total, s.Utilization, true}}
}
func (d *distDrv) Advance() { d.da.AdvanceEpoch() }
func (d *distDrv) Reload() error {
	// the old process goes away: its ticker stops, its watches die with it
	d.cancel()
	d.kv.dropWatchers()
	return d.start()
}
func (d *distDrv) ArmFault(kind, k int) bool { d.kv.arm(kind, k); return true }
func (d *distDrv) Disarm()                   { d.kv.disarm() }
func (d *distDrv) TakeFired() bool           { f := d.kv.fired; d.kv.fired = false; return f }
func (d *distDrv) Close()                    { d.cancel(); d.kv.dropWatchers() }

// ---------------------------------------------------------------------------
// dhcp.Pool

type dhcpDrv struct {
	pdBase
	p *dhcp.Pool
}

func newDhcpDrv(g pdGeo, gw string, resStart, resEnd int) (*dhcpDrv, error) {
	p, err := dhcp.NewPool(dhcp.PoolConfig{ID: 1, Name: "p1", Network: g.CIDR, Gateway: gw, LeaseTime: time.Hour, ReservedStart: resStart, ReservedEnd: resEnd})
	if err != nil {
		return nil, err
	}
	d := &dhcpDrv{p: p}
	d.name = "dhcp"
	d.caps = pdCaps{RelByValue: true, Stats: true}
	// documented: network and broadcast excluded, first ReservedStart and last
	// ReservedEnd host addresses reserved, gateway excluded
	d.units = g.hostUnits(1+resStart, 1+resEnd, false, gw)
	d.outside = append(g.outsideOf(false), g.hostAddr(0), g.hostAddr(g.hosts()-1))
	return d, nil
}

func (d *dhcpDrv) Allocate(sub int) (string, error) {
	ip, err := d.p.Allocate(pdMAC(sub))
	if err != nil {
		return "", err
	}
	return canonIP(ip), nil
}
func (d *dhcpDrv) ReleaseValue(v string) error {
	ip := parseIPStr(v)
	if ip == nil {
		return errPDUnsupported
	}
	d.p.Release(ip)
	return nil
}
func (d *dhcpDrv) Stats() []pdStat {
	s := d.p.Stats()
	return []pdStat{{"Stats", s.Allocated, s.Total, 0, false}}
}

// ---------------------------------------------------------------------------
// dhcpv6.AddressPool / PrefixPool

type v6AddrDrv struct {
	pdBase
	p *dhcpv6.AddressPool
}

func newV6AddrDrv(g pdGeo) (*v6AddrDrv, error) {
	p, err := dhcpv6.NewAddressPool(g.CIDR, 3600, 7200)
	if err != nil {
		return nil, err
	}
	d := &v6AddrDrv{p: p}
	d.name = "dhcpv6-addr"
	d.caps = pdCaps{RelBySub: true}
	d.units = g.hostUnits(1, 0, false)
	d.outside = append(g.outsideOf(false), g.hostAddr(0))
	return d, nil
}
func (d *v6AddrDrv) Allocate(sub int) (string, error) {
	ip := d.p.Allocate("duid-" + d.sid(sub))
	if ip == nil {
		return "", errPDExhausted
	}
	return canonIP(ip), nil
}
func (d *v6AddrDrv) Release(sub int) error { d.p.Release("duid-" + d.sid(sub)); return nil }

type v6PDDrv struct {
	pdBase
	p *dhcpv6.PrefixPool
}

func newV6PDDrv(g pdGeo) (*v6PDDrv, error) {
	p, err := dhcpv6.NewPrefixPool(g.CIDR, uint8(g.UnitLen), 3600, 7200)
	if err != nil {
		return nil, err
	}
	d := &v6PDDrv{p: p}
	d.name = "dhcpv6-pd"
	d.caps = pdCaps{RelBySub: true}
	d.units = g.prefixUnits()
	d.outside = g.outsideOf(true)
	return d, nil
}
func (d *v6PDDrv) Allocate(sub int) (string, error) {
	n := d.p.Allocate("duid-" + d.sid(sub))
	if n == nil {
		return "", errPDExhausted
	}
	return canonNet(n), nil
}
func (d *v6PDDrv) Release(sub int) error { d.p.Release("duid-" + d.sid(sub)); return nil }

// ---------------------------------------------------------------------------
// pppoe.IPPool

type pppoeDrv struct {
	pdBase
	p *pppoe.IPPool
}

func newPPPoEDrv(g pdGeo, gw string) (*pppoeDrv, error) {
	p, err := pppoe.NewIPPool(g.CIDR, gw)
	if err != nil {
		return nil, err
	}
	d := &pppoeDrv{p: p}
	d.name = "pppoe"
	d.caps = pdCaps{RelBySub: true}
	// documented: "skip network, gateway, and broadcast"
	d.units = g.hostUnits(1, 1, false, gw)
	d.outside = append(g.outsideOf(false), g.hostAddr(0), g.hostAddr(g.hosts()-1))
	return d, nil
}
func (d *pppoeDrv) Allocate(sub int) (string, error) {
	ip := d.p.Allocate(d.sid(sub))
	if ip == nil {
		return "", errPDExhausted
	}
	return canonIP(ip), nil
}
func (d *pppoeDrv) Release(sub int) error { d.p.Release(d.sid(sub)); return nil }

// ---------------------------------------------------------------------------
// pool.PeerPool, single node (local pool)

type peerDrv struct {
	pdBase
	p   *pool.PeerPool
	ctx context.Context
}

func newPeerDrv(g pdGeo, gw string) (*peerDrv, error) {
	p, err := pool.NewPeerPool(pool.PeerPoolConfig{NodeID: "node-a", Network: g.CIDR, Gateway: gw, LeaseTime: time.Hour})
	if err != nil {
		return nil, err
	}
	d := &peerDrv{p: p, ctx: context.Background()}
	d.name = "peer"
	d.caps = pdCaps{Lookup: true, RelBySub: true, Stats: true}
	d.units = g.hostUnits(1, 1, false, gw)
	d.outside = append(g.outsideOf(false), g.hostAddr(0), g.hostAddr(g.hosts()-1))
	return d, nil
}
func (d *peerDrv) Allocate(sub int) (string, error) {
	r, err := d.p.Allocate(d.ctx, d.sid(sub), pdMAC(sub))
	if err != nil {
		return "", err
	}
	if ip := net.ParseIP(r.IP); ip != nil {
		return canonIP(ip), nil
	}
	return "?" + r.IP, nil
}
func (d *peerDrv) Release(sub int) error { return d.p.Release(d.ctx, d.sid(sub)) }
func (d *peerDrv) Lookup(sub int) (string, bool) {
	r, ok := d.p.Get(d.sid(sub))
	if !ok {
		return "", false
	}
	if ip := net.ParseIP(r.IP); ip != nil {
		return canonIP(ip), true
	}
	return "?" + r.IP, true
}
func (d *peerDrv) Stats() []pdStat {
	s := d.p.Stats()
	return []pdStat{{"Stats", s.Allocated, s.Total, 0, false}}
}

// ---------------------------------------------------------------------------
// nexus.Client hash-based central allocation over memKV

type nexusDrv struct {
	pdBase
	c    *sim.Ctx
	kv   *memKV
	cl   *nexus.Client
	ctx  context.Context
	nsub int
}

func newNexusDrv(c *sim.Ctx, g pdGeo, kv *memKV, nsub int, salt uint64) (*nexusDrv, error) {
	d := &nexusDrv{c: c, kv: kv, ctx: context.Background(), nsub: nsub}
	d.salt = salt
	d.name = "nexus-hash"
	d.caps = pdCaps{Lookup: true, List: true, RelBySub: true, Reload: true, Faults: true}
	// documented: "Exclude network and broadcast"
	d.units = g.hostUnits(1, 1, false)
	d.outside = append(g.outsideOf(false), g.hostAddr(0), g.hostAddr(g.hosts()-1))
	// provisioning data the central store holds before the gateway starts
	pb, _ := json.Marshal(nexus.IPPool{ID: "p1", CIDR: g.CIDR, Type: "residential"})
	kv.data["/pool/p1"] = pb
	for i := 0; i < nsub; i++ {
		sb, _ := json.Marshal(nexus.Subscriber{ID: d.sid(i), NTEID: fmt.Sprintf("nte-%d", i), DeviceID: "dev-1", ISPID: "isp-1", IPv4Pool: "p1", State: "active"})
		kv.data["/subscriber/"+d.sid(i)] = sb
	}
	if err := d.start(); err != nil {
		return nil, err
	}
	return d, nil
}

func (d *nexusDrv) start() error {
	cfg := nexus.DefaultClientConfig()
	cfg.DeviceID = "dev-1"
	cl := nexus.NewClient(cfg, kvNexusStore{d.kv}, zap.NewNop())
	if err := cl.Start(); err != nil {
		return err
	}
	d.cl = cl
	return nil
}

func (d *nexusDrv) Allocate(sub int) (string, error) {
	s, err := d.cl.AllocateIPForSubscriber(d.ctx, d.sid(sub))
	if err != nil {
		return "", err
	}
	if ip := net.ParseIP(s); ip != nil {
		return canonIP(ip), nil
	}
	return "?" + s, nil
}
func (d *nexusDrv) Release(sub int) error { return d.cl.ReleaseSubscriberIP(d.ctx, d.sid(sub)) }
func (d *nexusDrv) Lookup(sub int) (string, bool) {
	s, ok := d.cl.LookupSubscriberIP(d.sid(sub))
	if !ok {
		return "", false
	}
	if ip := net.ParseIP(s); ip != nil {
		return canonIP(ip), true
	}
	return "?" + s, true
}
func (d *nexusDrv) List() map[int]string {
	out := map[int]string{}
	for _, s := range d.cl.ListSubscribers() {
		if s.IPv4Addr == "" {
			continue
		}
		v := "?" + s.IPv4Addr
		if ip := net.ParseIP(s.IPv4Addr); ip != nil {
			v = canonIP(ip)
		}
		out[pdSubIdx(s.ID)] = v
	}
	return out
}
func (d *nexusDrv) Reload() error {
	d.cl.Stop()
	d.kv.dropWatchers()
	return d.start()
}
func (d *nexusDrv) Close() { d.cl.Stop(); d.kv.dropWatchers() }

// ArmFault: the k-th next store call of that kind fails (clean failure).
func (d *nexusDrv) ArmFault(kind, k int) bool { d.kv.arm(kind, k); return true }

// ---------------------------------------------------------------------------
// variant table

var pdVariants = []string{"bitmap", "epoch", "poolalloc", "poolalloc-wrapped", "local", "dist-session", "dist-lease",
	"dhcp", "dhcpv6-addr", "dhcpv6-pd", "pppoe", "peer", "nexus-hash"}

// pdStaticCaps lets the generators bias op kinds without building a driver.
func pdStaticCaps(variant string) pdCaps {
	switch variant {
	case "bitmap":
		return pdCaps{Lookup: true, LookupVal: true, List: true, Specific: true, Set: true, RelBySub: true, RelByValue: true, Stats: true, Reload: true}
	case "epoch":
		return pdCaps{Lease: true, Lookup: true, LookupVal: true, RelBySub: true, Stats: true, Reload: true}
	case "poolalloc", "local":
		return pdCaps{Lookup: true, LookupVal: true, List: true, RelBySub: true, Stats: true}
	case "poolalloc-wrapped":
		return pdCaps{Lookup: true, LookupVal: true, List: true, RelBySub: true, Stats: true, Faults: true}
	case "dist-session":
		return pdCaps{Lookup: true, LookupVal: true, RelBySub: true, Stats: true, Reload: true, Faults: true}
	case "dist-lease":
		return pdCaps{Lease: true, Tick: true, Lookup: true, LookupVal: true, RelBySub: true, Stats: true, Reload: true, Faults: true, ReloadRefreshes: true}
	case "dhcp":
		return pdCaps{RelByValue: true, Stats: true}
	case "dhcpv6-addr", "dhcpv6-pd", "pppoe":
		return pdCaps{RelBySub: true}
	case "peer":
		return pdCaps{Lookup: true, RelBySub: true, Stats: true}
	case "nexus-hash":
		return pdCaps{Lookup: true, List: true, RelBySub: true, Reload: true, Faults: true}
	}
	return pdCaps{}
}

const pdEpochPeriod = time.Hour

// newPoolDriver builds the variant named by the case from its knobs.
func newPoolDriver(c *sim.Ctx) (poolDriver, error) {
	d, err := buildPoolDriver(c)
	if err != nil {
		return nil, err
	}
	if s, ok := d.(interface{ setSalt(uint64) }); ok {
		s.setSalt(uint64(c.Case.Knob("idsalt", 0)))
	}
	return d, nil
}

func buildPoolDriver(c *sim.Ctx) (poolDriver, error) {
	cs := c.Case
	geo := cs.Knob("geo", 0)
	grace := int(cs.Knob("grace", 1))
	if grace < 1 {
		grace = 1
	}
	gwk := cs.Knob("gw", 0)
	newKV := func() *memKV {
		kv := newMemKV(c, int(cs.Knob("echo", 0)), int(cs.Knob("qorder", 0)))
		kv.yield = cs.Knob("conc", 0) > 1
		return kv
	}
	switch cs.Variant {
	case "bitmap":
		return newBitmapDrv(pickGeo(pdGeoPrefix, geo))
	case "epoch":
		return newEpochDrv(pickGeo(pdGeoV4Addr, geo), grace)
	case "poolalloc":
		return newPoolAllocDrv(c, pickGeo(pdGeoPrefix, geo), false)
	case "poolalloc-wrapped":
		return newPoolAllocDrv(c, pickGeo(pdGeoPrefix, geo), true)
	case "local":
		return newLocalDrv(pickGeo(pdGeoPrefix, geo))
	case "dist-session":
		d, err := newDistDrv(c, pickGeo(pdGeoPrefix, geo), false, 0, newKV(), pdEpochPeriod)
		if d != nil {
			d.useMAC = cs.Knob("mac", 0) == 1
		}
		return d, err
	case "dist-lease":
		d, err := newDistDrv(c, pickGeo(pdGeoV4Addr, geo), true, grace, newKV(), pdEpochPeriod)
		if d != nil {
			d.useMAC = cs.Knob("mac", 0) == 1
		}
		return d, err
	case "dhcp":
		g := pickGeo(pdGeoV4Host, geo)
		rs, re := int(cs.Knob("res_start", 0)), int(cs.Knob("res_end", 0))
		if g.hosts() <= 4 {
			rs, re = 0, 0
		}
		return newDhcpDrv(g, gatewayFor(g, gwk), rs, re)
	case "dhcpv6-addr":
		return newV6AddrDrv(pickGeo(pdGeoV6Addr, geo))
	case "dhcpv6-pd":
		return newV6PDDrv(pickGeo(pdGeoV6PD, geo))
	case "pppoe":
		g := pickGeo(pdGeoV4Host, geo)
		return newPPPoEDrv(g, gatewayFor(g, gwk))
	case "peer":
		g := pickGeo(pdGeoV4Host, geo)
		return newPeerDrv(g, gatewayFor(g, gwk))
	case "nexus-hash":
		kv := newKV()
		// (store failures are clean: a failed call has no effect. Ambiguous outcomes - write applied,
		// error returned - are outside the fault model: no pool implementation here reads back)
		return newNexusDrv(c, pickGeo(pdGeoV4Host[1:], geo), kv, int(cs.Knob("nsub", 3)), uint64(cs.Knob("idsalt", 0)))
	}
	return nil, fmt.Errorf("unknown pool variant %q", cs.Variant)
}

// pdConfigRejected: the pool's constructor refused the drawn configuration
// (not a harness error). Only the lease grace period is drawn beyond what an
// implementation may support; anything else a constructor refuses is a bug in
// the geometry tables and still panics.
func pdConfigRejected(c *sim.Ctx, err error) bool {
	if err == nil {
		return false
	}
	if pdStaticCaps(c.Case.Variant).Lease && c.Case.Knob("grace", 1) > 2 && strings.Contains(err.Error(), "grace period") {
		c.S.Probe("config_rejected_grace")
		c.S.Logf("configuration rejected by the constructor: %v", err)
		return true
	}
	return false
}

// pdVariantLabel is the variant part of a fingerprint (no geometry, no ids).
// withGrace keeps the "-gN" suffix of the lease variants (C05: the grace decides
// which generation arithmetic is exercised); withEcho appends "+echo" to the
// store-backed variants when the store notifies the pool's own watch callback
// of local writes (C01: the callback is one more concurrent caller).
func pdVariantLabel(c *sim.Ctx, d poolDriver, withGrace, withEcho bool) string {
	l := d.Name()
	if !withGrace {
		if i := strings.LastIndex(l, "-g"); i > 0 && i == len(l)-3 {
			l = l[:i]
		}
	}
	if withEcho && (strings.HasPrefix(l, "dist-") || l == "nexus-hash") && c.Case.Knob("echo", 0) != 0 {
		l += "+echo"
	}
	return l
}
