package scn

import (
	"context"
	"errors"
	"fmt"
	"sort"
	"strings"
	"time"

	"github.com/codelaboratoryltd/bng/pkg/allocator"
	"github.com/codelaboratoryltd/bng/pkg/simrt"

	"verif/harness/sim"
)

// c12store is the simulated replicated store behind allocator.Store. It is
// linearizable (every call is atomic, no yields inside), returns Query results
// in a tape-chosen order, fails calls on demand, delivers watch notifications
// through one scheduler task per watcher (FIFO by default; delay, duplication
// and reordering are explicit faults) and crashes the calling node at a chosen
// store call.

var errC12Injected = errors.New("c12: injected store failure")
var errC12NotFound = errors.New("c12: key not found")

type c12event struct {
	seq     int
	key     string
	val     []byte
	deleted bool
	delay   time.Duration
	dup     bool
	isDup   bool
	from    int // node index of the writer
	// observed just before the callback ran (oracle classification only)
	before    string // the receiving node's answer for the subscriber
	holder    string // who held the announced prefix on the receiving node
	holderRec string // the store record of that holder at that moment
	nodeEpoch uint64 // the receiving node's epoch (lease mode)
}

type c12watcher struct {
	h      *c12handle
	prefix string
	cb     func(key string, value []byte, deleted bool)
	q      []*c12event
	hold   *c12event // held back: delivered after the next notification (reordering)
	busy   bool
	closed bool
}

type c12store struct {
	c       *sim.Ctx
	data    map[string][]byte
	version int // bumped by every effective mutation
	// prefixes that two records claimed at the same time at some point of the run
	conflicted map[string]bool
	watchers   []*c12watcher
	evseq      int
	quiet      bool // fault-free phase: no errors, crashes or watch faults
	noEcho     bool // do not notify the writer's own watcher
	errPm      int  // tape-chosen error rate per call (per mille)
	crashPm    int  // tape-chosen crash rate per call (per mille)
	watchPm    int  // tape-chosen watch fault rate per notification (per mille)
	crashes    int
	maxCrash   int
	deadline   bool // injected write failures coincide with the caller's deadline (its context is cancelled)
	perturbed  bool // a crash, a store error or a watch fault has fired in this run
	// oracle hooks
	onDeliver func(w *c12watcher, ev *c12event)
	preGet    func(w *c12watcher, ev *c12event)
	onTick    func(h *c12handle)
}

// c12handle is one node incarnation's connection to the store.
type c12handle struct {
	st    *c12store
	slot  *c12slot
	tok   *simrt.Node
	calls int
	// what happened during the operation currently running on this handle
	injected  []string // store operations that were failed by injection
	startDone bool
	// watch faults that have fired on notifications addressed to this incarnation
	wReorder, wDup, wDelay bool
	// a notification generated before this node's own later write to the same key
	// was delivered after that write (plain asynchrony, no injected fault)
	wLocalRace bool
	ownWrite   map[string]int // key -> last notification seq that preceded the node's own latest write
	delivered  map[string]int // notifications whose delivery has started, per subscriber
	applied    map[string]int // notifications whose callback has returned, per subscriber
	da         *allocator.DistributedAllocator
}

func newC12Store(c *sim.Ctx) *c12store {
	return &c12store{c: c, data: map[string][]byte{}, conflicted: map[string]bool{}}
}

// plan decides the fate of one store call: fail it, crash before/after it.
func (h *c12handle) plan(kind string) (fail, crashBefore, crashAfter bool) {
	st, sl := h.st, h.slot
	s := st.c.S
	s.Pause()
	s.DieIfDead()
	idx := h.calls
	h.calls++
	if st.quiet {
		return
	}
	if sl.crashIn > 0 {
		sl.crashIn--
		if sl.crashIn == 0 {
			if sl.crashBefore {
				crashBefore = true
			} else {
				crashAfter = true
			}
		}
	} else if st.crashPm > 0 && st.crashes < st.maxCrash && s.Choose(simrt.StCrash, 1000) < st.crashPm {
		if s.Choose(simrt.StCrash, 4) == 1 {
			crashBefore = true
		} else {
			crashAfter = true
		}
	}
	if crashBefore || crashAfter {
		st.crashes++
		st.perturbed = true
		s.Fault("crash.process")
		n := idx
		if n > 9 {
			n = 9
		}
		when := "after"
		if crashBefore {
			when = "before"
		}
		s.Probe(fmt.Sprintf("crash_%s_storecall_%d_%s", when, n, kind))
	}
	if crashBefore {
		return
	}
	if sl.errIn > 0 {
		sl.errIn--
		if sl.errIn == 0 {
			fail = true
		}
	} else if st.errPm > 0 && s.Choose(simrt.StDisk, 1000) < st.errPm {
		fail = true
	}
	if fail {
		st.perturbed = true
		s.Fault("store.err." + kind)
		h.injected = append(h.injected, kind)
	}
	return
}

func (h *c12handle) die() {
	h.st.c.S.Kill(h.tok)
	h.st.dropWatchers(h)
	h.st.c.S.DieIfDead()
}

// c12cancelKey carries the cancel function of the operation's context: in runs
// with the deadline knob, a store write fails *because* the caller's deadline
// fired while it was in flight, so the context is already done when the
// allocator handles the error.
type c12cancelKey struct{}

func c12deadline(h *c12handle, ctx context.Context) {
	if !h.st.deadline {
		return
	}
	if cancel, ok := ctx.Value(c12cancelKey{}).(context.CancelFunc); ok {
		cancel()
		h.st.c.S.Fault("caller.deadline-during-store-write")
	}
}

func (h *c12handle) Get(ctx context.Context, key string) ([]byte, error) {
	fail, cb, ca := h.plan("get")
	if cb {
		h.die()
	}
	if fail {
		return nil, fmt.Errorf("get %s: %w", key, errC12Injected)
	}
	v, ok := h.st.data[key]
	if ca {
		h.die()
	}
	if !ok {
		return nil, errC12NotFound
	}
	return append([]byte(nil), v...), nil
}

func (h *c12handle) Put(ctx context.Context, key string, value []byte) error {
	fail, cb, ca := h.plan("put")
	if cb {
		h.die()
	}
	if fail {
		c12deadline(h, ctx)
		return fmt.Errorf("put %s: %w", key, errC12Injected)
	}
	st := h.st
	st.data[key] = append([]byte(nil), value...)
	st.version++
	np := c12recPrefix(value)
	for k, v := range st.data {
		if k != key && c12recPrefix(v) == np {
			st.conflicted[np] = true
		}
	}
	st.c.S.Logf("store put n%d %s %s", h.slot.idx, key, np)
	h.ownWrite[key] = st.evseq
	st.notify(h, key, value, false)
	if ca {
		h.die()
	}
	return nil
}

func (h *c12handle) Delete(ctx context.Context, key string) error {
	fail, cb, ca := h.plan("delete")
	if cb {
		h.die()
	}
	if fail {
		c12deadline(h, ctx)
		return fmt.Errorf("delete %s: %w", key, errC12Injected)
	}
	st := h.st
	delete(st.data, key)
	st.version++
	st.c.S.Logf("store delete n%d %s", h.slot.idx, key)
	h.ownWrite[key] = st.evseq
	st.notify(h, key, nil, true)
	if ca {
		h.die()
	}
	return nil
}

func (h *c12handle) Query(ctx context.Context, prefix string) ([]allocator.KeyValue, error) {
	if h.startDone && h.st.onTick != nil {
		h.st.onTick(h)
	}
	fail, cb, ca := h.plan("query")
	if cb {
		h.die()
	}
	if fail {
		return nil, fmt.Errorf("query %s: %w", prefix, errC12Injected)
	}
	st := h.st
	keys := st.keys(prefix)
	// every permutation is reachable; an all-zero tape gives the canonical order
	perm := false
	for i := 0; i < len(keys)-1; i++ {
		j := i + st.c.S.Choose(simrt.StMap, len(keys)-i)
		if j != i {
			keys[i], keys[j] = keys[j], keys[i]
			perm = true
		}
	}
	if perm {
		st.c.S.Fault("store.queryorder")
	}
	h.slot.lastQueryPermuted = perm
	out := make([]allocator.KeyValue, 0, len(keys))
	for _, k := range keys {
		out = append(out, allocator.KeyValue{Key: k, Value: append([]byte(nil), st.data[k]...)})
	}
	if ca {
		h.die()
	}
	return out, nil
}

func (h *c12handle) Watch(prefix string, cb func(key string, value []byte, deleted bool)) {
	st := h.st
	w := &c12watcher{h: h, prefix: prefix, cb: cb}
	st.watchers = append(st.watchers, w)
	st.c.S.Spawn(fmt.Sprintf("pump-n%d", h.slot.idx), h.tok, func() { st.pump(w) })
}

func (st *c12store) keys(prefix string) []string {
	var keys []string
	for k := range st.data {
		if strings.HasPrefix(k, prefix) {
			keys = append(keys, k)
		}
	}
	sort.Strings(keys)
	return keys
}

func (st *c12store) dropWatchers(h *c12handle) {
	k := 0
	for _, w := range st.watchers {
		if w.h == h {
			w.closed = true
			w.q, w.hold = nil, nil
			continue
		}
		st.watchers[k] = w
		k++
	}
	st.watchers = st.watchers[:k]
}

// notify queues one notification per live watcher (the writer's own watcher
// included, as nexus.MemoryStore does, unless noEcho).
func (st *c12store) notify(from *c12handle, key string, value []byte, deleted bool) {
	s := st.c.S
	for _, w := range st.watchers {
		if w.closed || w.h.tok.Dead() || !strings.HasPrefix(key, w.prefix) {
			continue
		}
		if st.noEcho && w.h == from {
			continue
		}
		st.evseq++
		ev := &c12event{seq: st.evseq, key: key, val: append([]byte(nil), value...), deleted: deleted, from: from.slot.idx}
		fault := 0
		if !st.quiet && st.watchPm > 0 {
			if v := s.Choose(simrt.StNet, 1000); v < st.watchPm {
				fault = 1 + v%3
			}
		}
		switch fault {
		case 1:
			ev.delay = time.Duration(1+s.Choose(simrt.StNet, 50)) * time.Millisecond
			st.perturbed = true
			s.Fault("store.watch.delay")
			w.h.wDelay = true
			w.q = append(w.q, ev)
		case 2:
			ev.dup = true
			st.perturbed = true
			s.Fault("store.watch.dup")
			w.h.wDup = true
			w.q = append(w.q, ev)
		case 3:
			// overtaken by the next notification for this watcher
			st.perturbed = true
			if w.hold == nil {
				w.hold = ev
				continue
			}
			w.q = append(w.q, ev)
		default:
			w.q = append(w.q, ev)
		}
		// a held-back notification goes out right behind the one that overtook it
		if w.hold != nil && w.hold != ev && len(w.q) > 0 && w.q[len(w.q)-1].seq > w.hold.seq {
			w.q = append(w.q, w.hold)
			w.hold = nil
			s.Fault("store.watch.reorder")
			w.h.wReorder = true
		}
	}
}

// watchContext names the strongest delivery fault this incarnation has seen so
// far ("" = every notification addressed to it was delivered FIFO, exactly once,
// without injected delay).
func (h *c12handle) watchContext() string {
	switch {
	case h.wReorder:
		return "/after-reorder"
	case h.wDup:
		return "/after-dup"
	case h.wLocalRace:
		return "/after-local-write-race"
	case h.wDelay:
		return "/after-delay"
	}
	return ""
}

// pump is the delivery task of one watcher.
func (st *c12store) pump(w *c12watcher) {
	s := st.c.S
	for {
		s.WaitUntil(func() bool { return len(w.q) > 0 || w.closed })
		if w.closed {
			return
		}
		ev := w.q[0]
		w.q = w.q[1:]
		w.busy = true
		if ev.delay > 0 {
			s.Sleep(ev.delay)
		}
		if w.h.delivered != nil {
			w.h.delivered[strings.TrimPrefix(ev.key, w.prefix)]++ // counted when delivery starts
		}
		if st.preGet != nil {
			st.preGet(w, ev)
		}
		s.Logf("deliver n%d seq=%d %s deleted=%v %s", w.h.slot.idx, ev.seq, ev.key, ev.deleted, c12recPrefix(ev.val))
		w.cb(ev.key, ev.val, ev.deleted)
		if w.h.applied != nil {
			w.h.applied[strings.TrimPrefix(ev.key, w.prefix)]++
		}
		if last, ok := w.h.ownWrite[ev.key]; ok && ev.seq <= last {
			// applied after this node's own later write to the same key
			w.h.wLocalRace = true
			s.Probe("watch_notification_older_than_own_write")
		}
		if st.onDeliver != nil {
			st.onDeliver(w, ev)
		}
		if ev.dup && !w.closed {
			d := *ev
			d.dup, d.isDup, d.delay = false, true, 0
			w.q = append(w.q, &d)
		}
		w.busy = false
	}
}

// settled: no notification is queued or being delivered to a live watcher.
func (st *c12store) settled() bool {
	for _, w := range st.watchers {
		if w.closed || w.h.tok.Dead() {
			continue
		}
		if len(w.q) > 0 || w.busy || w.hold != nil {
			return false
		}
	}
	return true
}

// releaseHolds delivers held-back notifications that nothing overtook.
func (st *c12store) releaseHolds() {
	for _, w := range st.watchers {
		if w.hold != nil {
			w.q = append(w.q, w.hold)
			w.hold = nil
		}
	}
}

func (st *c12store) closeAll() {
	for _, w := range st.watchers {
		w.closed = true
	}
}
