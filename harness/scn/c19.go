package scn

import (
	"encoding/binary"
	"fmt"
	"math/big"
	"net"

	cebpf "github.com/cilium/ebpf"
	"github.com/codelaboratoryltd/bng/pkg/qos"
	bngradius "github.com/codelaboratoryltd/bng/pkg/radius"
	"github.com/codelaboratoryltd/bng/pkg/simrt"
	"go.uber.org/zap"

	"verif/harness/native"
	"verif/harness/sim"
)

// C19 — the rate limiter admits no more than the contract and never starves a
// subscriber.
//
// The repository's bpf/qos_ratelimit.c, compiled natively, runs as the "kernel"
// on a simulated kernel clock; its token bucket is the one the real
// qos.Manager wrote into a real kernel map. The oracle is an exact rational
// reference: upper admission bound over all windows, lower bound for a
// backlogged subscriber, rate 0 = unlimited, and the bucket the program finds
// is the policy that was set.

func c19Gen(r *sim.Rand, tier string) *sim.Case {
	cs := &sim.Case{Knobs: map[string]int64{}}
	cs.Variant = sim.Pick(r, "random", "random", "random", "backlogged", "backlogged", "backlogged", "unlimited", "ctl", "dhcp", "mapfull")
	if cs.Variant == "mapfull" {
		// control plane only: a policy is refused because a kernel map is full, a slot is freed, the
		// control plane sets the same policy again
		cs.Knobs["mode"] = int64(r.N(2)) // 0: both maps full (through other subscribers), 1: only the ingress map (foreign keys)
		cs.Knobs["krate"] = int64(r.Range(1, 50))
		cs.Knobs["retries"] = int64(r.Range(1, 3))
		return cs
	}
	if cs.Variant == "ctl" {
		// control plane only: an operator replaces a named policy while sessions are being put on it
		cs.Knobs["nver"] = int64(r.Range(2, 5))
		cs.Knobs["nsub"] = int64(r.Range(1, 3))
		cs.Knobs["skipmax"] = int64(sim.Pick(r, 1, 2, 4))
		return cs
	}
	// rate: log-uniform 1 kbit/s .. 100 Gbit/s plus boundary values
	var rate int64
	switch r.N(6) {
	case 0:
		rate = sim.Pick(r, int64(1000), 8000, 7999, 8001, 64000, 1_000_000, 100_000_000_000)
	default:
		exp := r.Range(3, 11)
		rate = 1
		for i := 0; i < exp; i++ {
			rate *= 10
		}
		rate = rate * int64(r.Range(1, 9)) / int64(r.Range(1, 3))
		if rate > 100_000_000_000 {
			rate = 100_000_000_000
		}
	}
	if cs.Variant == "unlimited" {
		rate = 0
	}
	cs.Knobs["rate"] = rate
	maxpkt := int64(sim.Pick(r, 64, 576, 1500, 9000, 65535))
	cs.Knobs["maxpkt"] = maxpkt
	burst := int64(sim.Pick(r, 1, 1500, 3000, 65536, 1<<20, 1<<32-1))
	if cs.Variant == "backlogged" {
		burst = sim.Pick(r, 2*maxpkt, 3*maxpkt, 10*maxpkt, 1<<20)
		if burst < 2*maxpkt {
			burst = 2 * maxpkt
		}
	}
	cs.Knobs["burst"] = burst
	cs.Knobs["ingress"] = int64(r.N(2))
	if cs.Variant == "dhcp" {
		// the policy reaches the kernel through the DHCP server (session set-up installs it);
		// a moderate contract, so that the generated traffic keeps the bucket drained
		rate = int64(sim.Pick(r, 1_000_000, 8_000_000, 100_000_000))
		burst = int64(sim.Pick(r, 3000, 65536, 1<<20))
		cs.Knobs["rate"], cs.Knobs["burst"], cs.Knobs["ingress"] = rate, burst, 0
		cs.Knobs["smallpool"] = int64(r.N(2))
		cs.Knobs["skipmax"] = int64(sim.Pick(r, 1, 2, 4))
		// a task may be descheduled for a while at any scheduling point (what the server leaves
		// to background goroutines then lands late)
		cs.Knobs["stall_pm"] = int64(sim.Pick(r, 0, 50, 150))
	}
	if cs.Variant == "backlogged" && r.P(35) {
		cs.Knobs["subtoken"] = 1
	}
	// boot-relative kernel clock: anywhere in 64-bit nanoseconds
	cs.Knobs["boot_hi"] = int64(sim.Pick(r, uint64(0), 0, 1, 1<<20, 1<<31-1, 1<<32-2) % (1 << 32))
	cs.Knobs["boot_lo"] = int64(r.N(1 << 30))
	n := r.Range(50, 300)
	if tier == "thorough" {
		n = r.Range(50, 2000)
	}
	if cs.Knobs["subtoken"] == 1 {
		// long enough for rate x window to exceed burst + one packet at < 1 byte per gap
		maxpkt = int64(sim.Pick(r, 64, 64, 576))
		cs.Knobs["maxpkt"] = maxpkt
		cs.Knobs["burst"] = 2 * maxpkt
		n = r.Range(12*int(maxpkt), 20*int(maxpkt))
	}
	if cs.Variant == "random" && cs.Knobs["ingress"] == 0 && r.P(25) {
		// failing system call in the control plane: the same policy is re-applied (a CoA refresh)
		// at this packet index while the kernel refuses the write to the other direction's map
		cs.Knobs["refail_at"] = int64(r.Range(1, n/2))
		cs.Knobs["refail_change"] = int64(r.N(2)) // 1: a half-failed change to a faster policy precedes the re-apply
	}
	if cs.Variant == "dhcp" {
		// the client renews (or retransmits its REQUEST) at these packet indexes
		cs.Knobs["renew_a"], cs.Knobs["renew_b"] = int64(r.Range(1, n-1)), int64(r.Range(1, n-1))
	}
	for i := 0; i < n; i++ {
		size := int64(1 + r.N(int(maxpkt)))
		if r.P(30) {
			size = maxpkt
		}
		var gap int64
		if cs.Variant == "backlogged" && rate > 0 {
			// a waiting packet is offered again before more than one maximum packet's
			// worth of tokens has accrued
			lim := maxpkt * 8_000_000_000 / rate
			if lim < 1 {
				lim = 1
			}
			gap = int64(r.N(int(minI64(lim, 1<<40)))) + 1
			if r.P(40) {
				gap = 1 + gap/int64(sim.Pick(r, 10, 100, 1000))
			}
			if cs.Knobs["subtoken"] == 1 {
				// offered again faster than one token (byte) accrues
				bt := 8_000_000_000 / rate
				if bt < 1 {
					bt = 1
				}
				gap = int64(r.N(int(minI64(bt, 1<<40))))
			}
		} else {
			gk := r.N(8)
			if cs.Variant == "dhcp" && (gk == 5 || gk == 6) {
				gk = 7 // no idle hours: the subscriber keeps sending at about its rate
			}
			switch gk {
			case 0:
				gap = 0
			case 1:
				gap = 1
			case 2:
				gap = int64(r.N(1000))
			case 3:
				gap = int64(r.N(1_000_000))
			case 4:
				gap = int64(r.N(1_000_000_000))
			case 5:
				gap = int64(r.N(100)) * 1_000_000_000
			case 6:
				gap = int64(sim.Pick(r, 3600, 86400, 5*86400)) * 1_000_000_000
			default:
				if rate > 0 {
					gap = size * 8_000_000_000 / rate
				}
			}
		}
		cs.Ops = append(cs.Ops, sim.Op{K: "pkt", A: []int64{gap, size}})
	}
	return cs
}

func minI64(a, b int64) int64 {
	if a < b {
		return a
	}
	return b
}

func c19Run(c *sim.Ctx) {
	cs := c.Case
	rate := uint64(cs.Knob("rate", 0))
	burst := uint32(cs.Knob("burst", 65536))
	if burst == 0 {
		burst = 1
	}
	ingress := cs.Knob("ingress", 0) == 1
	mk := func(name string) *cebpf.Map {
		m, err := cebpf.NewMap(&cebpf.MapSpec{Name: name, Type: cebpf.Hash, KeySize: 4, ValueSize: 32, MaxEntries: 16})
		if err != nil {
			return nil
		}
		return m
	}
	egress, ingressM := mk("vf_qe"), mk("vf_qi")
	stats, _ := cebpf.NewMap(&cebpf.MapSpec{Name: "vf_qs", Type: cebpf.Array, KeySize: 4, ValueSize: 32, MaxEntries: 1})
	if egress == nil || ingressM == nil || stats == nil {
		c.S.Probe("kernel_maps_unavailable")
		return
	}
	defer egress.Close()
	defer ingressM.Close()
	defer stats.Close()
	native.ResetMaps()
	if err := native.QoSMaps(egress.FD(), ingressM.FD(), stats.FD()); err != nil {
		panic(err)
	}
	pm := bngradius.NewPolicyManager()
	mgr, err := qos.VerifNewManagerWithMaps(qos.ManagerConfig{Interface: "sim0"}, pm, zap.NewNop(), egress, ingressM, stats)
	if err != nil {
		panic(err)
	}
	if cs.Variant == "ctl" {
		c19Ctl(c, pm, mgr, egress, ingressM)
		return
	}
	if cs.Variant == "mapfull" {
		c19MapFull(c, mgr, egress, ingressM)
		return
	}
	sub := net.IPv4(10, 7, 0, 42).To4()
	var dh *c19dhcp
	if cs.Variant == "dhcp" {
		dh = newC19dhcp(c, pm, mgr, egress, rate, burst)
		if sub = dh.acquire(0); sub == nil {
			return
		}
	} else if err := mgr.SetSubscriberQoS(&qos.SubscriberQoS{IP: sub, DownloadBPS: rate, UploadBPS: rate, BurstBytes: burst, Priority: 3, PolicyName: "p"}); err != nil {
		c.Fail("policy", "policy/set-failed", "SetSubscriberQoS failed: %v", err)
		return
	}
	// what the control plane set for this direction (the ingress burst is derived by the manager)
	effBurst := uint64(burst)
	if ingress {
		key := qos.VerifIPKey(sub)
		var tb qos.TokenBucket
		if err := ingressM.Lookup(&key, &tb); err == nil {
			effBurst = uint64(tb.BurstBytes)
		}
	}
	// frame: Ethernet + IPv4 header; egress matches on the destination, ingress on the source
	fr := make([]byte, 64)
	binary.BigEndian.PutUint16(fr[12:], 0x0800)
	fr[14] = 0x45
	other := net.IPv4(198, 51, 100, 7).To4()
	if ingress {
		copy(fr[26:30], sub)
		copy(fr[30:34], other)
	} else {
		copy(fr[26:30], other)
		copy(fr[30:34], sub)
	}
	now := uint64(cs.Knob("boot_hi", 0))<<32 | uint64(cs.Knob("boot_lo", 0))
	// exact arithmetic in units of 1/(8e9) byte: tokens*8e9 vs rate*ns
	scale := new(big.Int).SetUint64(8_000_000_000)
	rateB := new(big.Int).SetUint64(rate)
	burstS := new(big.Int).Mul(new(big.Int).SetUint64(effBurst), scale)
	admitted := new(big.Int) // cumulative admitted bytes (scaled)
	var minG *big.Int        // min over i of A(i-1) - r*t_i
	elapsed := new(big.Int)  // r * (t - t0) accumulated exactly
	var winStartAdm, winStartEl *big.Int
	maxSeen := uint64(0)
	hits, misses := 0, 0
	pendingSize := int64(0)
	backlogged := cs.Variant == "backlogged"
	for i, op := range cs.Ops {
		c.OpIdx = i
		if c.Failed() {
			break
		}
		if ra := cs.Knob("refail_at", 0); ra > 0 && int64(i) == ra && !ingress && !backlogged {
			// the ingress map stops accepting writes (stand-in for ENOMEM / a frozen or closed map);
			// the egress direction, which is the one measured, must stay under contract
			ingressM.Close()
			if cs.Knob("refail_change", 0) == 1 {
				// a policy change that half fails (this direction written, the other refused) ...
				fast := &qos.SubscriberQoS{IP: sub, DownloadBPS: rate*16 + 8_000_000, UploadBPS: rate*16 + 8_000_000, BurstBytes: burst, Priority: 3, PolicyName: "p2"}
				if burst < 1<<30 {
					fast.BurstBytes = burst * 4
				}
				if err := mgr.SetSubscriberQoS(fast); err != nil {
					c.S.Fault("kmap.update-refused")
				}
				// ... after which the control plane puts the subscriber back on its contract
			}
			err := mgr.SetSubscriberQoS(&qos.SubscriberQoS{IP: sub, DownloadBPS: rate, UploadBPS: rate, BurstBytes: burst, Priority: 3, PolicyName: "p"})
			if err != nil {
				c.S.Fault("kmap.update-refused")
			} else {
				c.S.Probe("reapply_succeeded_despite_closed_map")
			}
			// the re-applied bucket may start full again: the reference window restarts here
			admitted, elapsed, minG, winStartAdm, winStartEl = new(big.Int), new(big.Int), nil, nil, nil
			hits, misses = 0, 0
		}
		if dh != nil && (int64(i) == cs.Knob("renew_a", -1) || int64(i) == cs.Knob("renew_b", -1)) {
			// the session is established and unchanged: its contract goes on, no new burst is due
			dh.renew(0)
		}
		gap, size := uint64(op.Arg(0)), op.Arg(1)
		if size < 1 {
			size = 1
		}
		if size > 65535 {
			size = 65535
		}
		if backlogged && pendingSize > 0 {
			size = pendingSize // the packet that was refused is still waiting
		} else if backlogged && i > 0 {
			// the queue is never empty: the next packet is offered the moment the previous one was
			// admitted (waiting here would let the bucket overflow, which is not starvation)
			gap = 0
		}
		switch {
		case gap == 0:
			c.S.Probe("arrival_same_instant")
		case gap >= 3600_000_000_000:
			c.S.Probe("clock_idle_gap_over_1h")
		}
		if now+gap < now {
			c.S.Probe("clock_ktime_wraps_64bit")
		}
		now += gap
		elapsed.Add(elapsed, new(big.Int).Mul(rateB, new(big.Int).SetUint64(gap)))
		native.SetKtime(now)
		before := native.Lookups()
		verdict, _, err := native.RunQoS(ingress, fr, uint32(size))
		if err != nil {
			panic(err)
		}
		_ = before
		c.OpsDone++
		if uint64(size) > maxSeen {
			maxSeen = uint64(size)
		}
		// g(i) uses the admitted total before this arrival
		g := new(big.Int).Sub(admitted, elapsed)
		if minG == nil || g.Cmp(minG) < 0 {
			minG = g
		}
		if winStartAdm == nil {
			winStartAdm, winStartEl = new(big.Int).Set(admitted), new(big.Int).Set(elapsed)
		}
		if verdict == native.TCActOK {
			admitted.Add(admitted, new(big.Int).Mul(big.NewInt(size), scale))
			pendingSize = 0
			hits++
		} else {
			pendingSize = size
			misses++
			if rate == 0 {
				c.Fail("unlimited", "rate0-dropped", "rate 0 means unlimited but packet %d (%d bytes) was dropped", i, size)
			}
		}
		if rate == 0 {
			continue
		}
		// upper bound over every window ending here: A(j) - r t_j - min_i g(i) <= burst
		f := new(big.Int).Sub(admitted, elapsed)
		over := new(big.Int).Sub(f, minG)
		if over.Cmp(burstS) > 0 {
			ex := new(big.Int).Div(new(big.Int).Sub(over, burstS), scale)
			kind := "bucket-found"
			if misses == 0 && i > 3 {
				kind = "never-limited"
			}
			c.Fail("upper-bound", "upper/"+dirName(ingress)+"/"+kind,
				"after packet %d (%d bytes, gap %d ns): some window admitted %s bytes more than burst %d + rate %d bit/s x window (admitted %d of %d packets)",
				i, size, gap, ex.String(), effBurst, rate, hits, hits+misses)
		}
		// lower bound for the backlogged subscriber over the window since the first arrival
		if backlogged && effBurst >= 2*uint64(cs.Knob("maxpkt", 1500)) {
			got := new(big.Int).Sub(admitted, winStartAdm)
			owed := new(big.Int).Sub(elapsed, winStartEl)
			owed.Sub(owed, burstS)
			owed.Sub(owed, new(big.Int).Mul(new(big.Int).SetUint64(uint64(cs.Knob("maxpkt", 1500))), scale))
			if got.Cmp(owed) < 0 {
				short := new(big.Int).Div(new(big.Int).Sub(owed, got), scale)
				c.Fail("lower-bound", "lower/"+dirName(ingress)+"/starved",
					"backlogged subscriber: after packet %d the window since the first arrival admitted %s bytes fewer than rate %d bit/s x window - burst %d - max packet (admitted %d of %d attempts)",
					i, short.String(), rate, effBurst, hits, hits+misses)
			}
		}
	}
	if dh != nil && !c.Failed() {
		dh.handover()
	}
	c.State(uint64(hits)<<16 | uint64(misses))
	c.NonTrivial = hits > 0 && misses > 0 || rate == 0
	if hits > 0 && misses > 0 {
		c.S.Probe("both_verdicts_" + cs.Variant)
	}
	if rate == 0 {
		c.S.Probe("rate_zero_unlimited")
	}
}

// c19Ctl: "the policy set through the control plane is the one enforced" while the control plane
// itself is concurrent. An operator replaces the named policy (version k -> k+1) while session
// tasks put subscribers on that name. What the kernel maps then hold for a subscriber must be one
// whole version - the one before or the one after the replacement - never a mixture of the two.
func c19Ctl(c *sim.Ctx, pm *bngradius.PolicyManager, mgr *qos.Manager, egress, ingressM *cebpf.Map) {
	cs := c.Case
	nver, nsub := int(cs.Knob("nver", 2)), int(cs.Knob("nsub", 1))
	if nver < 2 || nver > 8 {
		nver = 2
	}
	if nsub < 1 || nsub > 4 {
		nsub = 1
	}
	type enforced struct {
		eRate, iRate   uint64
		eBurst, iBurst uint32
		ePrio, iPrio   uint8
	}
	read := func(ip net.IP) (enforced, bool) {
		key := qos.VerifIPKey(ip)
		var e, i qos.TokenBucket
		if err := egress.Lookup(&key, &e); err != nil {
			return enforced{}, false
		}
		if err := ingressM.Lookup(&key, &i); err != nil {
			return enforced{}, false
		}
		return enforced{e.RateBPS, i.RateBPS, e.BurstBytes, i.BurstBytes, e.Priority, i.Priority}, true
	}
	version := func(name string, k int) *bngradius.QoSPolicy {
		return &bngradius.QoSPolicy{Name: name, DownloadBPS: uint64(k+1) * 10_000_000, UploadBPS: uint64(k+1) * 3_000_000,
			BurstSize: uint32(k+1) * 100_000, Priority: uint8(k % 8)}
	}
	// what one whole version looks like in the maps: applied alone, sequentially, to a reference subscriber
	ref := net.IPv4(10, 7, 9, 9).To4()
	want := make([]enforced, nver)
	for k := 0; k < nver; k++ {
		if err := pm.AddPolicy(version("ref", k)); err != nil {
			c.Fail("policy", "policy/ctl/add-failed", "AddPolicy failed: %v", err)
			return
		}
		if err := mgr.SetSubscriberPolicy(ref, "ref"); err != nil {
			c.Fail("policy", "policy/ctl/set-failed", "SetSubscriberPolicy failed: %v", err)
			return
		}
		w, ok := read(ref)
		if !ok {
			c.Fail("policy", "policy/ctl/not-installed", "SetSubscriberPolicy succeeded but the kernel maps hold no bucket")
			return
		}
		want[k] = w
	}
	if err := pm.AddPolicy(version("gold", 0)); err != nil {
		c.Fail("policy", "policy/ctl/add-failed", "AddPolicy failed: %v", err)
		return
	}
	subs := make([]net.IP, nsub)
	for i := range subs {
		subs[i] = net.IPv4(10, 7, 1, byte(10+i)).To4()
	}
	mixed := false
	for k := 0; k+1 < nver && !c.Failed(); k++ {
		c.OpIdx = k
		var tasks []*simrt.Task
		tasks = append(tasks, c.S.Spawn("operator", nil, func() {
			if err := pm.AddPolicy(version("gold", k+1)); err != nil {
				c.Fail("policy", "policy/ctl/add-failed", "AddPolicy failed: %v", err)
			}
		}))
		for i := range subs {
			ip := subs[i]
			tasks = append(tasks, c.S.Spawn(fmt.Sprintf("session%d", i), nil, func() {
				if err := mgr.SetSubscriberPolicy(ip, "gold"); err != nil {
					c.Fail("policy", "policy/ctl/set-failed", "SetSubscriberPolicy failed: %v", err)
				}
			}))
		}
		c.S.Join(tasks...)
		c.OpsDone++
		seen := map[int]bool{}
		for i, ip := range subs {
			got, ok := read(ip)
			if !ok {
				c.Fail("policy", "policy/ctl/not-installed", "subscriber %d: SetSubscriberPolicy returned but the kernel maps hold no bucket", i)
				continue
			}
			switch got {
			case want[k]:
				seen[k] = true
			case want[k+1]:
				seen[k+1] = true
			default:
				kind := "mixture-of-two-versions"
				for j := range want {
					if got == want[j] {
						kind = "other-version"
					}
				}
				c.Fail("policy", "policy/ctl/"+kind, "subscriber %d was put on policy \"gold\" while it was replaced (version %d -> %d): enforced %+v is neither version (%+v / %+v)", i, k, k+1, got, want[k], want[k+1])
			}
		}
		if len(seen) == 2 {
			mixed = true
		}
		c.State(uint64(k)<<8 | uint64(len(seen)))
	}
	if mixed {
		c.S.Probe("ctl_sessions_saw_both_versions")
	}
	c.S.Fault("ctl.policy-replaced-during-apply")
	c.NonTrivial = true
}

func dirName(ingress bool) string {
	if ingress {
		return "ingress"
	}
	return "egress"
}

func init() {
	sim.Register(&sim.Scenario{
		ID:  "C19",
		Gen: c19Gen,
		Run: c19Run,
		Real: []string{"bpf/qos_ratelimit.c (qos_egress_prog, qos_ingress_prog, token_bucket_check) compiled natively with clang against shim helper headers",
			"qos.Manager.SetSubscriberQoS writing the token bucket into a real kernel hash map (cilium/ebpf marshalling)", "the kernel's map implementation (bpf(2) lookup/update)",
			"variant ctl: radius.PolicyManager.AddPolicy and qos.Manager.SetSubscriberPolicy as concurrent tasks under the cooperative scheduler, with the field reads that fill a composite literal split by yields (instrumentation level 3)",
			"variant dhcp: dhcp.Server (DISCOVER/REQUEST/renewal/RELEASE handlers, a /29 or /30 pool) installing and removing the policy through qos.Manager into the same kernel maps"},
		Stub:         []string{"TC attach and __sk_buff (a 64-byte linear header below 4 GiB, skb->len set by the harness)", "bpf_ktime_get_ns (simulated kernel clock)", "in-place map value mutation (emulated by lookup + write-back after the program returns)"},
		Rule:         "cases: one subscriber, rate 1 kbit/s-100 Gbit/s, burst 1-2^32-1, 50-2000 arrivals (sizes 1-65535, gaps 0 ns-days, kernel clock anywhere in 64 bits); variants random / always-backlogged / unlimited; in a quarter of the random egress runs the same policy is re-applied mid-run while the other direction's map refuses the write (the reference window restarts there); one case in eight is control-plane only (variant ctl): a named policy is replaced 1-4 times while 1-3 sessions are put on it, and what the kernel maps hold for each must be one whole version, the one before or after the replacement; one case in nine goes through the DHCP server (variant dhcp): set-up installs the policy, the client renews twice during the traffic (no new burst is due), then releases and a second client is set up at once and must be found policed, with goroutine-start stalls injected; non-trivial = >=3 packets and both verdicts (admit and drop) occurred, or rate 0; distinct = distinct case hash",
		QuickRuns:    5000,
		ThoroughRuns: 400000,
		Assumptions: []string{"one CPU runs the program on a bucket at a time (no concurrent in-kernel updates)", "native code generation instead of the BPF back end",
			"backlogged = the next packet is offered the instant the previous one was admitted, a refused packet is offered again within the time one maximum packet's worth of tokens accrues, and burst >= 2 maximum packets"},
	})
}

// c19MapFull: "the policy set through the control plane is the one enforced" across a transient
// refusal. The kernel maps (16 entries) are full when the subscriber's policy is set, so the call
// fails; a slot is freed and the control plane sets the same policy again. Whenever that call
// reports success, both directions must hold exactly the buckets the same policy produced for a
// reference subscriber (no bucket = unlimited traffic, an old bucket = another contract).
func c19MapFull(c *sim.Ctx, mgr *qos.Manager, egress, ingressM *cebpf.Map) {
	cs := c.Case
	k := uint64(cs.Knob("krate", 1))
	if k < 1 || k > 1000 {
		k = 1
	}
	pol := func(ip net.IP) *qos.SubscriberQoS {
		return &qos.SubscriberQoS{IP: ip, DownloadBPS: k * 1_000_000, UploadBPS: k * 300_000, BurstBytes: uint32(k) * 20_000, Priority: uint8(k % 8), PolicyName: "p"}
	}
	type bucket struct {
		rate  uint64
		burst uint32
		prio  uint8
	}
	read := func(m *cebpf.Map, ip net.IP) (bucket, bool) {
		key := qos.VerifIPKey(ip)
		var tb qos.TokenBucket
		if err := m.Lookup(&key, &tb); err != nil {
			return bucket{}, false
		}
		return bucket{tb.RateBPS, tb.BurstBytes, tb.Priority}, true
	}
	ref := net.IPv4(10, 7, 9, 9).To4()
	if err := mgr.SetSubscriberQoS(pol(ref)); err != nil {
		c.S.Probe("mapfull_reference_refused")
		return
	}
	refE, okE := read(egress, ref)
	refI, okI := read(ingressM, ref)
	if !okE || !okI {
		c.Fail("policy", "mapfull/reference-not-installed", "SetSubscriberQoS succeeded for the reference subscriber but a direction holds no bucket (egress %v ingress %v)", okE, okI)
		return
	}
	mode := cs.Knob("mode", 0)
	var fillers []net.IP
	for i := 0; i < 15; i++ {
		ip := net.IPv4(10, 8, 0, byte(i+1)).To4()
		if mode == 0 {
			if err := mgr.SetSubscriberQoS(pol(ip)); err != nil {
				c.S.Probe("mapfull_filler_refused")
				return
			}
		} else {
			key := qos.VerifIPKey(ip)
			if err := ingressM.Put(&key, &qos.TokenBucket{RateBPS: 1}); err != nil {
				c.S.Probe("mapfull_filler_refused")
				return
			}
		}
		fillers = append(fillers, ip)
	}
	sub := net.IPv4(10, 7, 0, 42).To4()
	n := int(cs.Knob("retries", 1))
	refused := 0
	for i := 0; i < n; i++ {
		if err := mgr.SetSubscriberQoS(pol(sub)); err != nil {
			refused++
			c.S.Fault("kmap.full")
		}
		c.OpsDone++
	}
	if refused == 0 {
		c.S.Probe("mapfull_set_accepted_on_full_map")
	}
	// a slot is freed
	if mode == 0 {
		if err := mgr.RemoveSubscriberQoS(fillers[0]); err != nil {
			c.S.Probe("mapfull_remove_failed")
			return
		}
	} else {
		key := qos.VerifIPKey(fillers[0])
		_ = ingressM.Delete(&key)
	}
	c.OpsDone++
	err := mgr.SetSubscriberQoS(pol(sub))
	c.OpsDone++
	if err != nil {
		c.S.Probe("mapfull_retry_refused")
		return
	}
	gotE, okE := read(egress, sub)
	gotI, okI := read(ingressM, sub)
	switch {
	case !okE || !okI:
		c.Fail("policy", "mapfull/accepted-policy-not-installed", "SetSubscriberQoS(%d Mbit/s) reported success after %d refusal(s) on a full map, but the kernel maps hold no bucket for the subscriber (egress present %v, ingress present %v): its traffic is not limited", k, refused, okE, okI)
	case gotE != refE || gotI != refI:
		c.Fail("policy", "mapfull/accepted-policy-differs", "SetSubscriberQoS(%d Mbit/s) reported success after %d refusal(s), the maps hold egress %+v ingress %+v; the same policy on the reference subscriber gave egress %+v ingress %+v", k, refused, gotE, gotI, refE, refI)
	}
}
