package scn

import (
	"fmt"

	"github.com/anishathalye/porcupine"
	"github.com/codelaboratoryltd/bng/pkg/qinq"

	"verif/harness/sim"
)

// qinq.Mapper: (outer, inner) pair <-> subscriber id.

const c20qPairs = 8 // 0..5 inside the ranges, 6: outer tag outside, 7: inner tag outside

type c20qstate struct {
	Fwd [c20qPairs]int8 // pair -> subscriber+1 (0 none)
	Rev [c20maxEnt]int8 // subscriber -> pair+1 (0 none, -1 a pair outside the universe)
}

type c20qin struct {
	Kind string
	P, S int
}

type c20qout struct {
	Err bool
	V   int8 // lookup result: index+1, 0 none
}

type c20qinq struct {
	c       *sim.Ctx
	m       *qinq.Mapper
	ns, ncl int
	pairs   [c20qPairs]qinq.VLANPair
	state   c20qstate
	ever    [c20qPairs]bool
	hist    c20hist
	conc    bool
}

func c20sub(i int) string { return fmt.Sprintf("sub%d", i) }

func newC20qinq(c *sim.Ctx, nent, ncl int) *c20qinq {
	w := &c20qinq{c: c, ns: nent, ncl: ncl}
	cfg := qinq.Config{Enabled: true, STagRanges: []qinq.VLANRange{{Start: 300, End: 301, Name: "poi"}},
		CTagRange: qinq.VLANRange{Start: 40, End: 42}, LookupPriority: "vlan_first"}
	w.m = qinq.NewMapper(cfg)
	for i := 0; i < 6; i++ {
		w.pairs[i] = qinq.VLANPair{STag: uint16(300 + i/3), CTag: uint16(40 + i%3)}
	}
	w.pairs[6] = qinq.VLANPair{STag: 299, CTag: 40}
	w.pairs[7] = qinq.VLANPair{STag: 300, CTag: 43}
	w.state = w.snapshot()
	return w
}

func (w *c20qinq) barrier(string) bool { return false }

func (w *c20qinq) decode(op sim.Op) c20qin {
	in := c20qin{Kind: op.K}
	switch op.K {
	case "register":
		in.P, in.S = c20idx(op.Arg(1), c20qPairs), c20idx(op.Arg(2), w.ns)
	case "unregister", "getsub":
		in.P = c20idx(op.Arg(1), c20qPairs)
	default:
		in.S = c20idx(op.Arg(1), w.ns)
	}
	return in
}

func (w *c20qinq) subIdx(id string) int8 {
	for i := 0; i < c20maxEnt; i++ {
		if c20sub(i) == id {
			return int8(i + 1)
		}
	}
	return -1
}

func (w *c20qinq) pairIdx(p qinq.VLANPair) int8 {
	for i, q := range w.pairs {
		if q == p {
			return int8(i + 1)
		}
	}
	return -1
}

func (w *c20qinq) call(client int, in c20qin) c20qout {
	var out c20qout
	st := w.hist.call()
	switch in.Kind {
	case "register":
		out.Err = w.m.Register(w.pairs[in.P], c20sub(in.S)) != nil
	case "unregister":
		w.m.Unregister(w.pairs[in.P])
	case "unregsub":
		w.m.UnregisterSubscriber(c20sub(in.S))
	case "getsub":
		if id, ok := w.m.GetSubscriber(w.pairs[in.P]); ok {
			out.V = w.subIdx(id)
		}
	case "getvlan":
		if p, ok := w.m.GetVLAN(c20sub(in.S)); ok {
			out.V = w.pairIdx(p)
		}
	}
	w.hist.ret(client, in, out, st)
	return out
}

func (w *c20qinq) snapshot() c20qstate {
	var st c20qstate
	for p := 0; p < c20qPairs; p++ {
		st.Fwd[p] = w.call(w.ncl, c20qin{Kind: "getsub", P: p}).V
	}
	for s := 0; s < w.ns; s++ {
		st.Rev[s] = w.call(w.ncl, c20qin{Kind: "getvlan", S: s}).V
	}
	h := uint64(14695981039346656037)
	for _, v := range st.Fwd {
		h = (h ^ uint64(uint8(v))) * 1099511628211
	}
	w.c.State(h ^ 0x2051)
	return st
}

// agree: forward and reverse lookups describe the same bijection.
func (w *c20qinq) agree(st c20qstate, where string) {
	for p := 0; p < c20qPairs; p++ {
		if s := st.Fwd[p]; s != 0 {
			if s < 0 || int(s) > w.ns || st.Rev[s-1] != int8(p+1) {
				w.c.Fail("lookups-agree", "qinq/"+where+"/lookups-disagree", "GetSubscriber(%v) returns subscriber #%d but GetVLAN of that subscriber returns pair #%d", w.pairs[p], s-1, func() int8 {
					if s > 0 && int(s) <= w.ns {
						return st.Rev[s-1] - 1
					}
					return -1
				}())
			}
		}
	}
	for s := 0; s < w.ns; s++ {
		if p := st.Rev[s]; p != 0 {
			if p < 0 || st.Fwd[p-1] != int8(s+1) {
				w.c.Fail("lookups-agree", "qinq/"+where+"/lookups-disagree", "GetVLAN(%s) returns pair #%d but GetSubscriber of that pair returns subscriber #%d", c20sub(s), p-1, func() int8 {
					if p > 0 {
						return st.Fwd[p-1] - 1
					}
					return -1
				}())
			}
		}
	}
}

func (w *c20qinq) seq(op sim.Op) {
	c := w.c
	in := w.decode(op)
	pre := w.state
	out := w.call(0, in)
	post := w.snapshot()
	w.state = post
	c.S.Logf("%s p=%d s=%d -> err=%v v=%d", in.Kind, in.P, in.S, out.Err, out.V)
	w.agree(post, in.Kind)
	// which pairs / subscribers the op may touch
	touchP, touchS := map[int]bool{}, map[int]bool{}
	switch in.Kind {
	case "register":
		if out.Err {
			break
		}
		touchP[in.P], touchS[in.S] = true, true
		if old := pre.Rev[in.S]; old > 0 {
			touchP[int(old-1)] = true
		}
		if in.P >= 6 {
			c.Fail("in-range", "qinq/register/outside-range", "Register(%v) succeeded, the pair is outside the configured ranges", w.pairs[in.P])
		}
		if o := pre.Fwd[in.P]; o != 0 && o != int8(in.S+1) {
			c.Fail("unique", "qinq/register/took-held-pair", "Register(%v,%s) succeeded although the pair identifies subscriber #%d", w.pairs[in.P], c20sub(in.S), o-1)
			touchS[int(o-1)] = true
		}
		if post.Fwd[in.P] != int8(in.S+1) || post.Rev[in.S] != int8(in.P+1) {
			c.Fail("lookups-agree", "qinq/register/not-recorded", "Register(%v,%s) succeeded but lookups return subscriber #%d / pair #%d", w.pairs[in.P], c20sub(in.S), post.Fwd[in.P]-1, post.Rev[in.S]-1)
		}
		w.ever[in.P] = true
	case "unregister":
		touchP[in.P] = true
		if s := pre.Fwd[in.P]; s > 0 {
			touchS[int(s-1)] = true
		}
		if post.Fwd[in.P] != 0 {
			c.Fail("release", "qinq/unregister/still-mapped", "after Unregister(%v) GetSubscriber still returns subscriber #%d", w.pairs[in.P], post.Fwd[in.P]-1)
		}
	case "unregsub":
		touchS[in.S] = true
		if p := pre.Rev[in.S]; p > 0 {
			touchP[int(p-1)] = true
		}
		if post.Rev[in.S] != 0 {
			c.Fail("release", "qinq/unregister-subscriber/still-mapped", "after UnregisterSubscriber(%s) GetVLAN still returns pair #%d", c20sub(in.S), post.Rev[in.S]-1)
		}
	case "getsub":
		if out.V != pre.Fwd[in.P] {
			c.Fail("lookups-agree", "qinq/get-subscriber/mismatch", "GetSubscriber(%v) returned #%d, expected #%d", w.pairs[in.P], out.V-1, pre.Fwd[in.P]-1)
		}
	case "getvlan":
		if out.V != pre.Rev[in.S] {
			c.Fail("lookups-agree", "qinq/get-vlan/mismatch", "GetVLAN(%s) returned #%d, expected #%d", c20sub(in.S), out.V-1, pre.Rev[in.S]-1)
		}
	}
	if in.Kind == "register" && out.Err {
		if pre.Fwd[in.P] == 0 && in.P < 6 && w.ever[in.P] {
			c.Fail("reusable", "qinq/register/released-pair-rejected", "Register(%v,%s) failed although the pair was released and identifies nobody", w.pairs[in.P], c20sub(in.S))
		}
	}
	for p := 0; p < c20qPairs; p++ {
		if !touchP[p] && pre.Fwd[p] != post.Fwd[p] {
			c.Fail("others-unchanged", "qinq/"+in.Kind+"/other-changed", "%s(p=%v,s=%s) changed pair %v from subscriber #%d to #%d", in.Kind, w.pairs[in.P], c20sub(in.S), w.pairs[p], pre.Fwd[p]-1, post.Fwd[p]-1)
		}
	}
	for s := 0; s < w.ns; s++ {
		if !touchS[s] && pre.Rev[s] != post.Rev[s] {
			c.Fail("others-unchanged", "qinq/"+in.Kind+"/other-changed", "%s(p=%v,s=%s) changed %s from pair #%d to #%d", in.Kind, w.pairs[in.P], c20sub(in.S), c20sub(s), pre.Rev[s]-1, post.Rev[s]-1)
		}
	}
}

func (w *c20qinq) par(client int, op sim.Op) {
	in := w.decode(op)
	out := w.call(client, in)
	w.conc = true
	if in.Kind == "register" && !out.Err {
		w.ever[in.P] = true
	}
	w.c.S.Logf("c%d %s p=%d s=%d -> err=%v v=%d", client, in.Kind, in.P, in.S, out.Err, out.V)
}

func (w *c20qinq) quiesce() {
	post := w.snapshot()
	w.state = post
	w.agree(post, "conc")
	for p := 6; p < c20qPairs; p++ {
		if post.Fwd[p] != 0 {
			w.c.Fail("in-range", "qinq/conc/outside-range", "pair %v outside the configured ranges is mapped", w.pairs[p])
		}
	}
}

func (w *c20qinq) finish() {
	c := w.c
	if !w.conc || c.Failed() {
		return
	}
	mk := func(steps *int, budget int) porcupine.Model {
		return porcupine.Model{
			Init: func() interface{} { return [c20maxEnt]int8{} },
			Step: func(state, input, output interface{}) (bool, interface{}) {
				*steps++
				if *steps > budget {
					return false, state
				}
				st := state.([c20maxEnt]int8) // subscriber -> pair+1
				in, out := input.(c20qin), output.(c20qout)
				holder := func(p int) int {
					for s, v := range st {
						if v == int8(p+1) {
							return s
						}
					}
					return -1
				}
				switch in.Kind {
				case "register":
					if out.Err {
						return true, st
					}
					if in.P >= 6 {
						return false, st
					}
					if h := holder(in.P); h >= 0 && h != in.S {
						return false, st
					}
					st[in.S] = int8(in.P + 1)
					return true, st
				case "unregister":
					if h := holder(in.P); h >= 0 {
						st[h] = 0
					}
					return true, st
				case "unregsub":
					st[in.S] = 0
					return true, st
				case "getsub":
					return out.V == int8(holder(in.P)+1), st
				default:
					return out.V == st[in.S], st
				}
			},
		}
	}
	c.S.Probe("lin_checked")
	switch c20check(mk, w.hist.ops) {
	case "unknown":
		c.S.Probe("lin_unknown")
	case "illegal":
		c.Fail("linearizable", "qinq/lin", "concurrent history not linearizable against the bijection model:%s",
			c20describe(w.hist.ops, w.ncl, func(i, o interface{}) string {
				in, out := i.(c20qin), o.(c20qout)
				return fmt.Sprintf("%s(p%d,s%d)->err=%v v=%d", in.Kind, in.P, in.S, out.Err, out.V)
			}))
	}
}
