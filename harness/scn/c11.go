package scn

import (
	"bytes"
	"encoding/binary"
	"fmt"
	"net"
	"time"

	"github.com/codelaboratoryltd/bng/pkg/pppoe"
	"go.uber.org/zap"

	"verif/harness/sim"
)

// C11 — PPP control protocols open only on mutual agreement and always terminate.
//
// One driver task feeds administrative events and peer packets to a real
// LCP/IPCP/IPv6CP automaton; the automaton's restart timer callbacks are
// scheduler tasks, so the tape decides whether a timer that became due runs
// before or after the packet that would have cancelled it.

type cpFSM interface {
	Up()
	Down()
	Open()
	Close()
	ReceivePacket([]byte) error
	IsOpened() bool
	State() string
}

type lcpAd struct{ *pppoe.LCPStateMachine }

func (a lcpAd) State() string { return a.GetState().String() }

type ipcpAd struct{ *pppoe.IPCPStateMachine }

func (a ipcpAd) State() string { return a.GetState().String() }

type v6Ad struct{ *pppoe.IPV6CPStateMachine }

func (a v6Ad) State() string { return a.GetState().String() }

// option classes
const (
	clsOK = iota
	clsEither
	clsOffending
)

type c11pool struct {
	ip       net.IP
	allocs   int
	releases int
}

func (p *c11pool) Allocate(string) net.IP { p.allocs++; return p.ip }
func (p *c11pool) Release(string)         { p.releases++ }

type c11mon struct {
	c       *sim.Ctx
	variant string
	proto   uint16
	// what the automaton sent last as Configure-Request
	ourReqID   int
	ourReqOpts []byte
	peerAcked  bool
	// what the peer (harness) sent last as Configure-Request
	peerReqID   int
	peerReqOpts []byte
	peerReqCls  map[byte]int // option type -> worst class in the request
	weAcked     bool
	// packet being delivered right now
	curCode, curID int
	curData        []byte
	sentTotal      int
	reqSinceEvent  int // Configure-Requests sent since the last peer or administrative event
	termSinceEvent int // Terminate-Requests sent since then (own budget: a restart-timer retransmission may precede a close at the same instant)
	limit          int
	eventInOpened  bool // the last peer event was delivered while the automaton reported Opened: whatever negotiation it started is a fresh one
	assigned       net.IP
	lastSentAt     time.Duration
}

func (m *c11mon) onSend(proto uint16, data []byte) {
	c := m.c
	m.sentTotal++
	m.lastSentAt = c.S.Now()
	if proto != m.proto {
		c.Fail("reply-shape", "shape/"+m.variant+"/protocol", "packet sent with protocol %#x, want %#x", proto, m.proto)
		return
	}
	if len(data) < 4 || int(binary.BigEndian.Uint16(data[2:4])) != len(data) {
		c.Fail("reply-shape", "shape/"+m.variant+"/length", "malformed packet sent: % x", data)
		return
	}
	code, id, body := data[0], int(data[1]), data[4:]
	c.S.Logf("sent code=%d id=%d len=%d", code, id, len(body))
	switch code {
	case 1: // Configure-Request
		m.ourReqID, m.ourReqOpts, m.peerAcked = id, append([]byte(nil), body...), false
		m.reqSinceEvent++
	case 5:
		m.termSinceEvent++
	case 2, 3, 4:
		if m.curCode != 1 {
			c.Fail("reply-shape", fmt.Sprintf("shape/%s/unsolicited-code%d", m.variant, code), "configure reply code %d sent while delivering code %d", code, m.curCode)
			return
		}
		if id != m.curID {
			c.Fail("reply-shape", fmt.Sprintf("shape/%s/id-code%d", m.variant, code), "reply code %d has id %d, request had %d", code, id, m.curID)
		}
		opts, ok := parseOpts(body)
		if !ok {
			c.Fail("reply-shape", fmt.Sprintf("shape/%s/opts-code%d", m.variant, code), "unparsable options in reply: % x", body)
			return
		}
		switch code {
		case 2:
			if !bytes.Equal(body, m.curData) {
				c.Fail("reply-shape", "shape/"+m.variant+"/ack-altered", "Configure-Ack options % x differ from request % x", body, m.curData)
			}
			if m.variant == "ipcp" {
				for _, o := range opts {
					if o.Type == 3 && len(o.Data) == 4 && m.assigned != nil && !net.IP(o.Data).Equal(m.assigned) {
						c.Fail("ipcp-address", "ipcp/ack-unassigned-address", "IPCP acknowledged %v, assigned is %v", net.IP(o.Data), m.assigned)
					}
				}
			}
			if id == m.peerReqID && bytes.Equal(body, m.peerReqOpts) {
				m.weAcked = true
			}
		case 3:
			for _, o := range opts {
				cls, present := m.peerReqCls[o.Type]
				if !present || cls == clsOK {
					c.Fail("reply-shape", fmt.Sprintf("shape/%s/nak-nonoffending-%d", m.variant, o.Type), "Configure-Nak lists option %d which was acceptable/absent in % x", o.Type, m.curData)
				}
			}
		case 4:
			reqOpts, _ := parseOpts(m.curData)
			for _, o := range opts {
				cls, present := m.peerReqCls[o.Type]
				if !present || cls == clsOK {
					c.Fail("reply-shape", fmt.Sprintf("shape/%s/rej-nonoffending-%d", m.variant, o.Type), "Configure-Reject lists option %d which was acceptable/absent in % x", o.Type, m.curData)
					continue
				}
				found := false
				for _, r := range reqOpts {
					if r.Type == o.Type && bytes.Equal(r.Data, o.Data) {
						found = true
					}
				}
				if !found {
					c.Fail("reply-shape", fmt.Sprintf("shape/%s/rej-altered-%d", m.variant, o.Type), "Configure-Reject option %d not copied verbatim", o.Type)
				}
			}
		}
	case 6: // Terminate-Ack
		if m.curCode == 0 {
			c.Fail("reply-shape", "shape/"+m.variant+"/unsolicited-termack", "Terminate-Ack sent with no packet being processed")
		} else if id != m.curID {
			c.Fail("reply-shape", "shape/"+m.variant+"/id-termack", "Terminate-Ack id %d, triggering packet id %d", id, m.curID)
		}
	case 10: // Echo-Reply
		if m.curCode != 9 || id != m.curID {
			c.Fail("reply-shape", "shape/"+m.variant+"/id-echo", "Echo-Reply id %d for packet code %d id %d", id, m.curCode, m.curID)
		}
	}
	if m.reqSinceEvent > m.limit || m.termSinceEvent > m.limit {
		c.Fail("termination", "termination/"+m.variant+"/too-many-requests", "%d Configure-Requests / %d Terminate-Requests sent without any peer event, configured maximum %d of each", m.reqSinceEvent, m.termSinceEvent, m.limit)
	}
}

func (m *c11mon) resetAgreement() { m.peerAcked, m.weAcked = false, false }

// -----------------------------------------------------------------------------

func c11Gen(r *sim.Rand, tier string) *sim.Case {
	cs := &sim.Case{Knobs: map[string]int64{}}
	cs.Variant = sim.Pick(r, "lcp", "lcp", "ipcp", "ipv6cp")
	cs.Knobs["maxcfg"] = int64(r.Range(1, 4))
	cs.Knobs["rt_ms"] = int64(sim.Pick(r, 500, 1000, 3000))
	cs.Knobs["skipmax"] = int64(sim.Pick(r, 1, 1, 2, 4, 16))
	cs.Knobs["pool"] = int64(r.N(2)) // ipcp: 0 static, 1 pool
	cs.Knobs["cbyield"] = int64(r.N(2)) // 1: the state-change observer yields inside the callback
	n := r.Range(4, 14)
	if tier == "thorough" {
		n = r.Range(4, 30)
	}
	// most runs start with the normal bring-up in some order
	switch r.N(4) {
	case 0:
		cs.Ops = append(cs.Ops, sim.Op{K: "open"}, sim.Op{K: "up"})
	case 1:
		cs.Ops = append(cs.Ops, sim.Op{K: "up"}, sim.Op{K: "open"})
	case 2:
		cs.Ops = append(cs.Ops, sim.Op{K: "up"})
	}
	nk := 6
	if r.P(10) {
		// motif: a lossy bring-up (restart timer fires a few times), both sides acknowledge in
		// either order, then the peer renegotiates and falls silent
		cs.Ops = []sim.Op{{K: "open"}, {K: "up"}}
		for k := r.N(int(cs.Knobs["maxcfg"])); k > 0; k-- {
			cs.Ops = append(cs.Ops, sim.Op{K: "sleep", A: []int64{int64(sim.Pick(r, 2, 3))}})
		}
		first, second := sim.Op{K: "rcr", A: []int64{0, 0}}, sim.Op{K: "rca", A: []int64{0}}
		if r.P(50) {
			first, second = second, first
		}
		cs.Ops = append(cs.Ops, first)
		if r.P(30) {
			cs.Ops = append(cs.Ops, sim.Op{K: "sleep", A: []int64{int64(sim.Pick(r, 0, 2))}})
		}
		cs.Ops = append(cs.Ops, second, sim.Op{K: "rcr", A: []int64{0, 0}})
		return cs
	}
	for i := 0; i < n; i++ {
		switch r.Weighted(3, 2, 2, 2, 14, 12, 4, 4, 4, 3, 2, 2, 2, 10, 3, 2) {
		case 15:
			cs.Ops = append(cs.Ops, sim.Op{K: "race", A: []int64{int64(r.N(2))}})
		case 0:
			cs.Ops = append(cs.Ops, sim.Op{K: "up"})
		case 1:
			cs.Ops = append(cs.Ops, sim.Op{K: "down"})
		case 2:
			cs.Ops = append(cs.Ops, sim.Op{K: "open"})
		case 3:
			cs.Ops = append(cs.Ops, sim.Op{K: "close"})
		case 4:
			a := []int64{int64(r.Weighted(8, 2))}
			if r.P(70) {
				a = append(a, 0) // all acceptable
			} else {
				for j := r.Range(1, 3); j > 0; j-- {
					a = append(a, int64(r.N(nk+1)))
				}
			}
			cs.Ops = append(cs.Ops, sim.Op{K: "rcr", A: a})
		case 5:
			cs.Ops = append(cs.Ops, sim.Op{K: "rca", A: []int64{int64(r.Weighted(8, 2, 1))}})
		case 6:
			cs.Ops = append(cs.Ops, sim.Op{K: "rcn", A: []int64{int64(r.Weighted(6, 2, 1)), int64(r.N(3))}})
		case 7:
			cs.Ops = append(cs.Ops, sim.Op{K: "rcj", A: []int64{int64(r.Weighted(6, 2, 1)), int64(r.N(3))}})
		case 8:
			cs.Ops = append(cs.Ops, sim.Op{K: "rtr"})
		case 9:
			cs.Ops = append(cs.Ops, sim.Op{K: "rta"})
		case 10:
			cs.Ops = append(cs.Ops, sim.Op{K: "crej", A: []int64{int64(sim.Pick(r, 1, 2, 5, 9, 11))}})
		case 11:
			cs.Ops = append(cs.Ops, sim.Op{K: "prej", A: []int64{int64(r.N(2))}})
		case 12:
			cs.Ops = append(cs.Ops, sim.Op{K: "echo"})
		case 13:
			cs.Ops = append(cs.Ops, sim.Op{K: "sleep", A: []int64{int64(r.Weighted(2, 2, 8, 2, 2, 1))}})
		case 14:
			cs.Ops = append(cs.Ops, sim.Op{K: "dup"})
		}
	}
	return cs
}

func c11Run(c *sim.Ctx) {
	cs := c.Case
	log := zap.NewNop()
	rt := time.Duration(cs.Knob("rt_ms", 1000)) * time.Millisecond
	maxcfg := int(cs.Knob("maxcfg", 2))
	mon := &c11mon{c: c, variant: cs.Variant, ourReqID: -1, peerReqID: -1, limit: maxcfg}
	var m cpFSM
	var pool *c11pool
	ourMagic := uint32(0x1badcafe)
	ourIID := uint64(0x0200aabbccddeeff)
	switch cs.Variant {
	case "lcp":
		mon.proto = pppoe.ProtocolLCP
		cfg := pppoe.DefaultLCPConfig()
		cfg.MagicNumber = ourMagic
		cfg.MaxConfigure, cfg.MaxTerminate, cfg.MaxRetransmit = maxcfg, maxcfg, maxcfg
		cfg.RestartTimer = rt
		sm, err := pppoe.NewLCPStateMachine(cfg, mon.onSend, log)
		if err != nil {
			panic(err)
		}
		m = lcpAd{sm}
	case "ipcp":
		mon.proto = pppoe.ProtocolIPCP
		cfg := pppoe.DefaultIPCPConfig()
		cfg.MaxRetransmit = maxcfg
		cfg.RestartTimer = rt
		cfg.PrimaryDNS = net.ParseIP("9.9.9.9")
		mon.assigned = net.ParseIP("10.0.0.77").To4()
		if cs.Knob("pool", 0) == 1 {
			pool = &c11pool{ip: mon.assigned}
			cfg.IPPool = pool
		} else {
			cfg.PeerIP = mon.assigned
		}
		m = ipcpAd{pppoe.NewIPCPStateMachine(cfg, "sess-1", mon.onSend, log)}
	default:
		mon.proto = pppoe.ProtocolIPv6CP
		cfg := pppoe.IPV6CPConfig{LocalInterfaceID: ourIID, MaxRetransmit: maxcfg, RestartTimer: rt}
		sm, err := pppoe.NewIPV6CPStateMachine(cfg, mon.onSend, log)
		if err != nil {
			panic(err)
		}
		m = v6Ad{sm}
	}
	// the automaton's own reports (state-change callbacks), in the order in which they complete
	lastReport := ""
	cbYield := cs.Knob("cbyield", 0) == 1
	report := func(n string) {
		if cbYield {
			c.S.Pause() // an observer that takes a moment: other tasks may run meanwhile
		}
		lastReport = n
	}
	switch x := m.(type) {
	case lcpAd:
		x.LCPStateMachine.SetOnStateChange(func(_, n pppoe.LCPState) { report(n.String()) })
	case ipcpAd:
		x.IPCPStateMachine.SetOnStateChange(func(_, n pppoe.IPCPState) { report(n.String()) })
	case v6Ad:
		x.IPV6CPStateMachine.SetOnStateChange(func(_, n pppoe.IPV6CPState) { report(n.String()) })
	}
	up := false
	peerID := 0
	var lastPkt []byte
	lastCode := 0

	deliver := func(kind string, code, id int, data []byte) {
		if !up {
			return // a link that is down carries no packets
		}
		mon.curCode, mon.curID, mon.curData = code, id, data
		mon.reqSinceEvent, mon.termSinceEvent = 0, 0
		mon.eventInOpened = m.IsOpened()
		pkt := cpPacket(byte(code), byte(id), data)
		lastPkt, lastCode = pkt, code
		c.S.Logf("deliver %s code=%d id=%d", kind, code, id)
		m.ReceivePacket(pkt)
		mon.curCode = 0
	}

	everOpened := false
	check := func(op string, mustLeave bool) {
		opened := m.IsOpened()
		c.OpsDone++
		if opened && !everOpened {
			everOpened = true
			c.S.Probe("reached_opened_" + cs.Variant)
		}
		if opened && !(mon.peerAcked && mon.weAcked) {
			miss := "peerack"
			if mon.peerAcked {
				miss = "ourack"
			}
			c.Fail("opened-without-agreement", fmt.Sprintf("opened/%s/%s/after=%s", cs.Variant, miss, op),
				"%s reports Opened after %s but peerAckedOurLatest=%v (our id %d) weAckedPeerLatest=%v (peer id %d)",
				cs.Variant, op, mon.peerAcked, mon.ourReqID, mon.weAcked, mon.peerReqID)
		}
		if lastReport == "Opened" && !opened {
			c.Fail("opened-report", fmt.Sprintf("report/%s/opened-reported-last/after=%s", cs.Variant, op),
				"the last state %s reported is Opened, but after %s the automaton is in %s", cs.Variant, op, m.State())
		}
		if opened && mustLeave {
			c.Fail("leaves-opened", fmt.Sprintf("stillopen/%s/%s", cs.Variant, op), "%s still Opened after %s", cs.Variant, op)
		}
		h := uint64(14695981039346656037)
		for _, b := range []byte(m.State()) {
			h = (h ^ uint64(b)) * 1099511628211
		}
		if mon.peerAcked {
			h ^= 0x55
		}
		if mon.weAcked {
			h ^= 0xaa00
		}
		c.State(h)
	}

	// option builders ---------------------------------------------------------
	buildReq := func(kinds []int64) ([]byte, map[byte]int) {
		var opts []cpOpt
		cls := map[byte]int{}
		add := func(t byte, d []byte, k int) {
			opts = append(opts, cpOpt{t, d})
			if old, ok := cls[t]; !ok || k > old {
				cls[t] = k
			}
		}
		u16 := func(v uint16) []byte { b := make([]byte, 2); binary.BigEndian.PutUint16(b, v); return b }
		u32 := func(v uint32) []byte { b := make([]byte, 4); binary.BigEndian.PutUint32(b, v); return b }
		u64 := func(v uint64) []byte { b := make([]byte, 8); binary.BigEndian.PutUint64(b, v); return b }
		curMagic := func() uint32 {
			if o, ok := parseOpts(mon.ourReqOpts); ok {
				for _, x := range o {
					if x.Type == 5 && len(x.Data) == 4 {
						return binary.BigEndian.Uint32(x.Data)
					}
				}
			}
			return ourMagic
		}
		curIID := func() uint64 {
			if o, ok := parseOpts(mon.ourReqOpts); ok {
				for _, x := range o {
					if x.Type == 1 && len(x.Data) == 8 {
						return binary.BigEndian.Uint64(x.Data)
					}
				}
			}
			return ourIID
		}
		for _, k := range kinds {
			switch cs.Variant {
			case "lcp":
				switch k {
				case 0:
					add(1, u16(1492), clsOK)
					add(5, u32(0x00c0ffee), clsOK)
				case 1:
					add(1, u16(1500), clsEither)
				case 2:
					add(1, u16(8), clsEither)
				case 3:
					add(5, u32(0), clsOffending)
				case 4:
					add(5, u32(curMagic()), clsOffending)
				case 5:
					add(3, u16(0xc023), clsEither)
				default:
					add(0x42, []byte{1, 2, 3}, clsOffending)
				}
			case "ipcp":
				switch k {
				case 0:
					add(3, mon.assigned, clsOK)
				case 1:
					add(3, []byte{0, 0, 0, 0}, clsOffending)
				case 2:
					add(3, []byte{10, 0, 0, 99}, clsOffending)
				case 3:
					add(129, []byte{0, 0, 0, 0}, clsEither)
				case 4:
					add(2, []byte{0, 0x2d, 0x0f, 0x01}, clsEither)
				case 5:
					add(3, []byte{10, 0, 0}, clsOffending)
				default:
					add(0x42, []byte{9}, clsOffending)
				}
			default:
				switch k {
				case 0:
					add(1, u64(0x1122334455667788), clsOK)
				case 1, 3:
					add(1, u64(0), clsOffending)
				case 2, 4:
					add(1, u64(curIID()), clsOffending)
				case 5:
					add(1, []byte{1, 2, 3}, clsOffending)
				default:
					add(0x42, []byte{9}, clsOffending)
				}
			}
		}
		return serOpts(opts), cls
	}

	idFor := func(sel int64) int {
		switch sel {
		case 0:
			if mon.ourReqID < 0 {
				return 0
			}
			return mon.ourReqID
		case 1:
			return (mon.ourReqID + 255) & 0xff
		default:
			return (mon.ourReqID + 97) & 0xff
		}
	}

	for i, op := range cs.Ops {
		c.OpIdx = i
		if c.Failed() {
			break
		}
		switch op.K {
		case "up":
			mon.eventInOpened = false
			up = true
			mon.reqSinceEvent, mon.termSinceEvent = 0, 0
			m.Up()
			check("up", false)
		case "down":
			mon.eventInOpened = false
			up = false
			mon.reqSinceEvent, mon.termSinceEvent = 0, 0
			mon.resetAgreement()
			m.Down()
			check("down", true)
		case "open":
			mon.eventInOpened = false
			mon.reqSinceEvent, mon.termSinceEvent = 0, 0
			m.Open()
			check("open", false)
		case "close":
			mon.eventInOpened = false
			mon.reqSinceEvent, mon.termSinceEvent = 0, 0
			mon.resetAgreement()
			m.Close()
			check("close", true)
		case "rcr":
			if !up {
				continue
			}
			if op.Arg(0) == 0 || mon.peerReqID < 0 {
				peerID = (peerID + 1) & 0xff
			}
			kinds := op.A[1:]
			if len(kinds) == 0 {
				kinds = []int64{0}
			}
			data, cls := buildReq(kinds)
			mon.peerReqID, mon.peerReqOpts, mon.peerReqCls, mon.weAcked = peerID, data, cls, false
			deliver("rcr", 1, peerID, data)
			check("rcr", false)
		case "race":
			// an administrative close / lower-layer-down from another task while the receive path
			// is processing the peer's genuine Configure-Ack
			if !up {
				continue
			}
			if mon.ourReqID >= 0 {
				mon.peerAcked = true
			}
			c.S.Fault("admin.concurrent-with-packet")
			// two events at once: each restarts the retransmission budget, in an order the monitor cannot know
			mon.reqSinceEvent, mon.termSinceEvent = 0, 0
			mon.limit += 2
			ackID, ackOpts := idFor(0), mon.ourReqOpts
			tA := c.S.Spawn("race-pkt", nil, func() { deliver("rca", 2, ackID, ackOpts) })
			tB := c.S.Spawn("race-admin", nil, func() {
				if op.Arg(0) == 1 {
					m.Down()
				} else {
					m.Close()
				}
			})
			c.S.Join(tA, tB)
			mon.eventInOpened = false
			mon.limit -= 2
			if op.Arg(0) == 1 {
				up = false
			}
			mon.reqSinceEvent, mon.termSinceEvent = 0, 0
			mon.resetAgreement()
			check("race", true)
		case "rca":
			if !up {
				continue
			}
			id := idFor(op.Arg(0))
			if op.Arg(0) == 0 && mon.ourReqID >= 0 {
				// a genuine acknowledgement of the automaton's latest request; it
				// counts only if that request is still the latest when processed
				// (onSend clears the flag if a retransmission overtakes it)
				mon.peerAcked = true
			}
			wasOpen := m.IsOpened() && op.Arg(0) == 0
			deliver("rca", 2, id, mon.ourReqOpts)
			check("rca", wasOpen)
		case "rcn", "rcj":
			if !up {
				continue
			}
			id := idFor(op.Arg(0))
			var opts []cpOpt
			switch cs.Variant {
			case "lcp":
				switch op.Arg(1) {
				case 0:
					opts = []cpOpt{{1, []byte{0x05, 0x78}}}
				case 1:
					opts = []cpOpt{{3, []byte{0xc2, 0x23, 5}}}
				default:
					opts = []cpOpt{{5, []byte{1, 2, 3, 4}}}
				}
			case "ipcp":
				opts = []cpOpt{{3, []byte{10, 0, 0, 1}}}
			default:
				opts = []cpOpt{{1, []byte{1, 2, 3, 4, 5, 6, 7, 8}}}
			}
			code := 3
			if op.K == "rcj" {
				code = 4
			}
			wasOpen := m.IsOpened() && op.Arg(0) == 0 && mon.ourReqID >= 0
			deliver(op.K, code, id, serOpts(opts))
			check(op.K, wasOpen)
		case "rtr":
			if !up {
				continue
			}
			mon.resetAgreement()
			peerID = (peerID + 1) & 0xff
			deliver("rtr", 5, peerID, []byte("bye"))
			check("rtr", true)
		case "rta":
			if !up {
				continue
			}
			deliver("rta", 6, idFor(0), nil)
			check("rta", true)
		case "crej":
			if !up || cs.Variant != "lcp" {
				continue
			}
			crit := op.Arg(0) >= 1 && op.Arg(0) <= 4
			if crit {
				mon.resetAgreement()
			}
			peerID = (peerID + 1) & 0xff
			deliver("crej", 7, peerID, cpPacket(byte(op.Arg(0)), 1, nil))
			check("crej", crit)
		case "prej":
			if !up || cs.Variant != "lcp" {
				continue
			}
			proto := []byte{0xc0, 0x21}
			if op.Arg(0) == 1 {
				proto = []byte{0x80, 0x57}
			} else {
				mon.resetAgreement()
			}
			peerID = (peerID + 1) & 0xff
			deliver("prej", 8, peerID, append(proto, 1, 1, 0, 4))
			check("prej", op.Arg(0) == 0)
		case "echo":
			if !up || cs.Variant != "lcp" {
				continue
			}
			peerID = (peerID + 1) & 0xff
			deliver("echo", 9, peerID, []byte{0, 0xc0, 0xff, 0xee, 'h', 'i'})
			check("echo", false)
		case "dup":
			if !up || lastPkt == nil || lastCode == 1 || lastCode == 5 {
				continue
			}
			// a duplicated non-request packet (requests are re-generated by rcr/rtr)
			mon.curCode, mon.curID = int(lastPkt[0]), int(lastPkt[1])
			mon.curData = lastPkt[4:]
			mon.reqSinceEvent, mon.termSinceEvent = 0, 0
			mon.eventInOpened = m.IsOpened()
			c.S.Fault("net.dup")
			m.ReceivePacket(lastPkt)
			mon.curCode = 0
			check("dup", false)
		case "sleep":
			var d time.Duration
			switch op.Arg(0) {
			case 0:
				d = time.Millisecond
			case 1:
				d = rt - time.Millisecond
			case 2:
				d = rt
			case 3:
				d = rt + time.Millisecond
			case 4:
				d = 2 * rt
			default:
				d = time.Duration(maxcfg+2) * rt
			}
			if a := op.Arg(0); a >= 1 && a <= 3 {
				c.S.Probe("sleep_within_1ms_of_restart_timer") // the driver wakes within 1 ms of the restart timer
			}
			c.S.Sleep(d)
			check("sleep", false)
		}
	}
	if c.Failed() {
		return
	}
	// bounded termination against a peer that has gone silent
	c.OpIdx = len(cs.Ops)
	negotiating := false
	st0 := m.State()
	switch st0 {
	case "Req-Sent", "Ack-Rcvd", "Ack-Sent":
		negotiating = true
	}
	// (no call into the automaton - a scheduling point - between reading and restarting the count)
	sinceEvent := mon.reqSinceEvent
	mon.reqSinceEvent, mon.termSinceEvent = 0, 0
	before := mon.sentTotal
	c.S.Probe("silence_from_" + st0)
	c.S.Sleep(time.Duration(maxcfg+2)*rt + time.Second)
	// "after the configured number": a negotiation the automaton started out of the opened state
	// (the peer renegotiated and then fell silent) is a fresh one and gets the whole budget
	if mon.eventInOpened && negotiating && up {
		c.S.Probe("silence_after_renegotiation_from_opened")
		if got := sinceEvent + mon.reqSinceEvent; got < maxcfg {
			c.Fail("termination", "termination/"+cs.Variant+"/gave-up-early", "the peer renegotiated out of the opened state and fell silent: the automaton gave up after %d Configure-Requests, configured number %d", got, maxcfg)
		}
	}
	if mon.sentTotal-before > mon.limit {
		c.Fail("termination", "termination/"+cs.Variant+"/silent-peer-requests", "%d packets sent to a silent peer, configured maximum %d", mon.sentTotal-before, mon.limit)
	}
	mid := mon.sentTotal
	c.S.Sleep(5 * rt)
	if mon.sentTotal != mid {
		c.Fail("termination", "termination/"+cs.Variant+"/never-stops", "automaton in state %s still sends after %d restart periods of silence", m.State(), maxcfg+2)
	}
	// "stops": after a silence longer than the whole retransmission budget the
	// automaton must have given up, not merely fallen silent in a negotiating or
	// terminating state with no timer running
	switch m.State() {
	case "Req-Sent", "Ack-Rcvd", "Ack-Sent", "Closing", "Stopping":
		c.Fail("termination", "termination/"+cs.Variant+"/stuck-"+m.State(), "after %d restart periods of silence the automaton is still in %s and sends nothing: it never stops", maxcfg+7, m.State())
	}
	check("silence", false)
	if pool != nil && pool.allocs > 1 && pool.releases == 0 {
		c.S.Probe("ipcp_pool_multi_alloc")
	}
}

func init() {
	sim.Register(&sim.Scenario{
		ID:  "C11",
		Gen: c11Gen,
		Run: c11Run,
		Real: []string{"pppoe.LCPStateMachine", "pppoe.IPCPStateMachine", "pppoe.IPV6CPStateMachine", "their time.AfterFunc restart timers (virtual clock)",
			"pppoe.ParseLCPPacket/ParseLCPOptions/Serialize"},
		Stub:         []string{"peer (harness-generated packets)", "IP pool behind IPCP (fixed-address model)", "PPPoE session/transport (sendPacket callback)"},
		Rule:         "cases: random event/packet/sleep sequences (4-30 ops) over lcp/ipcp/ipv6cp with tape-chosen timer-vs-driver ordering, an administrative close/down from a second task racing the receive path, and the automaton's own state reports (callbacks, optionally yielding) recorded; one case in ten is the motif lossy bring-up / both acknowledgements / renegotiation / silence; non-trivial = >=3 operations completed and (a fault fired or the scheduler switched tasks more than twice); distinct = distinct (case hash, schedule fingerprint)",
		QuickRuns:    40000,
		ThoroughRuns: 4000000,
		Assumptions: []string{"packets are only delivered while the lower layer is up", "an acknowledgement is a Configure-Ack whose identifier matches the automaton's latest Configure-Request and repeats its options",
			"option acceptability classes (ok/either/offending) are the harness's, MRU range and PFC/ACFC/auth are treated as policy (either)",
			"'the configured number': a negotiation the automaton starts in reaction to a packet it received while reporting Opened is a fresh one and sends at least Max-Configure Configure-Requests before it gives up on a silent peer; for other negotiations only the upper bound is applied"},
	})
}
