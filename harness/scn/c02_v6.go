package scn

import (
	"fmt"
	"net"
	"time"

	"github.com/codelaboratoryltd/bng/pkg/allocator"
	"github.com/codelaboratoryltd/bng/pkg/dhcpv6"
	"github.com/codelaboratoryltd/bng/pkg/simrt"
	"go.uber.org/zap"

	"verif/harness/sim"
)

// DHCPv6 half of C02: the real dhcpv6.Server message handler with its legacy
// address and prefix pools; replies are captured at the server's UDP write.

type v6client struct {
	idx      int
	duid     []byte
	xid      uint32
	advAddr  net.IP
	advPfx   string
	addr     net.IP
	pfx      string
	wantAddr bool
	wantPD   bool
}

type v6bind struct {
	val   string
	until time.Duration
}

type v6world struct {
	c        *sim.Ctx
	srv      *dhcpv6.Server
	clients  []*v6client
	byDUID   map[string]*v6client
	addrNet  *net.IPNet
	pfxNet   *net.IPNet
	offers   map[string]map[int]*v6bind // kind -> client -> open offer
	bounds   map[string]map[int]*v6bind
	declined map[string]bool
	lastEv   map[string]string
	reqKind  map[uint32]string
	renewing map[uint32]map[string]string // xid -> kind -> value being renewed while unexpired
	valid    time.Duration
	tag      string // "v6" legacy pools, "v6alloc" integrated allocator.PoolAllocator pools
}

func (w *v6world) now() time.Duration { return w.c.S.Now() }

func (w *v6world) holder(kind, val string, except int) (int, string) {
	for i, b := range w.bounds[kind] {
		if i != except && b.val == val && w.now() < b.until {
			return i, "bound"
		}
	}
	for i, o := range w.offers[kind] {
		if i != except && o.val == val && w.now() < o.until {
			return i, "offered"
		}
	}
	return -1, ""
}

func (w *v6world) grant(cl *v6client, mtype uint8, kind, val string, validS uint32, xid uint32, inRange bool) {
	c := w.c
	rk := w.reqKind[xid]
	verb := "reply"
	if mtype == dhcpv6.MsgTypeAdvertise {
		verb = "advertise"
	}
	if !inRange {
		c.Fail("bad-address", fmt.Sprintf("%s/%s-outside-pool/%s", w.tag, verb, kind), "%s of %s %s to client %d is outside the serving pool", verb, kind, val, cl.idx)
	}
	if h, st := w.holder(kind, val, cl.idx); h >= 0 {
		c.Fail("double-binding", fmt.Sprintf("%s/%s-foreign/%s/%s/req=%s", w.tag, verb, kind, st, rk), "%s of %s %s to client %d while client %d has it %s", verb, kind, val, cl.idx, h, st)
	}
	if w.declined[val] {
		c.Fail("declined-reoffered", fmt.Sprintf("%s/%s-declined/%s", w.tag, verb, kind), "%s of %s %s to client %d although it was declined earlier", verb, kind, val, cl.idx)
	}
	if want, ok := w.renewing[xid][kind]; ok && want != val && mtype == dhcpv6.MsgTypeReply {
		c.Fail("renew", w.tag+"/renew-changed/"+kind, "client %d renewing %s was answered with %s", cl.idx, want, val)
	}
	until := w.now() + time.Duration(validS)*time.Second
	if mtype == dhcpv6.MsgTypeAdvertise {
		w.offers[kind][cl.idx] = &v6bind{val, w.now() + c02OfferHold(time.Duration(validS)*time.Second)}
		w.lastEv[val] = "offered"
	} else {
		delete(w.offers[kind], cl.idx)
		w.bounds[kind][cl.idx] = &v6bind{val, until}
		w.lastEv[val] = "bound"
	}
}

func (w *v6world) onReply(_ *net.UDPConn, b []byte, to *net.UDPAddr) (int, error) {
	c := w.c
	m, err := dhcpv6.ParseMessage(b)
	if err != nil {
		c.Fail("reply", w.tag+"/reply-unparsable", "server wrote an unparsable message: %v", err)
		return len(b), nil
	}
	cid := m.GetOption(dhcpv6.OptClientID)
	if cid == nil {
		return len(b), nil
	}
	cl := w.byDUID[string(cid.Data)]
	if cl == nil {
		return len(b), nil
	}
	xid := uint32(m.TransactionID[0])<<16 | uint32(m.TransactionID[1])<<8 | uint32(m.TransactionID[2])
	c.OpsDone++
	gotAddr, gotPfx := false, false
	for _, o := range m.GetAllOptions(dhcpv6.OptIANA) {
		ia, err := dhcpv6.ParseIANA(o.Data)
		if err != nil {
			continue
		}
		for _, so := range ia.Options {
			if so.Code != dhcpv6.OptIAAddr {
				continue
			}
			a, err := dhcpv6.ParseIAAddress(so.Data)
			if err != nil {
				continue
			}
			gotAddr = true
			c.S.Logf("v6 %d to c%d addr=%v valid=%d", m.Type, cl.idx, a.Address, a.ValidLifetime)
			w.grant(cl, m.Type, "addr", a.Address.String(), a.ValidLifetime, xid, w.addrNet.Contains(a.Address))
			if m.Type == dhcpv6.MsgTypeAdvertise {
				cl.advAddr = a.Address
			} else {
				cl.addr = a.Address
			}
		}
	}
	for _, o := range m.GetAllOptions(dhcpv6.OptIAPD) {
		ia, err := dhcpv6.ParseIAPD(o.Data)
		if err != nil {
			continue
		}
		for _, so := range ia.Options {
			if so.Code != dhcpv6.OptIAPrefix {
				continue
			}
			p, err := dhcpv6.ParseIAPrefix(so.Data)
			if err != nil {
				continue
			}
			gotPfx = true
			val := fmt.Sprintf("%v/%d", p.Prefix, p.PrefixLength)
			c.S.Logf("v6 %d to c%d prefix=%s valid=%d", m.Type, cl.idx, val, p.ValidLifetime)
			w.grant(cl, m.Type, "pd", val, p.ValidLifetime, xid, w.pfxNet.Contains(p.Prefix))
			if m.Type == dhcpv6.MsgTypeAdvertise {
				cl.advPfx = val
			} else {
				cl.pfx = val
			}
		}
	}
	// a renewal of an unexpired binding that is answered without the value
	if m.Type == dhcpv6.MsgTypeReply {
		if want, ok := w.renewing[xid]["addr"]; ok && !gotAddr {
			c.Fail("renew", w.tag+"/renew-refused/addr", "client %d renewing its unexpired address %s got a Reply without it", cl.idx, want)
		}
		if want, ok := w.renewing[xid]["pd"]; ok && !gotPfx {
			c.Fail("renew", w.tag+"/renew-refused/pd", "client %d renewing its unexpired prefix %s got a Reply without it", cl.idx, want)
		}
	}
	return len(b), nil
}

func c02GenV6(r *sim.Rand, tier string, cs *sim.Case) *sim.Case {
	cs.Knobs["clients"] = int64(r.Range(2, 4))
	cs.Knobs["valid_s"] = int64(sim.Pick(r, 60, 120, 3600))
	cs.Knobs["mode"] = int64(r.N(3)) // 0 address only, 1 prefix only, 2 both
	cs.Knobs["alloc"] = int64(r.Weighted(2, 1)) // 1 = integrated allocator.PoolAllocator pools instead of the legacy ones
	cs.Knobs["skipmax"] = int64(sim.Pick(r, 1, 1, 4, 16))
	cs.Knobs["maporder"] = int64(r.N(4))
	n := r.Range(4, 14)
	if tier == "thorough" {
		n = r.Range(4, 28)
	}
	nc := int(cs.Knobs["clients"])
	for i := 0; i < n; i++ {
		c := int64(r.N(nc))
		switch r.Weighted(8, 3, 8, 5, 2, 2, 4, 2, 6, 3) {
		case 0:
			cs.Ops = append(cs.Ops, sim.Op{K: "solicit", A: []int64{c, 0}})
		case 1:
			cs.Ops = append(cs.Ops, sim.Op{K: "solicit", A: []int64{c, 1}}) // rapid commit
		case 2:
			cs.Ops = append(cs.Ops, sim.Op{K: "request", A: []int64{c, int64(r.Weighted(9, 1))}}) // 1 = wrong server id
		case 3:
			cs.Ops = append(cs.Ops, sim.Op{K: "renew", A: []int64{c}})
		case 4:
			cs.Ops = append(cs.Ops, sim.Op{K: "rebind", A: []int64{c}})
		case 5:
			cs.Ops = append(cs.Ops, sim.Op{K: "confirm", A: []int64{c}})
		case 6:
			cs.Ops = append(cs.Ops, sim.Op{K: "release", A: []int64{c}})
		case 7:
			cs.Ops = append(cs.Ops, sim.Op{K: "decline", A: []int64{c}})
		case 8:
			cs.Ops = append(cs.Ops, sim.Op{K: "sleep", A: []int64{int64(r.N(5))}})
		case 9:
			cs.Ops = append(cs.Ops, sim.Op{K: "burst", A: []int64{int64(r.Range(2, 3))}})
		}
	}
	return cs
}

func c02RunV6(c *sim.Ctx) {
	cs := c.Case
	nc := int(cs.Knob("clients", 2))
	if nc < 1 {
		nc = 1
	}
	validS := uint32(cs.Knob("valid_s", 120))
	if validS == 0 {
		validS = 60
	}
	mode := cs.Knob("mode", 2)
	w := &v6world{c: c, byDUID: map[string]*v6client{}, declined: map[string]bool{}, lastEv: map[string]string{},
		reqKind: map[uint32]string{}, renewing: map[uint32]map[string]string{}, valid: time.Duration(validS) * time.Second,
		offers: map[string]map[int]*v6bind{"addr": {}, "pd": {}}, bounds: map[string]map[int]*v6bind{"addr": {}, "pd": {}}}
	cfg := dhcpv6.ServerConfig{Interface: "sim0", DNSServers: []string{"2001:4860:4860::8888"}, PreferredLifetime: validS / 2, ValidLifetime: validS}
	// 2001:db8:1::/126 -> three addresses (::1..::3); 2001:db8:100::/47 delegating /48 -> two prefixes
	_, w.addrNet, _ = net.ParseCIDR("2001:db8:1::/126")
	_, w.pfxNet, _ = net.ParseCIDR("2001:db8:100::/47")
	w.tag = "v6"
	integrated := cs.Knob("alloc", 0) == 1
	if integrated {
		// the configuration cmd/bng builds when the allocator integration is on
		w.tag = "v6alloc"
		store := allocator.NewMemoryAllocationStore()
		cfg.AllocationStore = store
		if mode != 1 {
			pa, err := allocator.NewPoolAllocatorWithType(allocator.PoolAllocatorConfig{PoolID: "v6addr", BaseNetwork: "2001:db8:1::/126", PrefixLength: 128, PoolType: allocator.PoolTypeIPv6Address, Store: store})
			if err != nil {
				panic(err)
			}
			cfg.AddressAllocator = pa
		}
		if mode != 0 {
			pa, err := allocator.NewPoolAllocatorWithType(allocator.PoolAllocatorConfig{PoolID: "v6pd", BaseNetwork: "2001:db8:100::/47", PrefixLength: 48, PoolType: allocator.PoolTypeIPv6Prefix, Store: store})
			if err != nil {
				panic(err)
			}
			cfg.PrefixAllocator = pa
		}
	} else {
		if mode != 1 {
			cfg.AddressPool = "2001:db8:1::/126"
		}
		if mode != 0 {
			cfg.PrefixPool = "2001:db8:100::/47"
			cfg.DelegationLength = 48
		}
	}
	srv, err := dhcpv6.NewServer(cfg, zap.NewNop())
	if err != nil {
		panic(err)
	}
	w.srv = srv
	c.S.UDPWrite = w.onReply
	serverID := srv.VerifServerDUID()
	for i := 0; i < nc; i++ {
		cl := &v6client{idx: i, duid: []byte{0, 3, 0, 1, 2, 0xcc, 0, 0, 0, byte(i + 1)}, wantAddr: mode != 1, wantPD: mode != 0}
		w.clients = append(w.clients, cl)
		w.byDUID[string(cl.duid)] = cl
	}
	from := &net.UDPAddr{IP: net.ParseIP("fe80::1"), Port: 546}

	build := func(cl *v6client, t uint8, withServer int, rapid bool) *dhcpv6.Message {
		cl.xid++
		x := uint32(cl.idx)<<16 | cl.xid&0xffff
		m := &dhcpv6.Message{Type: t, TransactionID: [3]byte{byte(x >> 16), byte(x >> 8), byte(x)}}
		m.Options = append(m.Options, dhcpv6.MakeClientIDOption(cl.duid))
		switch withServer {
		case 1:
			m.Options = append(m.Options, dhcpv6.Option{Code: dhcpv6.OptServerID, Data: serverID})
		case 2:
			m.Options = append(m.Options, dhcpv6.Option{Code: dhcpv6.OptServerID, Data: []byte{0, 3, 0, 1, 9, 9, 9, 9, 9, 9}})
		}
		if rapid {
			m.Options = append(m.Options, dhcpv6.Option{Code: dhcpv6.OptRapidCommit})
		}
		if cl.wantAddr {
			ia := &dhcpv6.IANA{IAID: uint32(cl.idx + 1)}
			if t != dhcpv6.MsgTypeSolicit && cl.addr != nil {
				ia.Options = append(ia.Options, dhcpv6.MakeIAAddressOption(&dhcpv6.IAAddress{Address: cl.addr, PreferredLifetime: validS / 2, ValidLifetime: validS}))
			} else if t == dhcpv6.MsgTypeRequest && cl.advAddr != nil {
				ia.Options = append(ia.Options, dhcpv6.MakeIAAddressOption(&dhcpv6.IAAddress{Address: cl.advAddr, PreferredLifetime: validS / 2, ValidLifetime: validS}))
			}
			m.Options = append(m.Options, dhcpv6.MakeIANAOption(ia))
		}
		if cl.wantPD {
			m.Options = append(m.Options, dhcpv6.MakeIAPDOption(&dhcpv6.IAPD{IAID: uint32(cl.idx + 101)}))
		}
		return m
	}

	mk := func(op sim.Op) (*v6client, *dhcpv6.Message, string) {
		ci := int(op.Arg(0))
		if ci < 0 || ci >= len(w.clients) {
			return nil, nil, ""
		}
		cl := w.clients[ci]
		markRenew := func(m *dhcpv6.Message) {
			x := uint32(m.TransactionID[0])<<16 | uint32(m.TransactionID[1])<<8 | uint32(m.TransactionID[2])
			for _, k := range []string{"addr", "pd"} {
				if b := w.bounds[k][ci]; b != nil && w.now() < b.until {
					if w.renewing[x] == nil {
						w.renewing[x] = map[string]string{}
					}
					w.renewing[x][k] = b.val
				}
			}
		}
		endBindings := func(ev string) bool {
			any := false
			for _, k := range []string{"addr", "pd"} {
				if b := w.bounds[k][ci]; b != nil && w.now() < b.until {
					any = true
					w.lastEv[b.val] = ev
					if ev == "declined" && w.now() < b.until {
						w.declined[b.val] = true
					}
					delete(w.bounds[k], ci)
				}
				delete(w.offers[k], ci)
			}
			cl.addr, cl.pfx = nil, ""
			return any
		}
		switch op.K {
		case "solicit":
			return cl, build(cl, dhcpv6.MsgTypeSolicit, 0, op.Arg(1) == 1), "solicit"
		case "request":
			if op.Arg(1) == 1 {
				return cl, build(cl, dhcpv6.MsgTypeRequest, 2, false), "request-wrong-server"
			}
			return cl, build(cl, dhcpv6.MsgTypeRequest, 1, false), "request"
		case "renew":
			if len(w.bounds["addr"]) == 0 && len(w.bounds["pd"]) == 0 {
				return nil, nil, ""
			}
			m := build(cl, dhcpv6.MsgTypeRenew, 1, false)
			markRenew(m)
			return cl, m, "renew"
		case "rebind":
			m := build(cl, dhcpv6.MsgTypeRebind, 0, false)
			markRenew(m)
			return cl, m, "rebind"
		case "confirm":
			if cl.addr == nil {
				return nil, nil, ""
			}
			return cl, build(cl, dhcpv6.MsgTypeConfirm, 0, false), "confirm"
		case "release":
			m := build(cl, dhcpv6.MsgTypeRelease, 1, false)
			if !endBindings("released") {
				return nil, nil, ""
			}
			return cl, m, "release"
		case "decline":
			m := build(cl, dhcpv6.MsgTypeDecline, 1, false)
			if !endBindings("declined") {
				return nil, nil, ""
			}
			return cl, m, "decline"
		}
		return nil, nil, ""
	}

	deliver := func(ops []sim.Op) {
		var ts []*simrt.Task
		for _, op := range ops {
			cl, m, kind := mk(op)
			if m == nil {
				continue
			}
			x := uint32(m.TransactionID[0])<<16 | uint32(m.TransactionID[1])<<8 | uint32(m.TransactionID[2])
			w.reqKind[x] = kind
			c.S.Logf("deliver v6 %s from c%d", kind, cl.idx)
			// the server parses what is on the wire
			wire, err := dhcpv6.ParseMessage(m.Serialize())
			if err != nil {
				panic(err)
			}
			ts = append(ts, c.S.Spawn("handler6", nil, func() { srv.VerifHandle(wire, from) }))
		}
		c.S.Join(ts...)
	}

	ops := cs.Ops
	for i := 0; i < len(ops) && !c.Failed(); i++ {
		c.OpIdx = i
		op := ops[i]
		switch op.K {
		case "sleep":
			var d time.Duration
			switch op.Arg(0) {
			case 0:
				d = time.Second
			case 1:
				d = w.valid / 4
			case 2:
				d = w.valid - time.Second
			case 3:
				d = w.valid + time.Second
			default:
				d = 10 * time.Second
			}
			if d >= w.valid {
				c.S.Fault("clock.jump-past-lease-expiry")
			} else if d > 5*time.Second {
				c.S.Fault("clock.jump-inside-lease")
			}
			c.S.Sleep(d)
		case "burst":
			n := int(op.Arg(0))
			// messages of one burst come from distinct clients: two in-flight
			// messages of one client have no defined order for the ledger
			var batch []sim.Op
			seen := map[int64]bool{}
			for j := i + 1; j < len(ops) && len(batch) < n; j++ {
				if ops[j].K == "sleep" || ops[j].K == "burst" || seen[ops[j].Arg(0)] {
					break
				}
				seen[ops[j].Arg(0)] = true
				batch = append(batch, ops[j])
			}
			if len(batch) > 1 {
				c.S.Fault("net.reorder")
			}
			i += len(batch)
			c.OpIdx = i
			deliver(batch)
		default:
			deliver([]sim.Op{op})
		}
		c.State(uint64(len(w.bounds["addr"]))<<12 | uint64(len(w.bounds["pd"]))<<8 | uint64(len(w.offers["addr"]))<<4 | uint64(len(w.declined)))
	}
	if c.Failed() {
		return
	}
	// ---- availability after release / expiry -----------------------------------
	c.OpIdx = len(ops)
	c.S.Sleep(w.valid + 130*time.Second)
	expired := 0
	for _, k := range []string{"addr", "pd"} {
		for _, b := range w.bounds[k] {
			if w.lastEv[b.val] == "bound" {
				expired++
			}
		}
	}
	type unit struct{ kind, val string }
	var units []unit
	if mode != 1 {
		for i := 1; i <= 3; i++ {
			units = append(units, unit{"addr", fmt.Sprintf("2001:db8:1::%d", i)})
		}
		if integrated {
			units = append(units, unit{"addr", "2001:db8:1::"}) // the allocator hands out every /128 of the /126
		}
	}
	if mode != 0 {
		units = append(units, unit{"pd", "2001:db8:100::/48"}, unit{"pd", "2001:db8:101::/48"})
	}
	want := map[string]int{}
	for _, u := range units {
		switch w.lastEv[u.val] {
		case "offered", "declined":
		default:
			want[u.kind]++
		}
	}
	w.bounds = map[string]map[int]*v6bind{"addr": {}, "pd": {}}
	got := map[string]map[string]bool{"addr": {}, "pd": {}}
	for i := 0; i < 4 && !c.Failed(); i++ {
		cl := &v6client{idx: 100 + i, duid: []byte{0, 3, 0, 1, 2, 0xdd, 0, 0, 1, byte(i + 1)}, wantAddr: mode != 1, wantPD: mode != 0}
		w.clients = append(w.clients, cl)
		cl.idx = len(w.clients) - 1
		w.byDUID[string(cl.duid)] = cl
		m := build(cl, dhcpv6.MsgTypeSolicit, 0, true)
		wire, _ := dhcpv6.ParseMessage(m.Serialize())
		w.reqKind[uint32(m.TransactionID[0])<<16|uint32(m.TransactionID[1])<<8|uint32(m.TransactionID[2])] = "probe"
		t := c.S.Spawn("handler6", nil, func() { srv.VerifHandle(wire, from) })
		c.S.Join(t)
		if cl.addr != nil {
			got["addr"][cl.addr.String()] = true
		}
		if cl.pfx != "" {
			got["pd"][cl.pfx] = true
		}
	}
	for _, k := range []string{"addr", "pd"} {
		if !c.Failed() && len(got[k]) < want[k] {
			cause := "release"
			if expired > 0 {
				cause = "expiry"
			}
			c.Fail("not-available-again", w.tag+"/leak/"+k+"/"+cause, "after every valid lifetime ran out, fresh clients obtained %d distinct %s values, but %d were released, expired or never handed out (last events %v)",
				len(got[k]), k, want[k], w.lastEv)
		}
	}
}
