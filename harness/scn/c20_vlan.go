package scn

import (
	"context"
	"fmt"

	"github.com/anishathalye/porcupine"
	"github.com/codelaboratoryltd/bng/pkg/nexus"

	"verif/harness/sim"
)

// nexus.VLANAllocator: NTE id <-> (outer, inner) pair.

const c20maxEnt = 5

type c20pair struct{ S, C uint16 } // zero value = none

func (p c20pair) String() string {
	if p == (c20pair{}) {
		return "-"
	}
	return fmt.Sprintf("%d.%d", p.S, p.C)
}

type c20vstate [c20maxEnt]c20pair

type c20vlan struct {
	c        *sim.Ctx
	cfg      nexus.VLANAllocatorConfig
	v        *nexus.VLANAllocator
	nn, ncl  int
	store    [c20maxEnt]*nexus.NTE
	state    c20vstate
	ever     map[c20pair]bool // pairs that have been held by somebody and were released through the API since
	hist     c20hist
	segInit  c20vstate
	segConc  bool
	dupLoad  bool // a load produced two holders of one pair (reported once; later duplicates are consequences)
	reloaded bool // a load into the live allocator replaced a live pair
	sChoices []uint16
}

type c20vin struct {
	Kind string
	N    int
	S    uint16
}

type c20vout struct {
	P   c20pair
	Err bool
}

func c20nte(i int) string { return fmt.Sprintf("nte%d", i) }

func newC20vlan(c *sim.Ctx, nent, ncl int) *c20vlan {
	ns, nc := int(c.Case.Knob("ns", 2)), int(c.Case.Knob("nc", 3))
	if ns < 1 || ns > 3 {
		ns = 2
	}
	if nc < 1 || nc > 4 {
		nc = 3
	}
	w := &c20vlan{c: c, nn: nent, ncl: ncl, ever: map[c20pair]bool{}}
	w.cfg = nexus.VLANAllocatorConfig{STagRange: nexus.VLANRange{Start: 200, End: uint16(200 + ns - 1)},
		CTagRange: nexus.VLANRange{Start: 30, End: uint16(30 + nc - 1)}}
	w.v = nexus.NewVLANAllocator(w.cfg)
	// outer tags offered to AllocateWithSTag: first, last, just below, just above the range
	w.sChoices = []uint16{w.cfg.STagRange.Start, w.cfg.STagRange.End, w.cfg.STagRange.Start - 1, w.cfg.STagRange.End + 1}
	w.state = w.snapshot()
	w.segInit = w.state
	return w
}

func (w *c20vlan) inS(s uint16) bool { return s >= w.cfg.STagRange.Start && s <= w.cfg.STagRange.End }
func (w *c20vlan) inC(t uint16) bool { return t >= w.cfg.CTagRange.Start && t <= w.cfg.CTagRange.End }

func (w *c20vlan) barrier(k string) bool { return k == "storeput" || k == "reload" || k == "restart" }

func (w *c20vlan) decode(op sim.Op) c20vin {
	in := c20vin{Kind: op.K, N: c20idx(op.Arg(1), w.nn)}
	if op.K == "allocs" {
		in.S = w.sChoices[c20idx(op.Arg(2), len(w.sChoices))]
	}
	return in
}

// call performs one API operation and records it.
func (w *c20vlan) call(client int, in c20vin) c20vout {
	var out c20vout
	id := c20nte(in.N)
	st := w.hist.call()
	switch in.Kind {
	case "alloc":
		a, err := w.v.Allocate(id)
		if err != nil || a == nil {
			out.Err = true
		} else {
			out.P = c20pair{a.STag, a.CTag}
			if a.NTEID != id {
				w.c.Fail("lookups-agree", "vlan/allocate/wrong-owner", "Allocate(%s) returned an allocation owned by %q", id, a.NTEID)
			}
		}
	case "allocs":
		a, err := w.v.AllocateWithSTag(id, in.S)
		if err != nil || a == nil {
			out.Err = true
		} else {
			out.P = c20pair{a.STag, a.CTag}
			if a.NTEID != id {
				w.c.Fail("lookups-agree", "vlan/allocate-with-stag/wrong-owner", "AllocateWithSTag(%s) returned an allocation owned by %q", id, a.NTEID)
			}
		}
	case "release":
		w.v.Release(id)
	case "get":
		if a, ok := w.v.Get(id); ok && a != nil {
			out.P = c20pair{a.STag, a.CTag}
			if a.NTEID != id {
				w.c.Fail("lookups-agree", "vlan/get/wrong-owner", "Get(%s) returned an allocation owned by %q", id, a.NTEID)
			}
		}
	case "sync":
		n := w.store[in.N]
		if n == nil {
			n = &nexus.NTE{ID: id}
		}
		if err := w.v.SyncToNTE(n); err != nil {
			out.Err = true
		} else {
			out.P = c20pair{n.STag, n.CTag}
			w.store[in.N] = n
		}
	}
	if in.Kind != "sync" {
		w.hist.ret(client, in, out, st)
	}
	if (in.Kind == "alloc" || in.Kind == "allocs") && !out.Err {
		delete(w.ever, out.P) // held again
	}
	return out
}

func (w *c20vlan) snapshot() c20vstate {
	var st c20vstate
	for n := 0; n < w.nn; n++ {
		st[n] = w.call(w.ncl, c20vin{Kind: "get", N: n}).P
	}
	h := uint64(14695981039346656037)
	for _, p := range st {
		h = (h ^ uint64(p.S)<<16 ^ uint64(p.C)) * 1099511628211
	}
	w.c.State(h ^ 0x20)
	return st
}

func (st c20vstate) holder(p c20pair, except int) int {
	if p == (c20pair{}) {
		return -1
	}
	for n, q := range st {
		if n != except && q == p {
			return n
		}
	}
	return -1
}

func c20vdiff(a, b c20vstate, except int) int {
	for n := range a {
		if n != except && a[n] != b[n] {
			return n
		}
	}
	return -1
}

// releasedFree: an in-range pair that was held before and is free in st.
func (w *c20vlan) releasedFree(st c20vstate, onlyS uint16) (c20pair, bool) {
	for s := w.cfg.STagRange.Start; s <= w.cfg.STagRange.End; s++ {
		if onlyS != 0 && s != onlyS {
			continue
		}
		for t := w.cfg.CTagRange.Start; t <= w.cfg.CTagRange.End; t++ {
			p := c20pair{s, t}
			if w.ever[p] && st.holder(p, -1) < 0 {
				return p, true
			}
		}
	}
	return c20pair{}, false
}

func (w *c20vlan) dupSuffix() string {
	if w.dupLoad {
		return "/after-conflicting-load"
	}
	return ""
}

func (w *c20vlan) seq(op sim.Op) {
	c := w.c
	switch op.K {
	case "storeput":
		// a record written by another node / an earlier incarnation
		n := c20idx(op.Arg(1), w.nn)
		ns := int(w.cfg.STagRange.End-w.cfg.STagRange.Start) + 1
		nc := int(w.cfg.CTagRange.End-w.cfg.CTagRange.Start) + 1
		k := c20idx(op.Arg(2), ns*nc)
		w.store[n] = &nexus.NTE{ID: c20nte(n), STag: w.cfg.STagRange.Start + uint16(k/nc), CTag: w.cfg.CTagRange.Start + uint16(k%nc)}
		c.S.Logf("store %s := %d.%d", c20nte(n), w.store[n].STag, w.store[n].CTag)
		return
	case "reload", "restart":
		w.load(op.K)
		return
	}
	in := w.decode(op)
	pre := w.state
	out := w.call(0, in)
	post := w.snapshot()
	w.state = post
	c.S.Logf("%s %s s=%d -> %v err=%v", in.Kind, c20nte(in.N), in.S, out.P, out.Err)
	n := in.N
	name := map[string]string{"alloc": "allocate", "allocs": "allocate-with-stag", "release": "release", "get": "get", "sync": "sync"}[in.Kind]
	if o := c20vdiff(pre, post, n); o >= 0 {
		c.Fail("others-unchanged", "vlan/"+name+"/other-changed", "%s(%s) changed the pair of %s from %v to %v", name, c20nte(n), c20nte(o), pre[o], post[o])
	}
	held := pre[n] != (c20pair{})
	if held && post[n] != pre[n] && (in.Kind == "release" || (in.Kind == "allocs" && !out.Err)) {
		w.ever[pre[n]] = true // released through the API (Release, or re-allocation under another outer tag)
	}
	switch in.Kind {
	case "alloc", "allocs":
		same := held && (in.Kind == "alloc" || pre[n].S == in.S)
		switch {
		case same && out.Err:
			c.Fail("same-key", "vlan/"+name+"/error-while-held", "%s(%s) failed although it holds %v", name, c20nte(n), pre[n])
		case same && out.P != pre[n]:
			c.Fail("same-key", "vlan/"+name+"/changed-while-held", "%s(%s) returned %v, it already holds %v", name, c20nte(n), out.P, pre[n])
		case same:
		case out.Err:
			onlyS := uint16(0)
			if in.Kind == "allocs" {
				onlyS = in.S
			}
			if p, ok := w.releasedFree(pre, onlyS); ok && (in.Kind == "alloc" || w.inS(in.S)) {
				sfx := ""
				if w.reloaded {
					sfx = "/after-reload"
				}
				c.Fail("reusable", "vlan/"+name+"/exhausted-with-released-pair-free"+sfx, "%s(%s) failed although the released pair %v is held by nobody", name, c20nte(n), p)
			}
			if held && post[n] == (c20pair{}) {
				c.S.Probe("vlan_failed_realloc_lost_old_pair")
			} else if post[n] != pre[n] {
				c.Fail("same-key", "vlan/"+name+"/error-but-changed", "%s(%s) failed but its pair changed from %v to %v", name, c20nte(n), pre[n], post[n])
			}
		default:
			if in.Kind == "allocs" && out.P.S != in.S {
				c.Fail("lookups-agree", "vlan/allocate-with-stag/wrong-stag", "AllocateWithSTag(%s,%d) returned %v", c20nte(n), in.S, out.P)
			}
			if !w.inS(out.P.S) {
				c.Fail("in-range", "vlan/"+name+"/stag-outside-range", "%s(%s) returned %v, configured outer range %d-%d", name, c20nte(n), out.P, w.cfg.STagRange.Start, w.cfg.STagRange.End)
			}
			if !w.inC(out.P.C) {
				c.Fail("in-range", "vlan/"+name+"/ctag-outside-range", "%s(%s) returned %v, configured inner range %d-%d", name, c20nte(n), out.P, w.cfg.CTagRange.Start, w.cfg.CTagRange.End)
			}
			if o := pre.holder(out.P, n); o >= 0 {
				c.Fail("unique", "vlan/"+name+"/dup-pair"+w.dupSuffix(), "%s(%s) returned %v which %s holds", name, c20nte(n), out.P, c20nte(o))
			}
			if post[n] != out.P {
				c.Fail("lookups-agree", "vlan/"+name+"/not-recorded", "%s(%s) returned %v but Get returns %v", name, c20nte(n), out.P, post[n])
			}
		}
	case "release":
		if post[n] != (c20pair{}) {
			c.Fail("release", "vlan/release/still-held", "after Release(%s) Get still returns %v", c20nte(n), post[n])
		}
	case "get":
		if out.P != pre[n] {
			c.Fail("lookups-agree", "vlan/get/mismatch", "Get(%s) returned %v, expected %v", c20nte(n), out.P, pre[n])
		}
	case "sync":
		if held == out.Err || (held && out.P != pre[n]) {
			c.Fail("lookups-agree", "vlan/sync/mismatch", "SyncToNTE(%s) wrote %v err=%v, the allocator holds %v", c20nte(n), out.P, out.Err, pre[n])
		}
	}
}

// load replays the stored NTE records into the live allocator (reload) or into
// a fresh one (restart), as a node reading its store would.
func (w *c20vlan) load(kind string) {
	c := w.c
	w.lin()
	pre := w.state
	var recs []*nexus.NTE
	desc := ""
	for n := 0; n < w.nn; n++ {
		if w.store[n] != nil {
			cp := *w.store[n]
			recs = append(recs, &cp)
			desc += fmt.Sprintf(" %s=%d.%d", cp.ID, cp.STag, cp.CTag)
		}
	}
	if kind == "restart" {
		w.v = nexus.NewVLANAllocator(w.cfg)
		pre = c20vstate{}
	}
	if err := w.v.LoadFromStore(context.Background(), recs); err != nil {
		c.S.Logf("%s failed: %v", kind, err)
	}
	c.S.Logf("%s stored:%s", kind, desc)
	post := w.snapshot()
	w.state, w.segInit = post, post
	for n := 0; n < w.nn; n++ {
		stored := c20pair{}
		if w.store[n] != nil {
			stored = c20pair{w.store[n].STag, w.store[n].CTag}
		}
		if post[n] != (c20pair{}) && post[n] != stored && post[n] != pre[n] {
			c.Fail("lookups-agree", "vlan/"+kind+"/invented-pair", "after %s %s holds %v (stored %v, held before %v)", kind, c20nte(n), post[n], stored, pre[n])
		}
		if kind == "reload" && pre[n] != (c20pair{}) && post[n] != pre[n] {
			w.reloaded = true
		}
		if o := post.holder(post[n], n); o > n && !w.dupLoad {
			c.Fail("unique", "vlan/"+kind+"/dup-pair", "after %s (stored records:%s) the pair %v identifies both %s and %s", kind, desc, post[n], c20nte(n), c20nte(o))
			w.dupLoad = true
		}
	}
	if w.dupLoad {
		// when the finding is a listed one the run goes on: drop the NTEs that share a
		// pair (and their stored records) so that the remaining checks start from a
		// consistent allocator instead of re-reporting consequences of the same load
		for n := 0; n < w.nn; n++ {
			if post.holder(post[n], n) >= 0 {
				w.v.Release(c20nte(n))
				w.store[n] = nil
			}
		}
		w.dupLoad = false
		w.state = w.snapshot()
		w.segInit = w.state
	}
	w.hist.ops = nil // the next segment starts from segInit
}

func (w *c20vlan) par(client int, op sim.Op) {
	in := w.decode(op)
	out := w.call(client, in)
	w.segConc = true
	w.c.S.Logf("c%d %s %s s=%d -> %v err=%v", client, in.Kind, c20nte(in.N), in.S, out.P, out.Err)
}

func (w *c20vlan) quiesce() {
	c := w.c
	post := w.snapshot()
	w.state = post
	for n := 0; n < w.nn; n++ {
		p := post[n]
		if p == (c20pair{}) {
			continue
		}
		if o := post.holder(p, n); o > n {
			c.Fail("unique", "vlan/conc/dup-pair"+w.dupSuffix(), "at a quiescent point the pair %v identifies both %s and %s", p, c20nte(n), c20nte(o))
		}
	}
}

// model for porcupine: any valid pair is accepted, failures are always legal.
func (w *c20vlan) model(init c20vstate, relaxRange bool) func(steps *int, budget int) porcupine.Model {
	return func(steps *int, budget int) porcupine.Model {
		return porcupine.Model{
			Init: func() interface{} { return init },
			Step: func(state, input, output interface{}) (bool, interface{}) {
				*steps++
				if *steps > budget {
					return false, state
				}
				st := state.(c20vstate)
				in, out := input.(c20vin), output.(c20vout)
				switch in.Kind {
				case "alloc", "allocs":
					held := st[in.N] != (c20pair{})
					if held && (in.Kind == "alloc" || st[in.N].S == in.S) {
						return !out.Err && out.P == st[in.N], st
					}
					if out.Err {
						// (histories with a failed re-allocation of a held NTE are not checked:
						// whether the old pair survives is not specified)
						return true, st
					}
					if in.Kind == "allocs" && out.P.S != in.S {
						return false, st
					}
					if !relaxRange && (!w.inS(out.P.S) || !w.inC(out.P.C)) {
						return false, st
					}
					if st.holder(out.P, in.N) >= 0 {
						return false, st
					}
					st[in.N] = out.P
					return true, st
				case "release":
					st[in.N] = c20pair{}
					return true, st
				default:
					return out.P == st[in.N], st
				}
			},
		}
	}
}

// lin checks the concurrent segment since the last load.
func (w *c20vlan) lin() {
	c := w.c
	hist := w.hist.ops
	w.hist.ops = nil
	conc := w.segConc
	w.segConc = false
	if !conc || c.Failed() || w.dupLoad {
		return
	}
	// failed re-allocations of a held NTE make the deterministic model ambiguous: skip those histories
	for _, o := range hist {
		in, out := o.Input.(c20vin), o.Output.(c20vout)
		if in.Kind == "allocs" && out.Err {
			c.S.Probe("vlan_lin_skipped_failed_realloc")
			return
		}
	}
	c.S.Probe("lin_checked")
	switch c20check(w.model(w.segInit, false), hist) {
	case "unknown":
		c.S.Probe("lin_unknown")
	case "illegal":
		cls := "other"
		if c20check(w.model(w.segInit, true), hist) == "ok" {
			cls = "outside-range"
		}
		c.Fail("linearizable", "vlan/lin/"+cls, "concurrent history not linearizable against the bijection model (%s):%s", cls,
			c20describe(hist, w.ncl, func(i, o interface{}) string {
				in, out := i.(c20vin), o.(c20vout)
				return fmt.Sprintf("%s(%s,s=%d)->%v err=%v", in.Kind, c20nte(in.N), in.S, out.P, out.Err)
			}))
	}
}

func (w *c20vlan) finish() {
	c := w.c
	w.lin()
	if c.Failed() || w.dupLoad {
		return
	}
	// every released pair must be reusable: release everything, then allocate
	// as many fresh NTEs as the ranges hold pairs
	for n := 0; n < w.nn; n++ {
		if w.state[n] != (c20pair{}) {
			w.ever[w.state[n]] = true
		}
		w.v.Release(c20nte(n))
	}
	if st := w.snapshot(); st != (c20vstate{}) {
		c.Fail("release", "vlan/release/still-held", "after releasing every NTE Get still returns %v", st)
		return
	}
	seen := map[c20pair]string{}
	want := 0
	for p := range w.ever {
		if w.inS(p.S) && w.inC(p.C) {
			want++
		}
	}
	got := 0
	total := (int(w.cfg.STagRange.End-w.cfg.STagRange.Start) + 1) * (int(w.cfg.CTagRange.End-w.cfg.CTagRange.Start) + 1)
	for i := 0; i < total; i++ {
		id := fmt.Sprintf("fresh%d", i)
		a, err := w.v.Allocate(id)
		if err != nil {
			break
		}
		p := c20pair{a.STag, a.CTag}
		if o, dup := seen[p]; dup {
			c.Fail("unique", "vlan/allocate/dup-pair", "Allocate(%s) returned %v which %s holds", id, p, o)
			return
		}
		seen[p] = id
		if w.ever[p] {
			got++
		}
	}
	if got < want {
		sfx := ""
		if w.reloaded {
			sfx = "/after-reload"
		}
		c.Fail("reusable", "vlan/reuse/released-pair-never-reissued"+sfx, "after releasing every NTE only %d of the %d in-range pairs released during the run could be allocated again (%d pairs configured)", got, want, total)
	}
}
