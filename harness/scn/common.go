// Package scn holds one scenario per property (files cNN*.go) for the /verif
// deterministic simulator. Files named common*.go are shared by all builds;
// every other file is only compiled into the checks whose prefix list
// (SCN_FILES in /verif/check) names it.
package scn
