package scn

import (
	"context"
	"encoding/json"
	"fmt"
	"hash/fnv"
	"net"
	"sort"
	"strings"
	"time"

	"github.com/codelaboratoryltd/bng/pkg/allocator"
	"github.com/codelaboratoryltd/bng/pkg/simrt"

	"verif/harness/sim"
)

// C12 — allocations survive restart and replication unchanged.
//
// Variants:
//   session, lease             1 real DistributedAllocator over the simulated store
//   session-multi, lease-multi 2-3 real DistributedAllocators sharing the store
//   pool                       real PoolAllocator over a failing AllocationStore wrapper
//   json-ip, json-epoch, json-store   Marshal/Unmarshal observational equality
//
// The driver (task main) executes the generated ops one at a time (two at a
// time after a "par" op); every call into a node runs in a task fenced by the
// node's token, so a crash chosen at a store call simply stops that node.

const c12PoolID = "p12"

type c12poolCfg struct {
	base      string
	prefixLen int
}

var c12sessionPools = []c12poolCfg{
	{"10.12.0.0/29", 32},        // 8 x /32
	{"10.12.0.0/30", 32},        // 4 x /32
	{"10.12.0.0/28", 30},        // 4 x /30
	{"10.12.0.0/28", 31},        // 8 x /31
	{"2001:db8:12:10::/61", 64}, // 8 x /64
	{"2001:db8:12::/126", 128},  // 4 x /128
}

var c12leasePools = []c12poolCfg{
	{"10.12.1.0/29", 32}, // 6 usable
	{"10.12.1.0/30", 32}, // 2 usable
	{"10.12.1.0/28", 32}, // 14 usable
}

// c12touch is the last thing that determined node n's answer for a subscriber.
type c12touch struct {
	event             bool // true: a delivered watch notification; false: a local operation
	deleted           bool
	prefix            string
	before            string // the node's answer just before the delivery
	holder, holderRec string
	nodeEpoch         uint64
	ctx               string // delivery-fault context of the receiving node at delivery
	seq               int
	ticks             int
	from              int
	recEpoch          uint64
}

type c12slot struct {
	idx    int
	tok    *simrt.Node
	da     *allocator.DistributedAllocator
	h      *c12handle
	cancel context.CancelFunc
	up     bool
	gen    int
	// fault plan (consumed by whichever incarnation makes the next store calls)
	errIn             int
	crashIn           int
	crashBefore       bool
	downHow           string // how the previous incarnation ended: crash | stop
	ticks             int    // epoch ticks observed (Query calls outside Start)
	touch             map[string]*c12touch
	lastQueryPermuted bool
}

type c12world struct {
	c     *sim.Ctx
	st    *c12store
	mode  allocator.PoolMode
	lease bool
	pool  c12poolCfg
	slots []*c12slot
	subs  []string
	epoch time.Duration
	grace int // lease mode: configured grace period (epochs)
	lazy  bool
}

func c12sub(i int64) string { return fmt.Sprintf("s%d", ((i%6)+6)%6) }

func c12recPrefix(val []byte) string {
	if len(val) == 0 {
		return ""
	}
	var a allocator.DistributedAllocation
	if json.Unmarshal(val, &a) != nil {
		return "?"
	}
	return a.Prefix
}

func c12key(sub string) string { return "/allocation/" + c12PoolID + "/" + sub }

// record returns the stored prefix for sub ("" if there is no record).
func (w *c12world) record(sub string) string {
	return c12recPrefix(w.st.data[c12key(sub)])
}

func (w *c12world) cfg() allocator.DistributedConfig {
	return allocator.DistributedConfig{PoolID: c12PoolID, BaseNetwork: w.pool.base, PrefixLen: w.pool.prefixLen,
		Mode: w.mode, EpochPeriod: w.epoch, EpochGrace: w.grace}
}

// get asks a live, idle node for its answer ("" = none).
func (w *c12world) get(sl *c12slot, sub string) string {
	p, ok := sl.da.Get(sub)
	if !ok || p == nil {
		return ""
	}
	return p.String()
}

// start brings slot sl up as a new incarnation over the shared store. It
// returns false if Start failed or the node crashed while starting.
func (w *c12world) start(sl *c12slot) bool {
	c := w.c
	sl.gen++
	sl.tok = &simrt.Node{Name: fmt.Sprintf("n%d.%d", sl.idx, sl.gen)}
	sl.h = &c12handle{st: w.st, slot: sl, tok: sl.tok, delivered: map[string]int{}, applied: map[string]int{}, ownWrite: map[string]int{}}
	sl.touch = map[string]*c12touch{}
	sl.lastQueryPermuted = false
	da, err := allocator.NewDistributedAllocator(w.cfg(), sl.h)
	if err != nil {
		panic(err)
	}
	sl.h.da = da
	ctx, cancel := context.WithCancel(context.Background())
	var serr error
	done := false
	h := sl.h
	t := c.S.Spawn(fmt.Sprintf("start-n%d", sl.idx), sl.tok, func() {
		serr = da.Start(ctx)
		h.startDone = true
		done = true
	})
	c.S.Join(t)
	if sl.tok.Dead() {
		cancel()
		sl.up, sl.downHow = false, "crash"
		c.S.Logf("n%d crashed during Start", sl.idx)
		c.S.Probe("crash_during_start")
		return false
	}
	if !done || serr != nil {
		// Start failed (injected Query error): the process exits
		cancel()
		c.S.Kill(sl.tok)
		w.st.dropWatchers(sl.h)
		sl.up = false
		c.S.Logf("n%d Start failed: %v", sl.idx, serr != nil)
		c.S.Probe("start_failed_query_error")
		return false
	}
	sl.da, sl.cancel, sl.up = da, cancel, true
	c.S.Logf("n%d started gen=%d", sl.idx, sl.gen)
	return true
}

// stop is a clean stop: nothing in flight, queues drained, context cancelled.
func (w *c12world) stop(sl *c12slot) {
	if !sl.up {
		return
	}
	c := w.c
	w.settle()
	sl.cancel()
	w.st.dropWatchers(sl.h)
	c.S.Sleep(time.Millisecond) // the epoch loop and the watch pump observe the shutdown and return
	c.S.Kill(sl.tok)
	sl.up, sl.downHow = false, "stop"
	c.S.Fault("crash.graceful")
}

func (w *c12world) settle() {
	w.st.releaseHolds()
	w.c.S.WaitUntil(w.st.settled)
}

// noteDead marks a slot whose node was killed inside a store call.
func (w *c12world) noteDead(sl *c12slot) {
	if sl.up && sl.tok.Dead() {
		sl.up, sl.downHow = false, "crash"
		if sl.cancel != nil {
			sl.cancel()
		}
		w.c.S.Logf("n%d is down (crash)", sl.idx)
	}
}

type c12opres struct {
	slot     *c12slot
	kind     string
	sub      string
	task     *simrt.Task
	done     bool
	err      error
	got      string
	preMem   string
	preRec   string
	preOK    bool
	withMAC  bool
	preDeliv int  // notifications for sub delivered to the node before the call
	preBusy  bool // one of them was still being applied
}

// pre records what memory and store said about the subscriber before the call.
func (w *c12world) pre(r *c12opres) {
	sl := r.slot
	r.preMem = w.get(sl, r.sub)
	r.preRec = w.record(r.sub)
	r.preOK = r.preMem == r.preRec
	r.preDeliv = sl.h.delivered[r.sub]
	r.preBusy = sl.h.delivered[r.sub] != sl.h.applied[r.sub]
}

// launch starts one API call on a node as a fenced task.
func (w *c12world) launch(r *c12opres) {
	c := w.c
	sl, kind, sub := r.slot, r.kind, r.sub
	da := sl.da
	cctx, cancel := context.WithCancel(context.Background())
	ctx := context.WithValue(cctx, c12cancelKey{}, cancel)
	// the operation decides the node's answer for sub from now on
	sl.touch[sub] = &c12touch{}
	r.task = c.S.Spawn(fmt.Sprintf("op-n%d", sl.idx), sl.tok, func() {
		switch kind {
		case "alloc":
			var p *net.IPNet
			if r.withMAC {
				p, r.err = da.AllocateWithMAC(ctx, sub, net.HardwareAddr{2, 0, 0, 0, 0x12, sub[1]})
			} else {
				p, r.err = da.Allocate(ctx, sub)
			}
			if p != nil {
				r.got = p.String()
			}
		case "release":
			r.err = da.Release(ctx, sub)
		case "renew":
			r.err = da.Renew(ctx, sub)
		}
		sl.touch[sub] = &c12touch{}
		r.done = true
	})
}

func c12Run(c *sim.Ctx) {
	switch c.Case.Variant {
	case "pool":
		c12RunPool(c)
	case "json-ip", "json-epoch", "json-store":
		c12RunJSON(c)
	default:
		c12RunDist(c)
	}
}

func c12RunDist(c *sim.Ctx) {
	cs := c.Case
	w := &c12world{c: c, st: newC12Store(c)}
	w.lease = strings.HasPrefix(cs.Variant, "lease")
	w.grace = 1
	if cs.Knob("grace", 1) == 2 {
		w.grace = 2
	}
	w.st.deadline = cs.Knob("deadline", 0) == 1
	if w.lease {
		w.mode = allocator.PoolModeLease
		w.pool = c12leasePools[int(cs.Knob("pool", 0))%len(c12leasePools)]
	} else {
		w.mode = allocator.PoolModeSession
		w.pool = c12sessionPools[int(cs.Knob("pool", 0))%len(c12sessionPools)]
	}
	w.epoch = time.Duration(cs.Knob("epoch_s", 600)) * time.Second
	w.lazy = cs.Knob("lazy", 0) == 1
	w.st.noEcho = cs.Knob("noecho", 0) == 1
	w.st.errPm = int(cs.Knob("f_err_pm", 0))
	w.st.crashPm = int(cs.Knob("f_crash_pm", 0))
	w.st.maxCrash = int(cs.Knob("f_maxcrash", 0))
	w.st.watchPm = int(cs.Knob("f_watch_pm", 0))
	w.installOracleHooks()
	nn := int(cs.Knob("nodes", 1))
	if nn < 1 {
		nn = 1
	}
	if nn > 3 {
		nn = 3
	}
	for i := 0; i < 6; i++ {
		w.subs = append(w.subs, fmt.Sprintf("s%d", i))
	}
	for i := 0; i < nn; i++ {
		sl := &c12slot{idx: i}
		w.slots = append(w.slots, sl)
		// nodes come up a little apart so their tickers do not share an instant
		c.S.Sleep(time.Duration(7+3*i) * time.Millisecond)
		w.start(sl)
	}
	slotOf := func(a int64) *c12slot { return w.slots[int(((a%int64(nn))+int64(nn))%int64(nn))] }

	var pending []*c12opres
	par := false
	finish := func() {
		if len(pending) == 0 {
			return
		}
		var ts []*simrt.Task
		var rawBefore []byte
		if len(pending) == 1 {
			rawBefore = append([]byte(nil), w.st.data[c12key(pending[0].sub)]...)
		}
		for _, r := range pending {
			w.pre(r)
		}
		for _, r := range pending {
			w.launch(r)
			ts = append(ts, r.task)
		}
		c.S.Join(ts...)
		for _, r := range pending {
			w.noteDead(r.slot)
		}
		for _, r := range pending {
			w.afterOp(r, pending)
		}
		if len(pending) == 1 {
			w.soloRules(pending[0], rawBefore)
		}
		wasPar := par && len(pending) > 1
		pending, par = nil, false
		if !w.lazy {
			w.settle()
			w.checkWatch()
			if wasPar {
				w.sweepAgreement("par")
			}
		}
	}

	for i, op := range cs.Ops {
		c.OpIdx = i
		if c.Failed() {
			break
		}
		switch op.K {
		case "alloc", "release", "renew":
			sl := slotOf(op.Arg(0))
			if !sl.up {
				continue
			}
			if op.K == "renew" && !w.lease {
				continue
			}
			busy := false
			for _, r := range pending {
				if r.slot == sl && r.sub == c12sub(op.Arg(1)) {
					// two overlapping calls of one node for one subscriber only as (allocate|renew) vs release
					if par && (r.kind == "release") != (op.K == "release") {
						c.S.Probe("par_same_subscriber_" + r.kind + "_vs_" + op.K)
						continue
					}
					busy = true
				}
			}
			if busy {
				continue
			}
			pending = append(pending, &c12opres{slot: sl, kind: op.K, sub: c12sub(op.Arg(1)), withMAC: op.Arg(2) == 1})
			if par && len(pending) < 2 {
				continue
			}
			finish()
		case "par":
			par = true
		case "errat":
			sl := slotOf(op.Arg(0))
			sl.errIn = 1 + int(op.Arg(1))%4
		case "crashat":
			sl := slotOf(op.Arg(0))
			sl.crashIn = 1 + int(op.Arg(1))%4
			sl.crashBefore = op.Arg(2) == 1
		case "stop":
			finish()
			w.stop(slotOf(op.Arg(0)))
		case "restart":
			finish()
			sl := slotOf(op.Arg(0))
			w.stop(sl)
			w.restartAndCheck(sl)
		case "tick":
			finish()
			// advance virtual time across 0-2 epoch boundaries of the live nodes
			d := time.Duration(op.Arg(0)%5) * w.epoch / 2
			c.S.Sleep(d + 11*time.Millisecond)
			for _, sl := range w.slots {
				w.noteDead(sl)
			}
			if !w.lazy {
				w.settle()
				w.checkWatch()
				w.sweepAgreement("tick")
			}
		case "settle":
			finish()
			w.settle()
			w.checkWatch()
		}
		w.stateHash()
	}
	finish()
	if c.Failed() {
		w.teardown()
		return
	}
	// ---- fault-free tail: every node stops cleanly (or is already down) and
	// restarts from the store --------------------------------------------------
	c.OpIdx = len(cs.Ops)
	w.st.quiet = true
	w.settle()
	w.checkWatch()
	w.sweepAgreement("end")
	if !c.Failed() {
		w.checkInnerJSON()
	}
	for _, sl := range w.slots {
		if c.Failed() {
			break
		}
		sl.errIn, sl.crashIn = 0, 0
		w.stop(sl)
		w.restartAndCheck(sl)
	}
	w.stateHash()
	w.teardown()
}

func (w *c12world) teardown() {
	c := w.c
	w.st.quiet = true
	for _, sl := range w.slots {
		if sl.cancel != nil {
			sl.cancel()
		}
	}
	w.st.closeAll()
	c.S.Sleep(time.Millisecond)
}

func (w *c12world) stateHash() {
	h := fnv.New64a()
	keys := w.st.keys("")
	for _, k := range keys {
		fmt.Fprintf(h, "%s=%s;", k, c12recPrefix(w.st.data[k]))
	}
	for _, sl := range w.slots {
		fmt.Fprintf(h, "|%d:%v:%d", sl.idx, sl.up, sl.gen)
	}
	w.c.State(h.Sum64())
}

// ---------------------------------------------------------------------------

func c12Gen(r *sim.Rand, tier string) *sim.Case {
	cs := &sim.Case{Knobs: map[string]int64{}}
	cs.Variant = sim.Pick(r, "session", "session", "lease", "lease", "session-multi", "session-multi", "lease-multi", "lease-multi",
		"pool", "json-ip", "json-epoch", "json-store")
	cs.Knobs["skipmax"] = int64(sim.Pick(r, 1, 2, 8, 32, 32))
	cs.Knobs["maporder"] = int64(r.N(4))
	n := r.Range(5, 18)
	if tier == "thorough" {
		n = r.Range(5, 30)
	}
	switch cs.Variant {
	case "pool":
		c12GenPool(r, cs, n)
		return cs
	case "json-ip", "json-epoch", "json-store":
		c12GenJSON(r, cs, n)
		return cs
	}
	lease := strings.HasPrefix(cs.Variant, "lease")
	multi := strings.HasSuffix(cs.Variant, "-multi")
	nodes := 1
	if multi {
		nodes = r.Range(2, 3)
	}
	cs.Knobs["nodes"] = int64(nodes)
	if lease {
		cs.Knobs["pool"] = int64(r.Weighted(5, 2, 3))
	} else {
		cs.Knobs["pool"] = int64(r.Weighted(5, 3, 2, 2, 2, 1))
	}
	cs.Knobs["epoch_s"] = int64(sim.Pick(r, 60, 600, 3600))
	cs.Knobs["grace"] = 1 // lease mode: configured grace period in epochs
	if !multi && r.P(35) {
		// (one node only: across nodes, records carry another process's epoch numbers - a known finding)
		cs.Knobs["grace"] = 2
	}
	cs.Knobs["deadline"] = int64(r.Weighted(2, 1)) // 1: an injected store write failure is the caller's deadline firing
	cs.Knobs["noecho"] = int64(r.Weighted(3, 1))
	if multi {
		cs.Knobs["lazy"] = int64(r.Weighted(3, 2))
		if r.P(50) {
			cs.Knobs["f_watch_pm"] = int64(sim.Pick(r, 100, 300, 600))
		}
	} else if r.P(30) {
		cs.Knobs["f_watch_pm"] = int64(sim.Pick(r, 100, 300))
	}
	if r.P(25) {
		cs.Knobs["f_err_pm"] = int64(sim.Pick(r, 30, 80, 200))
	}
	if r.P(25) {
		cs.Knobs["f_crash_pm"] = int64(sim.Pick(r, 20, 60, 150))
		cs.Knobs["f_maxcrash"] = int64(r.Range(1, 3))
	}
	nsub := r.Range(2, 6)
	if lease && !multi && r.P(20) {
		// keep-alive motif, fault-free: a subscriber keeps its lease alive by asking again (or
		// renewing) once per epoch for several epochs while others come and go, then the node restarts
		delete(cs.Knobs, "f_watch_pm")
		delete(cs.Knobs, "f_err_pm")
		delete(cs.Knobs, "f_crash_pm")
		keep := int64(r.N(nsub))
		cs.Ops = append(cs.Ops, sim.Op{K: "alloc", A: []int64{0, keep, 0}})
		for k := r.Range(3, 6); k > 0; k-- {
			cs.Ops = append(cs.Ops, sim.Op{K: "tick", A: []int64{2}})
			if r.P(70) {
				cs.Ops = append(cs.Ops, sim.Op{K: "alloc", A: []int64{0, keep, 0}})
			} else {
				cs.Ops = append(cs.Ops, sim.Op{K: "renew", A: []int64{0, keep}})
			}
			if r.P(40) {
				cs.Ops = append(cs.Ops, sim.Op{K: sim.Pick(r, "alloc", "alloc", "release"), A: []int64{0, int64(r.N(nsub)), 0}})
			}
		}
		cs.Ops = append(cs.Ops, sim.Op{K: "restart", A: []int64{0}})
		n = r.Range(0, 4)
	}
	if lease && !multi && len(cs.Ops) == 0 && r.P(15) {
		// late-caller motif, fault-free: a lease runs out in memory (its record still in the store),
		// then its holder releases or renews after all, others take addresses, the node restarts
		delete(cs.Knobs, "f_watch_pm")
		delete(cs.Knobs, "f_err_pm")
		delete(cs.Knobs, "f_crash_pm")
		late := int64(r.N(nsub))
		cs.Ops = append(cs.Ops, sim.Op{K: "alloc", A: []int64{0, late, 0}})
		for k := r.Range(2, 4); k > 0; k-- {
			cs.Ops = append(cs.Ops, sim.Op{K: "tick", A: []int64{int64(r.Range(1, 2))}})
		}
		cs.Ops = append(cs.Ops, sim.Op{K: sim.Pick(r, "release", "renew", "renew"), A: []int64{0, late}})
		for k := r.Range(1, 3); k > 0; k-- {
			cs.Ops = append(cs.Ops, sim.Op{K: "alloc", A: []int64{0, int64(r.N(nsub)), 0}})
		}
		if r.P(50) {
			cs.Ops = append(cs.Ops, sim.Op{K: "tick", A: []int64{1}})
		}
		cs.Ops = append(cs.Ops, sim.Op{K: "restart", A: []int64{0}})
		n = r.Range(0, 4)
	}
	for i := 0; i < n; i++ {
		node := int64(r.N(nodes))
		sub := int64(r.N(nsub))
		ww := []int{12, 5, 0, 3, 3, 1, 3, 2, 1, 1, 0}
		if lease {
			ww[2] = 4
			ww[7] = 4
			ww[10] = 3
		}
		if !multi {
			ww[9] = 1 // with one node: the next two operations overlap (same subscriber allowed for X vs release)
		}
		switch r.Weighted(ww...) {
		case 0:
			mac := int64(0)
			if r.P(20) {
				mac = 1
			}
			cs.Ops = append(cs.Ops, sim.Op{K: "alloc", A: []int64{node, sub, mac}})
		case 1:
			cs.Ops = append(cs.Ops, sim.Op{K: "release", A: []int64{node, sub}})
		case 2:
			cs.Ops = append(cs.Ops, sim.Op{K: "renew", A: []int64{node, sub}})
		case 3:
			cs.Ops = append(cs.Ops, sim.Op{K: "errat", A: []int64{node, int64(r.Weighted(6, 2, 1, 1))}})
		case 4:
			cs.Ops = append(cs.Ops, sim.Op{K: "crashat", A: []int64{node, int64(r.Weighted(5, 2, 1, 1)), int64(r.Weighted(3, 1))}})
		case 5:
			cs.Ops = append(cs.Ops, sim.Op{K: "stop", A: []int64{node}})
		case 6:
			cs.Ops = append(cs.Ops, sim.Op{K: "restart", A: []int64{node}})
		case 7:
			cs.Ops = append(cs.Ops, sim.Op{K: "tick", A: []int64{int64(r.Weighted(2, 3, 3, 1, 1))}})
		case 8:
			cs.Ops = append(cs.Ops, sim.Op{K: "settle"})
		case 9:
			cs.Ops = append(cs.Ops, sim.Op{K: "par"})
		case 10:
			// a renewal (or repeated request) overlapping the release of the same lease on one node
			a := sim.Op{K: sim.Pick(r, "renew", "renew", "alloc"), A: []int64{node, sub, 0}}
			b := sim.Op{K: "release", A: []int64{node, sub}}
			if r.P(50) {
				a, b = b, a
			}
			cs.Ops = append(cs.Ops, sim.Op{K: "alloc", A: []int64{node, sub, 0}}, sim.Op{K: "par"}, a, b)
		}
	}
	return cs
}

func c12sortedKeys(m map[string]string) []string {
	ks := make([]string, 0, len(m))
	for k := range m {
		ks = append(ks, k)
	}
	sort.Strings(ks)
	return ks
}

func init() {
	sim.Register(&sim.Scenario{
		ID:  "C12",
		Gen: c12Gen,
		Run: c12Run,
		Real: []string{"allocator.DistributedAllocator x1-3 (session + lease mode): Start (loadAllocations, Watch, epochLoop + cleanupExpiredFromStore), Allocate, AllocateWithMAC, Renew, Release, Get, GetByPrefix, handleRemoteChange, rollback paths",
			"allocator.IPAllocator, allocator.EpochBitmapAllocator (incl. MarshalJSON/UnmarshalJSON)", "allocator.PoolAllocator over allocator.MemoryAllocationStore behind a failing wrapper",
			"allocator.MemoryAllocationStore MarshalJSON/UnmarshalJSON"},
		Stub: []string{"distributed store backend (scn.c12store behind allocator.Store replaces nexus.MemoryStore/CLSet: tape-ordered Query, injectable errors, watch fan-out through scheduler tasks)",
			"AllocationStore failure injection wrapper around the real MemoryAllocationStore"},
		Rule:         "cases: 5-30 allocate/renew/release/tick/stop/restart/err-at/crash-at ops over <=6 subscribers, pools of 2-14 units, 1-3 nodes; crash before/after a chosen store call, Query order from the tape, watch delay/dup/reorder; overlapping (allocate|renew) vs release of one subscriber on one node, keep-alive motif over several epochs, lease grace 1 or 2 (single node), store write failures that coincide with the caller's context being cancelled; fault-free runs are swept for memory/store agreement, and a call that ran alone on one node in such a run must leave no record after Release and an unchanged record after a refused Renew; late-caller motif (a lease runs out in memory, then its holder releases or renews, others allocate, restart); fault-free tail restarts every node from the store; non-trivial = >=3 completed operations and (a fault fired or >2 context switches); distinct = distinct (case hash, schedule fingerprint)",
		QuickRuns:    20000,
		ThoroughRuns: 600000,
		Assumptions: []string{"the store itself is linearizable and a failed call has no effect (clean failure)", "a watcher registered by a crashed or stopped node receives nothing further",
			"restart oracle skips prefixes that two store records claim (multi-writer conflicts belong to C01/C17)",
			"store-failure oracle applies only when memory and store agreed for the subscriber before the failing operation",
			"watch oracle compares a node's answer with the last notification delivered to it for that subscriber, unless a local operation or an epoch tick on that node came later"},
	})
}
