package scn

import (
	"net"
	"time"

	cebpf "github.com/cilium/ebpf"
	"github.com/codelaboratoryltd/bng/pkg/dhcp"
	"github.com/codelaboratoryltd/bng/pkg/ebpf"
	"github.com/codelaboratoryltd/bng/pkg/qos"
	bngradius "github.com/codelaboratoryltd/bng/pkg/radius"
	"github.com/insomniacslk/dhcp/dhcpv4"
	"go.uber.org/zap"

	"verif/harness/sim"
)

// C19, variant dhcp: the contract reaches the kernel the way it does in
// production - dhcp.Server installs the subscriber's policy through
// qos.Manager when the session is set up and removes it when the lease ends.
// The data plane oracle is the one of the other variants; the control plane
// adds: a renewal of an unchanged session grants no new burst, and the
// subscriber an address is handed on to is policed by its own contract.

type c19conn struct{ onWrite func(b []byte) }

func (f *c19conn) ReadFrom(p []byte) (int, net.Addr, error) { select {} }
func (f *c19conn) WriteTo(p []byte, addr net.Addr) (int, error) {
	f.onWrite(append([]byte(nil), p...))
	return len(p), nil
}
func (f *c19conn) Close() error                       { return nil }
func (f *c19conn) LocalAddr() net.Addr                { return &net.UDPAddr{IP: net.IPv4zero, Port: 67} }
func (f *c19conn) SetDeadline(t time.Time) error      { return nil }
func (f *c19conn) SetReadDeadline(t time.Time) error  { return nil }
func (f *c19conn) SetWriteDeadline(t time.Time) error { return nil }

type c19dhcp struct {
	c      *sim.Ctx
	srv    *dhcp.Server
	conn   *c19conn
	egress *cebpf.Map
	rate   uint64
	macs   [2]net.HardwareAddr
	xid    [2]uint32
	offer  [2]net.IP
	bound  [2]net.IP
}

func newC19dhcp(c *sim.Ctx, pm *bngradius.PolicyManager, mgr *qos.Manager, egress *cebpf.Map, rate uint64, burst uint32) *c19dhcp {
	pm.LoadDefaultPolicies()
	// the policy the server applies to sessions without one of their own, with this run's limits
	pm.AddPolicy(&bngradius.QoSPolicy{Name: "residential-100mbps", DownloadBPS: rate, UploadBPS: rate, BurstSize: burst, Priority: 3})
	loader, _ := ebpf.VerifNewLoaderWithMaps("sim0", zap.NewNop(), ebpf.VerifMaps{})
	network := "10.7.0.0/29"
	if c.Case.Knob("smallpool", 0) == 1 {
		network = "10.7.0.0/30" // a pool down to its last free address: a released address goes straight to the next client
	}
	pool, err := dhcp.NewPool(dhcp.PoolConfig{ID: 1, Name: "p", Network: network, Gateway: "10.7.0.1", DNSServers: []string{"9.9.9.9"},
		LeaseTime: time.Hour, ClientClass: dhcp.ClientClassResidential})
	if err != nil {
		panic(err)
	}
	pmgr := dhcp.NewPoolManager(loader, zap.NewNop())
	pmgr.AddPool(pool)
	srv, err := dhcp.NewServer(dhcp.ServerConfig{Interface: "sim0", ServerIP: net.IPv4(10, 7, 0, 1)}, loader, pmgr, zap.NewNop())
	if err != nil {
		panic(err)
	}
	srv.SetPolicyManager(pm)
	srv.SetQoSManager(mgr)
	d := &c19dhcp{c: c, srv: srv, egress: egress, rate: rate}
	for i := range d.macs {
		d.macs[i] = net.HardwareAddr{0x02, 0xc1, 0x90, 0, 0, byte(i + 1)}
	}
	d.conn = &c19conn{onWrite: func(b []byte) {
		m, err := dhcpv4.FromBytes(b)
		if err != nil {
			return
		}
		for i := range d.macs {
			if m.ClientHWAddr.String() != d.macs[i].String() {
				continue
			}
			switch m.MessageType() {
			case dhcpv4.MessageTypeOffer:
				d.offer[i] = m.YourIPAddr.To4()
			case dhcpv4.MessageTypeAck:
				d.bound[i] = m.YourIPAddr.To4()
			case dhcpv4.MessageTypeNak:
				d.offer[i], d.bound[i] = nil, nil
			}
		}
	}}
	return d
}

func (d *c19dhcp) send(i int, mt dhcpv4.MessageType, mods ...dhcpv4.Modifier) {
	d.xid[i]++
	m, err := dhcpv4.New(append([]dhcpv4.Modifier{dhcpv4.WithHwAddr(d.macs[i]), dhcpv4.WithMessageType(mt),
		dhcpv4.WithTransactionID(dhcpv4.TransactionID{byte(i), 9, byte(d.xid[i] >> 8), byte(d.xid[i])})}, mods...)...)
	if err != nil {
		panic(err)
	}
	peer := &net.UDPAddr{IP: net.IPv4bcast, Port: 68}
	d.c.S.Join(d.c.S.Spawn("handler", nil, func() { d.srv.VerifHandle(d.conn, peer, m) }))
	d.c.OpsDone++
}

// acquire: DISCOVER, REQUEST; returns the acknowledged address.
func (d *c19dhcp) acquire(i int) net.IP {
	d.send(i, dhcpv4.MessageTypeDiscover)
	if d.offer[i] == nil {
		d.c.S.Probe("dhcp_no_offer")
		return nil
	}
	d.send(i, dhcpv4.MessageTypeRequest, dhcpv4.WithOption(dhcpv4.OptRequestedIPAddress(d.offer[i])), dhcpv4.WithOption(dhcpv4.OptServerIdentifier(net.IPv4(10, 7, 0, 1))))
	if d.bound[i] == nil {
		d.c.S.Probe("dhcp_no_ack")
		return nil
	}
	d.c.S.Sleep(time.Millisecond) // whatever the server left to background tasks has run
	d.enforced(i, "set-up")
	return d.bound[i]
}

// renew: the client's REQUEST for the address it holds (a renewal, or its retransmitted REQUEST).
func (d *c19dhcp) renew(i int) {
	if d.bound[i] == nil {
		return
	}
	d.c.S.Fault("dhcp.renewal-during-traffic")
	m := []dhcpv4.Modifier{dhcpv4.WithOption(dhcpv4.OptRequestedIPAddress(d.bound[i])), dhcpv4.WithOption(dhcpv4.OptServerIdentifier(net.IPv4(10, 7, 0, 1)))}
	d.send(i, dhcpv4.MessageTypeRequest, m...)
}

// enforced: the acknowledged subscriber's bucket is in the kernel map with its policy's rate.
func (d *c19dhcp) enforced(i int, when string) {
	if d.bound[i] == nil {
		return
	}
	key := qos.VerifIPKey(d.bound[i])
	var tb qos.TokenBucket
	if err := d.egress.Lookup(&key, &tb); err != nil {
		d.c.Fail("policy", "policy/dhcp/not-enforced/"+when, "client %d was acknowledged %v but the kernel map holds no bucket for it: it is not policed", i, d.bound[i])
		return
	}
	if tb.RateBPS != d.rate {
		d.c.Fail("policy", "policy/dhcp/other-rate/"+when, "client %d (%v): the kernel map holds rate %d bit/s, its policy says %d", i, d.bound[i], tb.RateBPS, d.rate)
	}
}

// handover: the first client releases, the second one is set up right away (in a pool down to
// its last address it gets the address just released) and must be policed.
func (d *c19dhcp) handover() {
	if d.bound[0] == nil {
		return
	}
	old := d.bound[0]
	d.send(0, dhcpv4.MessageTypeRelease, func(m *dhcpv4.DHCPv4) { m.ClientIPAddr = old })
	d.bound[0] = nil
	ip := d.acquire(1)
	if ip != nil && ip.Equal(old) {
		d.c.S.Fault("dhcp.address-handed-on-at-once")
	}
	d.c.S.Sleep(3 * time.Second)
	d.enforced(1, "after-handover")
}
