package harness

import (
	"encoding/json"
	"fmt"
	"os"
	"strconv"
	"testing"
	"time"

	"verif/harness/sim"
	_ "verif/harness/scn"
)

func envU(name string, def uint64) uint64 {
	if v := os.Getenv(name); v != "" {
		n, err := strconv.ParseUint(v, 10, 64)
		if err == nil {
			return n
		}
	}
	return def
}

// TestVerif is the single entry point of the harness binary; VF_MODE selects
// what it does. Exit codes are produced by the orchestrator (/verif/check).
func TestVerif(t *testing.T) {
	mode := os.Getenv("VF_MODE")
	if mode == "" {
		t.Skip("VF_MODE not set")
	}
	scn := sim.Scenarios[os.Getenv("VF_SCENARIO")]
	if scn == nil && mode != "list" {
		fmt.Fprintln(os.Stderr, "unknown scenario", os.Getenv("VF_SCENARIO"))
		os.Exit(2)
	}
	tier := os.Getenv("VF_TIER")
	if tier == "" {
		tier = "quick"
	}
	sim.LoadKnown(os.Getenv("VF_KNOWN"))
	switch mode {
	case "list":
		for id, s := range sim.Scenarios {
			b, _ := json.Marshal(map[string]any{"id": id, "quick": s.QuickRuns, "thorough": s.ThoroughRuns,
				"real": s.Real, "stub": s.Stub, "rule": s.Rule, "assumptions": s.Assumptions})
			fmt.Println(string(b))
		}
	case "worker":
		known := sim.LoadKnown(os.Getenv("VF_KNOWN"))
		sim.Worker(t, scn, envU("VF_SEED", 1), envU("VF_FROM", 0), envU("VF_TO", 1), tier,
			os.Getenv("VF_OUT"), os.Getenv("VF_REPLAYDIR"), known)
	case "shrink":
		var rf sim.ReplayFile
		b, err := os.ReadFile(os.Getenv("VF_FILE"))
		if err != nil || json.Unmarshal(b, &rf) != nil {
			fmt.Fprintln(os.Stderr, "cannot read replay file")
			os.Exit(2)
		}
		budget := time.Duration(envU("VF_BUDGET_S", 30)) * time.Second
		out, err := sim.Shrink(t, scn, &rf, budget)
		if err != nil {
			fmt.Fprintln(os.Stderr, "shrink:", err)
			os.Exit(3)
		}
		if err := sim.WriteJSON(os.Getenv("VF_OUT"), out); err != nil {
			fmt.Fprintln(os.Stderr, err)
			os.Exit(2)
		}
	case "replay":
		var rf sim.ReplayFile
		b, err := os.ReadFile(os.Getenv("VF_FILE"))
		if err != nil || json.Unmarshal(b, &rf) != nil {
			fmt.Fprintln(os.Stderr, "cannot read replay file")
			os.Exit(2)
		}
		res := sim.Replay(t, scn, &rf, true)
		out := map[string]any{"log_hash": res.LogHash, "violations": res.Viols, "panics": res.Panics, "steps": res.Steps,
			"aborted": res.Aborted, "ring": res.Ring}
		ob, _ := json.MarshalIndent(out, "", " ")
		if p := os.Getenv("VF_OUT"); p != "" {
			os.WriteFile(p, ob, 0644)
		} else {
			fmt.Println(string(ob))
		}
	case "one":
		sim.TraceRun(t, scn, envU("VF_SEED", 1), envU("VF_FROM", 0), tier)
	case "hash":
		// determinism self-test: print the log hash of runs [from,to)
		sim.HashRuns(t, scn, envU("VF_SEED", 1), envU("VF_FROM", 0), envU("VF_TO", 1), tier)
	default:
		fmt.Fprintln(os.Stderr, "unknown VF_MODE", mode)
		os.Exit(2)
	}
}
