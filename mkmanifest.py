#!/usr/bin/env python3
"""Regenerates MANIFEST.json from the table below (kept as a script so the manifest stays valid while checks are added)."""
import json, os
V = os.path.dirname(os.path.abspath(__file__))
TECH = "deterministic simulation with fault injection: seeded scheduler + virtual clock (testing/synctest) over AST-instrumented repo code, oracle = "
CLAIMED = {
 "C01": dict(tech=TECH + "reference holder model (value -> subscriber) checked after every operation for sequential histories and by linearizability (porcupine) for 2-4 concurrent callers: uniqueness, in-range, re-ask stability, list/lookup sweeps",
   text="Seeded exploration of allocate/specific/renew/release/lookup/epoch/tick/reload histories over every pool implementation (bitmap, epoch/lease, PoolAllocator + store, LocalAllocator, DistributedAllocator in session and lease mode with its epoch ticker and watch handler, dhcp.Pool, DHCPv6 address and prefix pools, pppoe.IPPool, single-node PeerPool, nexus.Client hash allocation) and pool geometry (IPv4 /24../30, IPv6 /64 /56 /128 units, gateway/reserved positions), with store write failures at a chosen call, every Query enumeration order, watch echoes of local writes and statement-level preemption of concurrent callers. Sampling, not proof.",
   note="The 'exhaustively for pools of <=8 units and <=7 operations' part of the quantifier is sampled, not enumerated (enumeration is model checking, outside this technique). The key-value store behind the distributed and nexus variants is the harness's. Genuine defects not repaired are in known_findings.json.", ref="§5 C01"),
 "C05": dict(tech=TECH + "conservation audit after every operation (live holders + obtainable units = usable units, Stats/utilisation = model counts, renewed-within-grace never reclaimed) and a final drain by fresh subscribers",
   text="Seeded exploration of allocate/release/renew/epoch-burst (1-9 advances, beyond the 2-bit wrap)/tick/reload (x1-3)/re-applied-record/drain histories over every pool implementation and geometry, with store Put/Delete/Get failures at a chosen call index, watch echoes and the real epoch ticker and store cleanup on the virtual clock. Sampling, not proof.",
   note="After an injected store error on Release/Renew/re-ask the subscriber is 'possibly live' and counts are checked against the resulting interval; a constructor that rejects the drawn grace period ends the run with no verdict (probe config_rejected_grace).", ref="§5 C05"),
 "C11": dict(tech=TECH + "RFC 1661 agreement monitor, reply-shape checks, bounded termination against a silent peer",
   text="Seeded exploration of event/packet/timer orderings of the real LCP/IPCP/IPv6CP automata with their real restart timers on a virtual clock; the restart-timer callback is a scheduler task, so timer-vs-packet races (stale callbacks) are explored and replayable. Sampling, not proof.",
   note="Trusts the Go runtime/synctest, the instrumenter (transparency-tested against the repo's own tests), and the harness's agreement monitor. Packets are delivered only while the lower layer is up.", ref="§5 C11"),
 "C08": dict(tech=TECH + "RADIUS-side record stream + acknowledgement ledger: Stop ordering, exactly-once after ack (crash-free histories), eventual Stop or durable queue after a fault-free tail, identifier and 64-bit counter exactness",
   text="Seeded exploration of start/stop/counter/outage histories of the real AccountingManager and radius.Client (every goroutine a scheduler task) over a simulated disk and RADIUS server, with a process crash injected at tape-chosen disk and network steps (including inside WriteFile), graceful stops and restarts from the surviving directory. Sampling, not proof.",
   note="Process-crash disk model (no power loss); request/reply loss stays inside the configured retry budget by construction; layeh's UDP retransmit loop is replaced by the simulated transport. Genuine defects that are not repaired are listed in known_findings.json by fingerprint.", ref="§5 C08"),
 "C02": dict(tech=TECH + "binding ledger built only from the replies the servers wrote (double binding, bad address, renewal stability, declined-not-reoffered, availability after release/expiry)",
   text="Seeded exploration of DHCPv4 and DHCPv6 message histories from 2-5 clients against the real packet/message handlers (one handler task per message, bursts interleaved by the seeded scheduler), the real pools (DHCPv6: legacy pools or integrated PoolAllocator pools) and the real lease-cleanup loop on a virtual clock that jumps across T1, expiry and the cleanup tick or lands exactly on it; duplicated renewals, relay-bypassing RELEASE/renew, optional RADIUS authentication with outages, and a drain tail that hands out any address wrongly put back into circulation. Sampling, not proof.",
   note="Clients are a MAC (or MAC + own circuit-id when relayed) resp. a DUID; replies are captured at the packet connection (v4: handler parameter; v6: the server's WriteToUDP call is redirected). Genuine defects not repaired are in known_findings.json.", ref="§5 C02"),
 "C04": dict(tech=TECH + "authentication-before-IP-service monitor over the session table and emitted frames; foreign-MAC frames must be no-ops",
   text="Seeded exploration of out-of-protocol-order PPPoE discovery/session frame histories from owner and foreign MACs against the real pppoe.Server handlers over an in-memory raw socket, with the real radius.Client authenticating against a simulated RADIUS server (accept/reject/timeout) and the server's own goroutines and cleanup ticker as scheduler tasks. Sampling, not proof.",
   note="Frames are handed to the handlers one at a time as the single receive loop does; activity counters are not part of 'changing' a session; only PAP is reachable through the server's dispatch (CHAP frames are not dispatched by it).", ref="§5 C04"),
 "C16": dict(tech=TECH + "resource ledger audited after quiescence (pool drain probe, NAT/QoS managers, kernel-map lookups, RADIUS record stream), idempotence under repeated and concurrent termination",
   text="Seeded exploration of session establishment prefixes x termination paths x second (sequential or concurrent) terminations against composites of the real components (DHCPv4 server + pool + NAT + QoS + loader over real kernel maps + RADIUS client; further session types as variants), followed by an audit of every resource the session held; faults: kernel-map inserts refused (single-slot map), single-block CGNAT pool, RADIUS rate limit 0.25/s, a client's REQUEST overlapping its RELEASE, caller context cancelled as a release goes out. Sampling, not proof.",
   note="Kernel maps are created by the harness with the value sizes the Go control plane marshals; XDP/TC programs are not loaded; the simulated RADIUS server answers every accounting request. Variants present in this build are listed in the evidence file.", ref="§5 C16"),
 "C19": dict(tech="deterministic simulation of a clocked process: the natively compiled TC program on a simulated kernel clock over a real kernel map written by the real qos.Manager; oracle = exact rational reference bounds (upper over all windows, lower for a backlogged subscriber, rate 0 unlimited)",
   text="Seeded exploration of arrival processes (sizes 1-65535, gaps 0 ns to days, kernel clock anywhere in 64 bits, rates 1 kbit/s-100 Gbit/s, bursts 1-2^32-1) against bpf/qos_ratelimit.c compiled natively, with the bucket written by the real control plane through cilium/ebpf into a real kernel map. Sampling, not proof.",
   note="Native code generation instead of the BPF back end; one CPU at a time on a bucket; in-place map mutation emulated by lookup + write-back; needs CAP_BPF/root to create maps (a run that cannot create maps records the probe kernel_maps_unavailable and checks nothing).", ref="§5 C19"),
 "C03": dict(tech="deterministic simulation of a two-tier system: natively compiled XDP program as the kernel node (simulated kernel uptime clock) in front of the real userspace DHCP server, sharing real kernel maps; oracle = frame well-formedness parser + differential agreement with the userspace reply + PASS-means-unmodified + no answer once the userspace lease is gone",
   text="Seeded exploration of DHCP message histories (untagged/802.1Q/QinQ, IHL 5/6, padding and option-layout classes, direct and relayed) driven through bpf/dhcp_fastpath.c compiled natively and then through the real slow path, with the cache written by the real Loader/PoolManager/Server into real kernel maps created with the C-declared sizes, two clock domains, and pool/lease/DNS/server-id configurations. Sampling, not proof.",
   note="Native code generation instead of the BPF back end; XDP attach/driver/NIC are not modelled; 'expired in userspace' means the lease has left the lease table; pools larger than /20 are not materialised; needs CAP_BPF/root to create maps.", ref="§5 C03"),
 "C10": dict(tech=TECH + "interval-overlap model checked step by step and by linearizability (porcupine) for concurrent callers, plus an independent resolver over the flushed NAT log",
   text="Seeded exploration of allocate/deallocate/re-allocate histories from 1-3 concurrent callers (statement-level yields in nat/manager.go) over port-range/block-size configurations incl. non-dividing sizes and the 65535 edge, with the real nat.Logger (all formats, bulk and per-allocation, rotation, flush loop on the virtual clock) writing to a private file that an independent resolver reads back. Sampling, not proof.",
   note="The subscriber_nat kernel map is present in a quarter of the runs (created by the harness, installed through an overlay accessor; entries can be removed out of band so that the manager's delete fails); the other NAT maps are absent (the Go bookkeeping assigns blocks). Log files are real files in a per-run temp dir with virtual mtimes for the retention pass; rotation compression is not driven.", ref="§5 C10"),
 "C13": dict(tech=TECH + "snapshot equality at full-sync completion, push-order application per connected stream period, convergence after a fault-free bound",
   text="Seeded exploration of add/update/delete histories on the active node with stream disconnects at any byte, half-open streams, lost and late responses, partitions, refused writes of the standby's own store, stalled goroutines, standby crash/restart and changes landing between snapshot and stream attach or at the instant of the attach, using the real HASyncer handlers, SSE reader and back-off over a simulated HTTP transport. Sampling, not proof.",
   note="HTTP/TCP replaced by an in-process RoundTripper that runs the peer's real http.Handler as a scheduler task; active-node crash and a mid-body cut of the full-sync JSON are not modelled; one pusher at a time; a pushed change may be lost only if it could have been in flight when the standby saw the disconnect (same virtual instant, across a partition, within injected stall time, or read by a standby that crashed).", ref="§5 C13"),
 "C14": dict(tech=TECH + "timed monitor over the recorded health-event, failover-event, callback and role/state streams",
   text="Seeded exploration of partner up/down windows around the threshold/delay boundaries, probe loss, operator commands in every state, callback ok/fail/slow and same-instant timer-vs-event orderings against the real FailoverController and HealthMonitor wired as cmd/bng does, probing a simulated partner. Sampling, not proof.",
   note="Controller whose original role is active and non-200 partner replies are not driven; a recovery exactly at the expiry instant may go either way.", ref="§5 C14"),
 "C17": dict(tech=TECH + "owner agreement across nodes, ranked-list laws, minimal-disruption law, single serving pool end to end when views agree",
   text="Seeded exploration of 1-5 (thorough: 8) PeerPool nodes with generated node ids, per-node configuration orders, AddPeer/RemovePeer, partitions, crashes and probe loss, with the real forwarding/health code and HTTP handlers over the simulated transport. Sampling, not proof.",
   note="Node ids are URL-host-safe strings; a peer set never contains both x and x:8081; the end-to-end clause is judged only while all live nodes share peer set and health view.", ref="§5 C17"),
 "C12": dict(tech=TECH + "store-vs-memory agreement after restart and after failed store operations, announced-address application per watch delivery context, observational equality after JSON round trip",
   text="Seeded exploration of allocate/renew/release histories on 1-3 real DistributedAllocator nodes (session and lease mode) over a simulated replicated store with crashes before/after every store call, clean stops, restarts over the store, every Query enumeration order, store failures at every call (optionally coinciding with the caller's context being cancelled), overlapping calls for one subscriber on one node, lease grace 1 or 2, and delayed/duplicated/reordered watch notifications; PoolAllocator behind a failing store; JSON round trips of the allocators after every operation. Sampling, not proof.",
   note="The store backend is the harness's (linearizable, a failed call has no effect); multi-writer double claims are C01/C17 territory and excluded; watch findings carry the delivery context (FIFO vs after-reorder/dup/local-write-race) in their fingerprint.", ref="§5 C12"),
 "C20": dict(tech=TECH + "bijection model (key <-> subscriber) checked step by step and by linearizability (porcupine), forward/reverse lookup agreement after every operation",
   text="Seeded exploration of allocate/release/load/register/unregister/create/remove/update histories from 1-4 callers over tiny tag ranges and id spaces against the real VLANAllocator, qinq.Mapper, pppoe.SessionManager (incl. id wrap-around and two sessions per MAC), state.Store, MemoryAllocationStore, subscriber.Manager indexes and the circuit-id key functions. Sampling, not proof.",
   note="state.Store records never share a MAC or address (single-valued indexes by design); circuit-id keys are checked through the real key functions over a harness map; hash collisions of the 64-bit circuit-id hash are unreachable by sampling.", ref="§5 C20"),
}
NA = {
 "C06": "static relation between Go and C declarations (sizes, offsets, byte order, key derivation for all inputs): no schedule, clock, fault or history can change it, so it is not a simulation target",
 "C07": "memory safety and pass-means-unmodified over every frame is a pure function of (frame, map contents); deciding it is sanitizer/guard-page input search or the kernel verifier, not schedule/fault search",
 "C09": "universally quantified over byte strings per decoder (a panic needs one malformed length field): input search, no schedule, clock or fault dimension",
 "C15": "if-and-only-if over all mutations of one datagram under all secrets; the listener is a stateless function of a single datagram",
 "C18": "the TC verdict is a pure function of (frame, binding map, mode); control-plane updates are sequential writes with no timing, failure or concurrency aspect in the statement",
}
PENDING = "check not built yet in this round (planned, see DESIGN.md §5); not claimed until its scenario runs clean and deterministic"
ALL = ["C%02d" % i for i in range(1, 21)]
checks = []
for pid in ALL:
    if pid in CLAIMED:
        c = CLAIMED[pid]
        checks.append({
            "property_id": pid,
            "quick_cmd": "./check %s quick" % pid,
            "thorough_cmd": "./check %s thorough" % pid,
            "evidence_file": "/verif/evidence/%s.json" % pid,
            "replay_cmd_template": "./check --replay {path}",
            "engine": "detsim",
            "level_claimed": {"category": "exploration", "text": c["text"], "design_ref": c["ref"]},
            "level_note": c["note"],
            "technique": c["tech"],
        })
na = [{"property_id": p, "reason": NA.get(p, PENDING)} for p in ALL if p not in CLAIMED]
m = {
 "version": 1,
 "setup_cmd": "./check --setup",
 "hooks": {
   "guard": "verif",
   "enable": "checks rsync /repo's working tree to a scratch dir under /var/tmp, copy the add-only //go:build verif overlay files from /verif/overlay into it, run /verif/instrument over it, and build the harness with -tags verif; nothing is written to /repo",
   "baseline_off_cmd": "for m in $(cat /w/out/gomods.txt); do MF=$(cd /repo/$m && . /w/out/goenv.sh && gomodflag); (cd /repo/$m && go test $MF -json -vet=off -count=1 -timeout 25m ./...); done",
   "source_commits": [],
   "add_only": True,
 },
 "engines": [{"name": "detsim", "path": "/verif/check", "serves_properties": sorted(CLAIMED),
   "kind_free_text": "deterministic simulator: testing/synctest bubble (virtual clock, quiescence) + cooperative single-runner scheduler fed by a seeded choice tape; type-aware AST instrumentation of a scratch copy of the repo (yields, TryLock acquisition, go/AfterFunc as tasks, tape-ordered select and map iteration, call-site swaps for RADIUS/os/rand); simulated disk/RADIUS/HTTP/store; replay files + own shrinker"}],
 "checks": checks,
 "not_applicable": na,
 "notes": "Exit 2 (never a VIOLATION line) means the machinery could not run: build failure of the hooked tree, watchdog, or a replay that does not reproduce. known_findings.json lists genuine defects recorded rather than repaired, by fingerprint.",
}
json.dump(m, open(os.path.join(V, "MANIFEST.json"), "w"), indent=1)
print("MANIFEST.json: %d checks, %d not applicable" % (len(checks), len(na)))
