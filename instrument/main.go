// Command instrument rewrites a scratch copy of the bng repository so that the
// /verif simulator owns every scheduling decision: yields at synchronisation
// points, TryLock-based lock acquisition, go statements and AfterFunc
// callbacks as scheduler tasks, tape-ordered select and map iteration, and
// call-site swaps for I/O and randomness that has no interface seam.
// It must only ever be run on a scratch copy (never with -dir /repo).
package main

import (
	"bytes"
	"flag"
	"fmt"
	"go/ast"
	"go/format"
	"go/token"
	"go/types"
	"os"
	"path/filepath"
	"sort"
	"strings"

	"golang.org/x/tools/go/ast/astutil"
	"golang.org/x/tools/go/packages"
)

const simrtPath = "github.com/codelaboratoryltd/bng/pkg/simrt"

var (
	dir     = flag.String("dir", "", "scratch copy of the repository (never /repo)")
	pkgsArg = flag.String("pkgs", "", "comma separated package dirs relative to -dir")
	lvl2Arg = flag.String("level2", "", "comma separated file paths (relative to -dir) that get a yield before every statement")
	lvl3Arg = flag.String("level3", "", "comma separated file paths (relative to -dir) where the field reads that fill a composite literal are hoisted into separate statements with a yield between them (the reads of one statement may legally interleave with another goroutine's writes)")
	osArg   = flag.String("osfiles", "pkg/radius/accounting.go", "files whose package-os calls are redirected to the simulated FS")
)

type inst struct {
	fset   *token.FileSet
	info   *types.Info
	file   *ast.File
	rel    string
	level2 bool
	level3 bool
	osSwap bool
	used   bool
	tmp    int
}

var sites = []string{""}

func (in *inst) site(pos token.Pos) ast.Expr {
	p := in.fset.Position(pos)
	sites = append(sites, fmt.Sprintf("%s:%d", in.rel, p.Line))
	in.used = true
	return &ast.BasicLit{Kind: token.INT, Value: fmt.Sprint(len(sites) - 1)}
}

func sel(name string) ast.Expr {
	return &ast.SelectorExpr{X: ast.NewIdent("simrt"), Sel: ast.NewIdent(name)}
}

func call(fn string, args ...ast.Expr) *ast.CallExpr {
	return &ast.CallExpr{Fun: sel(fn), Args: args}
}

func (in *inst) yieldStmt(pos token.Pos) ast.Stmt {
	return &ast.ExprStmt{X: call("Yield", in.site(pos))}
}

func (in *inst) wokeStmt(pos token.Pos) ast.Stmt {
	return &ast.ExprStmt{X: call("Woke", in.site(pos))}
}

func (in *inst) fresh(prefix string) string {
	in.tmp++
	return fmt.Sprintf("_vf%s%d", prefix, in.tmp)
}

// ---------------------------------------------------------------------------
// classification helpers

func (in *inst) pkgFunc(e ast.Expr) (pkg, name string) {
	se, ok := e.(*ast.SelectorExpr)
	if !ok {
		return
	}
	obj := in.info.Uses[se.Sel]
	fn, ok := obj.(*types.Func)
	if !ok || fn.Pkg() == nil {
		return
	}
	if sig, _ := fn.Type().(*types.Signature); sig != nil && sig.Recv() != nil {
		return
	}
	return fn.Pkg().Path(), fn.Name()
}

// syncMethod reports the method name if e is a call of a sync.Mutex/RWMutex/
// WaitGroup method.
func (in *inst) syncMethod(c *ast.CallExpr) (recv ast.Expr, typ, name string) {
	se, ok := c.Fun.(*ast.SelectorExpr)
	if !ok {
		return
	}
	s := in.info.Selections[se]
	if s == nil || s.Kind() != types.MethodVal {
		return
	}
	fn, ok := s.Obj().(*types.Func)
	if !ok || fn.Pkg() == nil || fn.Pkg().Path() != "sync" {
		return
	}
	sig := fn.Type().(*types.Signature)
	rt := sig.Recv().Type()
	if p, ok := rt.(*types.Pointer); ok {
		rt = p.Elem()
	}
	n, ok := rt.(*types.Named)
	if !ok {
		return
	}
	return se.X, n.Obj().Name(), fn.Name()
}

func (in *inst) isCancelCall(c *ast.CallExpr) bool {
	t := in.info.TypeOf(c.Fun)
	if t == nil {
		return false
	}
	if n, ok := t.(*types.Named); ok && n.Obj().Pkg() != nil {
		return n.Obj().Pkg().Path() == "context" && strings.HasPrefix(n.Obj().Name(), "CancelFunc")
	}
	return false
}

type actions struct{ sync, blocking bool }

// scan looks at the expressions of n without descending into function literals
// or nested blocks.
func (in *inst) scan(n ast.Node, a *actions) {
	if n == nil {
		return
	}
	ast.Inspect(n, func(x ast.Node) bool {
		switch v := x.(type) {
		case *ast.FuncLit, *ast.BlockStmt:
			return false
		case *ast.UnaryExpr:
			if v.Op == token.ARROW {
				a.sync, a.blocking = true, true
			}
		case *ast.SendStmt:
			a.sync, a.blocking = true, true
		case *ast.CallExpr:
			if id, ok := v.Fun.(*ast.Ident); ok && id.Name == "close" {
				if _, isB := in.info.Uses[id].(*types.Builtin); isB {
					a.sync = true
				}
			}
			if _, typ, name := in.syncMethod(v); name != "" {
				a.sync = true
				if (typ == "WaitGroup" || typ == "Cond") && name == "Wait" {
					a.blocking = true
				}
			}
			if p, n := in.pkgFunc(v.Fun); p == "time" && n == "Sleep" {
				a.sync, a.blocking = true, true
			}
			if in.isCancelCall(v) {
				a.sync = true
			}
		}
		return true
	})
}

// ---------------------------------------------------------------------------
// statement rewriting

func (in *inst) block(b *ast.BlockStmt) {
	if b == nil {
		return
	}
	b.List = in.list(b.List)
}

func (in *inst) funcLits(n ast.Node) {
	if n == nil {
		return
	}
	ast.Inspect(n, func(x ast.Node) bool {
		switch v := x.(type) {
		case *ast.BlockStmt:
			return false
		case *ast.FuncLit:
			in.block(v.Body)
			return false
		}
		return true
	})
}

func (in *inst) list(list []ast.Stmt) []ast.Stmt {
	var out []ast.Stmt
	for _, st := range list {
		if in.level3 {
			out = append(out, in.hoistOperands(st)...)
		}
		pre, s2, post := in.stmt(st)
		out = append(out, pre...)
		out = append(out, s2)
		out = append(out, post...)
	}
	return out
}

// hoistOperands (level 3): in a simple statement, the field reads x.F (x a local identifier)
// that are the values of a keyed composite literal with at least two such reads are moved into
// temporaries defined before the statement, with a yield after each. Go leaves the order of such
// operand reads unspecified and gives no atomicity to a statement, so every interleaving this
// opens is one a real execution may show. Only literals reached from the statement through
// call arguments, &, parentheses and enclosing literals are touched (nothing behind && or ||,
// an index, a conversion of a possibly nil base, or a function literal).
func (in *inst) hoistOperands(st ast.Stmt) []ast.Stmt {
	var roots []ast.Expr
	switch v := st.(type) {
	case *ast.ReturnStmt:
		roots = v.Results
	case *ast.ExprStmt:
		roots = []ast.Expr{v.X}
	case *ast.AssignStmt:
		roots = v.Rhs
	default:
		return nil
	}
	var pre []ast.Stmt
	var walk func(e ast.Expr)
	walk = func(e ast.Expr) {
		switch v := e.(type) {
		case *ast.ParenExpr:
			walk(v.X)
		case *ast.UnaryExpr:
			if v.Op == token.AND {
				walk(v.X)
			}
		case *ast.CallExpr:
			for _, a := range v.Args {
				walk(a)
			}
		case *ast.CompositeLit:
			var reads []*ast.KeyValueExpr
			for _, el := range v.Elts {
				kv, ok := el.(*ast.KeyValueExpr)
				if !ok {
					continue
				}
				if se, ok := kv.Value.(*ast.SelectorExpr); ok {
					if _, isID := se.X.(*ast.Ident); isID {
						if sl := in.info.Selections[se]; sl != nil && sl.Kind() == types.FieldVal {
							reads = append(reads, kv)
							continue
						}
					}
				}
				walk(kv.Value)
			}
			if len(reads) < 2 {
				return
			}
			for _, kv := range reads {
				t := in.fresh("r")
				pre = append(pre, define(t, kv.Value), in.yieldStmt(kv.Value.Pos()))
				kv.Value = ast.NewIdent(t)
			}
		}
	}
	for _, r := range roots {
		walk(r)
	}
	return pre
}

// stmt rewrites one statement; it returns statements to put before and after.
func (in *inst) stmt(st ast.Stmt) (pre []ast.Stmt, out ast.Stmt, post []ast.Stmt) {
	out = st
	var lab *ast.LabeledStmt
	if l, ok := st.(*ast.LabeledStmt); ok {
		lab = l
		st = l.Stmt
	}
	var a actions
	switch v := st.(type) {
	case *ast.BlockStmt:
		in.block(v)
	case *ast.IfStmt:
		in.scan(v.Init, &a)
		in.scan(v.Cond, &a)
		in.funcLits(v.Init)
		in.funcLits(v.Cond)
		in.block(v.Body)
		if v.Else != nil {
			_, e2, _ := in.stmt(v.Else)
			v.Else = e2
		}
		if a.blocking {
			v.Body.List = append([]ast.Stmt{in.wokeStmt(v.Pos())}, v.Body.List...)
		}
	case *ast.ForStmt:
		in.scan(v.Init, &a)
		in.scan(v.Cond, &a)
		in.scan(v.Post, &a)
		in.funcLits(v.Init)
		in.funcLits(v.Cond)
		in.funcLits(v.Post)
		in.block(v.Body)
		if a.blocking {
			v.Body.List = append([]ast.Stmt{in.wokeStmt(v.Pos())}, v.Body.List...)
		} else if len(v.Body.List) > 0 && v.Cond == nil {
			// an infinite loop must not be able to spin without visiting the scheduler
			v.Body.List = append([]ast.Stmt{in.yieldStmt(v.Pos())}, v.Body.List...)
		}
	case *ast.RangeStmt:
		in.funcLits(v.X)
		in.block(v.Body)
		t := in.info.TypeOf(v.X)
		if t != nil {
			switch t.Underlying().(type) {
			case *types.Chan:
				a.sync, a.blocking = true, true
				v.Body.List = append([]ast.Stmt{in.wokeStmt(v.Pos())}, v.Body.List...)
			case *types.Map:
				st = in.rangeMap(v, lab)
				lab = nil
				out = st
			}
		}
	case *ast.SwitchStmt:
		in.scan(v.Init, &a)
		in.scan(v.Tag, &a)
		in.funcLits(v.Init)
		in.funcLits(v.Tag)
		in.clauses(v.Body, a.blocking)
	case *ast.TypeSwitchStmt:
		in.scan(v.Init, &a)
		in.scan(v.Assign, &a)
		in.clauses(v.Body, a.blocking)
	case *ast.SelectStmt:
		a.sync = true
		for _, c := range v.Body.List {
			cc := c.(*ast.CommClause)
			in.funcLits(cc.Comm)
			cc.Body = in.list(cc.Body)
		}
		if len(v.Body.List) > 0 {
			st = in.selectStmt(v, lab)
			lab = nil
			out = st
			// selectStmt emits its own yield
			return nil, out, nil
		}
	case *ast.GoStmt:
		in.funcLits(v.Call)
		st = in.goStmt(v)
		out = st
		if lab != nil {
			lab.Stmt = st
			out = lab
		}
		return []ast.Stmt{in.yieldStmt(v.Pos())}, out, nil
	case *ast.DeferStmt:
		in.funcLits(v.Call)
		if recv, typ, name := in.syncMethod(v.Call); (typ == "Mutex" || typ == "RWMutex") && (name == "Unlock" || name == "RUnlock") {
			se := v.Call.Fun.(*ast.SelectorExpr)
			v.Call = call("Unlock", in.site(v.Pos()), &ast.SelectorExpr{X: recv, Sel: se.Sel})
		}
	case *ast.ExprStmt:
		in.funcLits(v.X)
		if c, ok := v.X.(*ast.CallExpr); ok {
			if recv, typ, name := in.syncMethod(c); typ == "Mutex" || typ == "RWMutex" {
				switch name {
				case "Lock":
					v.X = call("Lock", in.site(v.Pos()), &ast.SelectorExpr{X: recv, Sel: ast.NewIdent("TryLock")}, &ast.SelectorExpr{X: recv, Sel: ast.NewIdent("Lock")})
					return nil, wrapLabel(lab, v), nil
				case "RLock":
					v.X = call("Lock", in.site(v.Pos()), &ast.SelectorExpr{X: recv, Sel: ast.NewIdent("TryRLock")}, &ast.SelectorExpr{X: recv, Sel: ast.NewIdent("RLock")})
					return nil, wrapLabel(lab, v), nil
				case "Unlock", "RUnlock":
					se := c.Fun.(*ast.SelectorExpr)
					v.X = call("Unlock", in.site(v.Pos()), &ast.SelectorExpr{X: recv, Sel: se.Sel})
					return nil, wrapLabel(lab, v), []ast.Stmt{in.yieldStmt(v.End())}
				}
			}
		}
		in.scan(v, &a)
	case *ast.CaseClause, *ast.CommClause:
		// handled by their parents
	default:
		in.funcLits(st)
		in.scan(st, &a)
	}
	if lab != nil {
		lab.Stmt = st
		out = lab
	}
	if a.sync || in.level2 {
		switch st.(type) {
		case *ast.DeclStmt, *ast.EmptyStmt:
			if !a.sync {
				break
			}
			pre = append(pre, in.yieldStmt(st.Pos()))
		default:
			pre = append(pre, in.yieldStmt(st.Pos()))
		}
	}
	if a.blocking {
		switch st.(type) {
		case *ast.ReturnStmt, *ast.BranchStmt:
			fmt.Fprintf(os.Stderr, "instrument: note: blocking operation in return at %s\n", in.fset.Position(st.Pos()))
		default:
			post = append(post, in.wokeStmt(st.End()))
		}
	}
	return
}

func wrapLabel(lab *ast.LabeledStmt, s ast.Stmt) ast.Stmt {
	if lab != nil {
		lab.Stmt = s
		return lab
	}
	return s
}

func (in *inst) clauses(body *ast.BlockStmt, woke bool) {
	for _, c := range body.List {
		cc := c.(*ast.CaseClause)
		for _, e := range cc.List {
			in.funcLits(e)
		}
		cc.Body = in.list(cc.Body)
		if woke {
			cc.Body = append([]ast.Stmt{in.wokeStmt(cc.Pos())}, cc.Body...)
		}
	}
}

func define(name string, rhs ast.Expr) ast.Stmt {
	return &ast.AssignStmt{Lhs: []ast.Expr{ast.NewIdent(name)}, Tok: token.DEFINE, Rhs: []ast.Expr{rhs}}
}

func assign(lhs []ast.Expr, rhs ...ast.Expr) ast.Stmt {
	return &ast.AssignStmt{Lhs: lhs, Tok: token.ASSIGN, Rhs: rhs}
}

func blank() ast.Expr { return ast.NewIdent("_") }

func isBlank(e ast.Expr) bool {
	id, ok := e.(*ast.Ident)
	return e == nil || (ok && id.Name == "_")
}

func (in *inst) rangeMap(v *ast.RangeStmt, lab *ast.LabeledStmt) ast.Stmt {
	m := in.fresh("m")
	k := in.fresh("k")
	okv := in.fresh("ok")
	var head []ast.Stmt
	idx := &ast.IndexExpr{X: ast.NewIdent(m), Index: ast.NewIdent(k)}
	skip := &ast.IfStmt{Cond: &ast.UnaryExpr{Op: token.NOT, X: ast.NewIdent(okv)},
		Body: &ast.BlockStmt{List: []ast.Stmt{&ast.BranchStmt{Tok: token.CONTINUE}}}}
	if v.Tok == token.DEFINE || v.Tok == token.ILLEGAL {
		valName := blank()
		if !isBlank(v.Value) {
			valName = v.Value
		}
		head = append(head, &ast.AssignStmt{Lhs: []ast.Expr{valName, ast.NewIdent(okv)}, Tok: token.DEFINE, Rhs: []ast.Expr{idx}}, skip)
		if !isBlank(v.Key) {
			head = append(head, &ast.AssignStmt{Lhs: []ast.Expr{v.Key}, Tok: token.DEFINE, Rhs: []ast.Expr{ast.NewIdent(k)}},
				assign([]ast.Expr{blank()}, v.Key))
		}
	} else {
		valName := blank()
		if !isBlank(v.Value) {
			valName = v.Value
		}
		head = append(head, &ast.DeclStmt{Decl: &ast.GenDecl{Tok: token.VAR, Specs: []ast.Spec{
			&ast.ValueSpec{Names: []*ast.Ident{ast.NewIdent(okv)}, Type: ast.NewIdent("bool")}}}},
			assign([]ast.Expr{valName, ast.NewIdent(okv)}, idx), skip)
		if !isBlank(v.Key) {
			head = append(head, assign([]ast.Expr{v.Key}, ast.NewIdent(k)))
		}
	}
	if lab != nil {
		// a labelled continue inside the presence check must target this loop
		skip.Body.List[0].(*ast.BranchStmt).Label = ast.NewIdent(lab.Label.Name)
	}
	body := &ast.BlockStmt{List: append(head, v.Body.List...)}
	loop := ast.Stmt(&ast.RangeStmt{Key: blank(), Value: ast.NewIdent(k), Tok: token.DEFINE,
		X: call("MapKeys", in.site(v.Pos()), ast.NewIdent(m)), Body: body})
	if lab != nil {
		lab.Stmt = loop
		loop = lab
	}
	return &ast.BlockStmt{List: []ast.Stmt{define(m, v.X), loop}}
}

func (in *inst) goStmt(g *ast.GoStmt) ast.Stmt {
	c := g.Call
	if fl, ok := c.Fun.(*ast.FuncLit); ok && len(c.Args) == 0 && (fl.Type.Results == nil || len(fl.Type.Results.List) == 0) {
		return &ast.ExprStmt{X: call("Go", in.site(g.Pos()), fl)}
	}
	var stmts []ast.Stmt
	args := make([]ast.Expr, len(c.Args))
	for i, a := range c.Args {
		tv := in.info.Types[a]
		if tv.Value != nil || tv.IsNil() {
			args[i] = a
			continue
		}
		if _, ok := a.(*ast.FuncLit); ok {
			args[i] = a
			continue
		}
		n := in.fresh("a")
		stmts = append(stmts, define(n, a))
		args[i] = ast.NewIdent(n)
	}
	nc := &ast.CallExpr{Fun: c.Fun, Args: args, Ellipsis: c.Ellipsis}
	if c.Ellipsis.IsValid() {
		nc.Ellipsis = 1
	}
	fl := &ast.FuncLit{Type: &ast.FuncType{Params: &ast.FieldList{}}, Body: &ast.BlockStmt{List: []ast.Stmt{&ast.ExprStmt{X: nc}}}}
	stmts = append(stmts, &ast.ExprStmt{X: call("Go", in.site(g.Pos()), fl)})
	if len(stmts) == 1 {
		return stmts[0]
	}
	return &ast.BlockStmt{List: stmts}
}

func unparen(e ast.Expr) ast.Expr {
	for {
		p, ok := e.(*ast.ParenExpr)
		if !ok {
			return e
		}
		e = p.X
	}
}

func (in *inst) selectStmt(v *ast.SelectStmt, lab *ast.LabeledStmt) ast.Stmt {
	pos := v.Pos()
	type cs struct {
		cc         *ast.CommClause
		send       bool
		ch, val    string
		r, ok      string
		lhs        []ast.Expr
		tok        token.Token
		defaultCls bool
	}
	var cases []*cs
	var stmts []ast.Stmt
	stmts = append(stmts, in.yieldStmt(pos))
	n := 0
	hasDefault := false
	for _, c := range v.Body.List {
		cc := c.(*ast.CommClause)
		x := &cs{cc: cc}
		cases = append(cases, x)
		switch comm := cc.Comm.(type) {
		case nil:
			x.defaultCls = true
			hasDefault = true
			continue
		case *ast.SendStmt:
			x.send = true
			x.ch = in.fresh("c")
			x.val = in.fresh("v")
			stmts = append(stmts, define(x.ch, comm.Chan),
				define(x.val, call("Elem", ast.NewIdent(x.ch), comm.Value)))
		case *ast.ExprStmt:
			u := unparen(comm.X).(*ast.UnaryExpr)
			x.ch = in.fresh("c")
			stmts = append(stmts, define(x.ch, u.X))
		case *ast.AssignStmt:
			u := unparen(comm.Rhs[0]).(*ast.UnaryExpr)
			x.ch = in.fresh("c")
			x.lhs = comm.Lhs
			x.tok = comm.Tok
			stmts = append(stmts, define(x.ch, u.X))
		default:
			panic(fmt.Sprintf("select: unexpected comm %T", comm))
		}
		n++
	}
	// receive temporaries
	for _, x := range cases {
		if x.defaultCls || x.send {
			continue
		}
		x.r = in.fresh("r")
		x.ok = in.fresh("ok")
		stmts = append(stmts, define(x.r, call("ZeroOf", ast.NewIdent(x.ch))),
			define(x.ok, ast.NewIdent("false")),
			assign([]ast.Expr{blank(), blank()}, ast.NewIdent(x.r), ast.NewIdent(x.ok)))
	}
	idx := in.fresh("i")
	stmts = append(stmts, define(idx, &ast.UnaryExpr{Op: token.SUB, X: &ast.BasicLit{Kind: token.INT, Value: "1"}}))
	lit := func(i int) ast.Expr { return &ast.BasicLit{Kind: token.INT, Value: fmt.Sprint(i)} }
	setIdx := func(i int) ast.Stmt { return assign([]ast.Expr{ast.NewIdent(idx)}, lit(i)) }
	// polling loop
	if n > 0 {
		kv := in.fresh("k")
		sw := &ast.SwitchStmt{Tag: ast.NewIdent(kv), Body: &ast.BlockStmt{}}
		ci := 0
		var blocking []ast.Stmt
		for i, x := range cases {
			if x.defaultCls {
				continue
			}
			var body []ast.Stmt
			var comm ast.Stmt
			if x.send {
				body = []ast.Stmt{&ast.IfStmt{Cond: call("TrySend", ast.NewIdent(x.ch), ast.NewIdent(x.val)),
					Body: &ast.BlockStmt{List: []ast.Stmt{setIdx(i)}}}}
				comm = &ast.SendStmt{Chan: ast.NewIdent(x.ch), Value: ast.NewIdent(x.val)}
			} else {
				f := in.fresh("f")
				body = []ast.Stmt{
					&ast.DeclStmt{Decl: &ast.GenDecl{Tok: token.VAR, Specs: []ast.Spec{
						&ast.ValueSpec{Names: []*ast.Ident{ast.NewIdent(f)}, Type: ast.NewIdent("bool")}}}},
					assign([]ast.Expr{ast.NewIdent(x.r), ast.NewIdent(x.ok), ast.NewIdent(f)}, call("TryRecv", ast.NewIdent(x.ch))),
					&ast.IfStmt{Cond: ast.NewIdent(f), Body: &ast.BlockStmt{List: []ast.Stmt{setIdx(i)}}},
				}
				comm = assign([]ast.Expr{ast.NewIdent(x.r), ast.NewIdent(x.ok)}, &ast.UnaryExpr{Op: token.ARROW, X: ast.NewIdent(x.ch)})
			}
			sw.Body.List = append(sw.Body.List, &ast.CaseClause{List: []ast.Expr{lit(ci)}, Body: body})
			blocking = append(blocking, &ast.CommClause{Comm: comm, Body: []ast.Stmt{setIdx(i)}})
			ci++
		}
		loop := &ast.RangeStmt{Key: blank(), Value: ast.NewIdent(kv), Tok: token.DEFINE,
			X: call("SelectOrder", in.site(pos), lit(n)),
			Body: &ast.BlockStmt{List: []ast.Stmt{sw,
				&ast.IfStmt{Cond: &ast.BinaryExpr{X: ast.NewIdent(idx), Op: token.GEQ, Y: lit(0)},
					Body: &ast.BlockStmt{List: []ast.Stmt{&ast.BranchStmt{Tok: token.BREAK}}}}}}}
		stmts = append(stmts, loop)
		var miss []ast.Stmt
		if hasDefault {
			for i, x := range cases {
				if x.defaultCls {
					miss = []ast.Stmt{setIdx(i)}
				}
			}
		} else {
			miss = []ast.Stmt{&ast.SelectStmt{Body: &ast.BlockStmt{List: blocking}}, in.wokeStmt(pos)}
		}
		stmts = append(stmts, &ast.IfStmt{Cond: &ast.BinaryExpr{X: ast.NewIdent(idx), Op: token.LSS, Y: lit(0)},
			Body: &ast.BlockStmt{List: miss}})
	} else {
		for i, x := range cases {
			if x.defaultCls {
				stmts = append(stmts, setIdx(i))
			}
		}
	}
	// dispatch
	dsw := &ast.SwitchStmt{Tag: ast.NewIdent(idx), Body: &ast.BlockStmt{}}
	for i, x := range cases {
		var body []ast.Stmt
		if len(x.lhs) > 0 {
			rhs := []ast.Expr{ast.NewIdent(x.r)}
			if len(x.lhs) == 2 {
				rhs = append(rhs, ast.NewIdent(x.ok))
			}
			body = append(body, &ast.AssignStmt{Lhs: x.lhs, Tok: x.tok, Rhs: rhs})
			if x.tok == token.DEFINE {
				for _, l := range x.lhs {
					if !isBlank(l) {
						body = append(body, assign([]ast.Expr{blank()}, l))
					}
				}
			}
		}
		body = append(body, x.cc.Body...)
		dsw.Body.List = append(dsw.Body.List, &ast.CaseClause{List: []ast.Expr{lit(i)}, Body: body})
	}
	dsw.Body.List = append(dsw.Body.List, &ast.CaseClause{Body: []ast.Stmt{&ast.ExprStmt{X: &ast.CallExpr{
		Fun: ast.NewIdent("panic"), Args: []ast.Expr{&ast.BasicLit{Kind: token.STRING, Value: `"simrt: select dispatch"`}}}}}})
	var d ast.Stmt = dsw
	if lab != nil {
		lab.Stmt = dsw
		d = lab
	}
	stmts = append(stmts, d)
	return &ast.BlockStmt{List: stmts}
}

// ---------------------------------------------------------------------------
// call-site swaps (expression level)

var osSwaps = map[string]bool{"MkdirAll": true, "WriteFile": true, "ReadFile": true, "ReadDir": true, "Remove": true, "Rename": true}

func (in *inst) swaps(f *ast.File) {
	astutil.Apply(f, func(c *astutil.Cursor) bool {
		ce, ok := c.Node().(*ast.CallExpr)
		if !ok {
			return true
		}
		if se, ok := ce.Fun.(*ast.SelectorExpr); ok && se.Sel.Name == "WriteToUDP" {
			if sl := in.info.Selections[se]; sl != nil && sl.Kind() == types.MethodVal {
				if fn, ok := sl.Obj().(*types.Func); ok && fn.Pkg() != nil && fn.Pkg().Path() == "net" {
					ce.Fun = sel("UDPWriteTo")
					ce.Args = append([]ast.Expr{se.X}, ce.Args...)
					in.used = true
					return true
				}
			}
		}
		p, n := in.pkgFunc(ce.Fun)
		switch {
		case p == "time" && n == "AfterFunc":
			ce.Fun = sel("AfterFunc")
			ce.Args = append([]ast.Expr{in.site(ce.Pos())}, ce.Args...)
		case p == "layeh.com/radius" && n == "Exchange":
			ce.Fun = sel("RadiusExchange")
			in.used = true
		case p == "crypto/rand" && n == "Read":
			ce.Fun = sel("CryptoRead")
			in.used = true
		case p == "math/rand" && n == "Int63n":
			ce.Fun = sel("Int63n")
			in.used = true
		case p == "net" && n == "InterfaceByName":
			ce.Fun = sel("InterfaceByName")
			in.used = true
		case p == "os" && in.osSwap && osSwaps[n]:
			ce.Fun = sel(n)
			in.used = true
		}
		return true
	}, nil)
}

// ---------------------------------------------------------------------------

func (in *inst) run() {
	f := in.file
	in.swaps(f)
	for _, d := range f.Decls {
		fd, ok := d.(*ast.FuncDecl)
		if !ok {
			// function literals in package-level var initialisers
			in.funcLits(d)
			continue
		}
		in.block(fd.Body)
	}
	if in.used {
		astutil.AddImport(in.fset, f, simrtPath)
	}
	for _, imp := range append([]*ast.ImportSpec(nil), f.Imports...) {
		if imp == nil || imp.Path == nil {
			continue
		}
		path := strings.Trim(imp.Path.Value, `"`)
		switch path {
		case "os", "crypto/rand", "math/rand", "net", "time", "layeh.com/radius":
			if imp.Name != nil && (imp.Name.Name == "_" || imp.Name.Name == ".") {
				continue
			}
			if !astutil.UsesImport(f, path) {
				if imp.Name != nil {
					astutil.DeleteNamedImport(in.fset, f, imp.Name.Name, path)
				} else {
					astutil.DeleteImport(in.fset, f, path)
				}
			}
		}
	}
	// Drop comments that could be displaced into code by inserted nodes; keep
	// everything up to the package clause (build constraints) and directives.
	var keep []*ast.CommentGroup
	for _, cg := range f.Comments {
		if cg.End() < f.Package {
			keep = append(keep, cg)
			continue
		}
		for _, c := range cg.List {
			if strings.HasPrefix(c.Text, "//go:") {
				keep = append(keep, cg)
				break
			}
		}
	}
	f.Comments = keep
}

func main() {
	flag.Parse()
	if *dir == "" || *pkgsArg == "" {
		fmt.Fprintln(os.Stderr, "usage: instrument -dir <scratch repo> -pkgs a,b,c")
		os.Exit(2)
	}
	abs, _ := filepath.Abs(*dir)
	if abs == "/repo" || strings.HasPrefix(abs, "/repo/") {
		fmt.Fprintln(os.Stderr, "instrument: refusing to run on /repo")
		os.Exit(2)
	}
	level3 := map[string]bool{}
	for _, f := range strings.Split(*lvl3Arg, ",") {
		if f != "" {
			level3[f] = true
		}
	}
	level2 := map[string]bool{}
	for _, f := range strings.Split(*lvl2Arg, ",") {
		if f != "" {
			level2[f] = true
		}
	}
	osFiles := map[string]bool{}
	for _, f := range strings.Split(*osArg, ",") {
		if f != "" {
			osFiles[f] = true
		}
	}
	var patterns []string
	for _, p := range strings.Split(*pkgsArg, ",") {
		patterns = append(patterns, "./"+strings.TrimPrefix(p, "./"))
	}
	sort.Strings(patterns)
	cfg := &packages.Config{
		Mode: packages.NeedName | packages.NeedFiles | packages.NeedCompiledGoFiles | packages.NeedSyntax |
			packages.NeedTypes | packages.NeedTypesInfo | packages.NeedImports,
		Dir:   abs,
		Tests: false,
	}
	pkgs, err := packages.Load(cfg, patterns...)
	if err != nil {
		fmt.Fprintln(os.Stderr, "instrument: load:", err)
		os.Exit(2)
	}
	bad := false
	for _, p := range pkgs {
		for _, e := range p.Errors {
			fmt.Fprintln(os.Stderr, "instrument: package error:", e)
			bad = true
		}
	}
	if bad {
		os.Exit(2)
	}
	sort.Slice(pkgs, func(i, j int) bool { return pkgs[i].PkgPath < pkgs[j].PkgPath })
	nfiles := 0
	for _, p := range pkgs {
		if strings.HasSuffix(p.PkgPath, "/pkg/simrt") {
			continue
		}
		type fe struct {
			f    *ast.File
			name string
		}
		var files []fe
		for i, f := range p.Syntax {
			files = append(files, fe{f, p.CompiledGoFiles[i]})
		}
		sort.Slice(files, func(i, j int) bool { return files[i].name < files[j].name })
		for _, x := range files {
			rel, _ := filepath.Rel(abs, x.name)
			if strings.HasSuffix(rel, "_test.go") || strings.HasPrefix(rel, "..") {
				continue
			}
			if strings.HasPrefix(filepath.Base(rel), "zz_verif") {
				continue
			}
			in := &inst{fset: p.Fset, info: p.TypesInfo, file: x.f, rel: rel, level2: level2[rel], level3: level3[rel], osSwap: osFiles[rel]}
			in.run()
			var buf bytes.Buffer
			if err := format.Node(&buf, p.Fset, x.f); err != nil {
				fmt.Fprintf(os.Stderr, "instrument: print %s: %v\n", rel, err)
				os.Exit(2)
			}
			if err := os.WriteFile(x.name, buf.Bytes(), 0644); err != nil {
				fmt.Fprintln(os.Stderr, "instrument:", err)
				os.Exit(2)
			}
			nfiles++
		}
	}
	// site table
	var b bytes.Buffer
	b.WriteString("package simrt\n\nfunc init() {\n\tRegisterSites([]string{\n")
	for _, s := range sites {
		fmt.Fprintf(&b, "\t\t%q,\n", s)
	}
	b.WriteString("\t})\n}\n")
	if err := os.WriteFile(filepath.Join(abs, "pkg/simrt/zz_sites_gen.go"), b.Bytes(), 0644); err != nil {
		fmt.Fprintln(os.Stderr, "instrument:", err)
		os.Exit(2)
	}
	fmt.Printf("instrument: %d files, %d sites\n", nfiles, len(sites)-1)
}
