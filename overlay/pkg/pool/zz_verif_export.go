//go:build verif

package pool

import "net/http"

// Add-only accessors for the /verif simulator. No behaviour change.

// VerifSetHTTPClients replaces the forwarding and the health-check client;
// a zero Timeout is replaced by the timeout NewPeerPool configured.
func (p *PeerPool) VerifSetHTTPClients(fwd, health *http.Client) {
	if fwd != nil {
		if fwd.Timeout == 0 && p.httpClient != nil {
			fwd.Timeout = p.httpClient.Timeout
		}
		p.httpClient = fwd
	}
	if health != nil {
		if health.Timeout == 0 && p.healthCheckClient != nil {
			health.Timeout = p.healthCheckClient.Timeout
		}
		p.healthCheckClient = health
	}
}

// VerifHandler returns a mux with the peer API routes registered.
func (p *PeerPool) VerifHandler() http.Handler {
	mux := http.NewServeMux()
	p.RegisterHandlers(mux)
	return mux
}

// VerifRanked returns the rendezvous ranking of the current peer set for sub.
func (p *PeerPool) VerifRanked(sub string) []string {
	nodes := append([]string(nil), p.peerNodes...)
	return append([]string(nil), rendezvousRanked(sub, nodes)...)
}

// VerifPeerNodes returns a copy of the current peer set (hash order).
func (p *PeerPool) VerifPeerNodes() []string { return append([]string(nil), p.peerNodes...) }

// VerifHealthyOwner returns the node Allocate/Release would address for sub.
func (p *PeerPool) VerifHealthyOwner(sub string) string { return p.getHealthyOwner(sub) }

// VerifLocalHolds reports the address this node's local pool holds for sub.
func (p *PeerPool) VerifLocalHolds(sub string) (string, bool) {
	ip, ok := p.localPool.allocations[sub]
	if !ok {
		return "", false
	}
	return ip.String(), true
}

// VerifHealthParams returns the probe interval and the failure threshold.
func (p *PeerPool) VerifHealthParams() (intervalNs int64, threshold int) {
	return int64(p.healthInterval), p.healthThreshold
}
