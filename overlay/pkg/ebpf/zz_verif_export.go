//go:build verif

package ebpf

import (
	"github.com/cilium/ebpf"
	"go.uber.org/zap"
)

// Exported constructor for the /verif simulator. Add-only, no behaviour change.

// VerifMaps are kernel maps created by the harness (the XDP object is never
// loaded there); nil members behave exactly like a Loader that has not loaded.
type VerifMaps struct {
	SubscriberPools      *ebpf.Map
	VLANSubscriberPools  *ebpf.Map
	IPPools              *ebpf.Map
	Stats                *ebpf.Map
	ServerConfig         *ebpf.Map
	CircuitID            *ebpf.Map
	CircuitIDSubscribers *ebpf.Map
}

// VerifNewLoaderWithMaps returns a Loader whose map handles are the given maps.
func VerifNewLoaderWithMaps(iface string, logger *zap.Logger, m VerifMaps) (*Loader, error) {
	l, err := NewLoader(iface, logger)
	if err != nil {
		return nil, err
	}
	l.subscriberPools = m.SubscriberPools
	l.vlanSubscriberPools = m.VLANSubscriberPools
	l.ipPools = m.IPPools
	l.statsMap = m.Stats
	l.serverConfigMap = m.ServerConfig
	l.circuitIDMap = m.CircuitID
	l.circuitIDSubscribers = m.CircuitIDSubscribers
	return l, nil
}
