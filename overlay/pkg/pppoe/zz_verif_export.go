//go:build verif

package pppoe

import (
	"context"
	"net"

	"go.uber.org/zap"
)

// Exported wrappers for the /verif simulator. Add-only, no behaviour change.

// VerifSocket is the exported face of the package's raw-socket seam.
type VerifSocket interface {
	Send(iface string, dstMAC net.HardwareAddr, etherType uint16, frame []byte) error
}

// VerifRecvSocket is a VerifSocket that can also deliver received frames to
// the server's own receive loop.
type VerifRecvSocket interface {
	VerifSocket
	Recv(buf []byte) (int, error)
}

type verifSocketAdapter struct{ s VerifSocket }

func (a verifSocketAdapter) open(iface string, etherType uint16) error { return nil }
func (a verifSocketAdapter) close() error                              { return nil }
func (a verifSocketAdapter) recv(buf []byte) (int, error) {
	if r, ok := a.s.(VerifRecvSocket); ok {
		return r.Recv(buf)
	}
	select {}
}
func (a verifSocketAdapter) send(iface string, dstMAC net.HardwareAddr, etherType uint16, data []byte) error {
	return a.s.Send(iface, dstMAC, etherType, data)
}

// VerifNewServerWithSocket builds a server over an in-memory socket.
func VerifNewServerWithSocket(cfg ServerConfig, logger *zap.Logger, iface *net.Interface, sock VerifSocket) (*Server, error) {
	s, err := NewServerWithInterface(cfg, logger, iface)
	if err != nil {
		return nil, err
	}
	s.socket = verifSocketAdapter{sock}
	return s, nil
}

// VerifDiscovery / VerifSession feed one received frame payload (after the
// Ethernet header) to the handlers the receive loop calls.
func (s *Server) VerifDiscovery(src net.HardwareAddr, payload []byte) {
	s.handleDiscovery(src, payload)
}
func (s *Server) VerifSession(src net.HardwareAddr, payload []byte) { s.handleSession(src, payload) }

// VerifRunReceiveLoop runs the server's receive loop over the installed socket
// until ctx is done.
func (s *Server) VerifRunReceiveLoop(ctx context.Context) { s.receiveLoop(ctx) }

// VerifRunCleanup runs the periodic session cleanup loop until ctx is done.
func (s *Server) VerifRunCleanup(ctx context.Context) { s.cleanupLoop(ctx) }

// VerifSessionManager exposes the session table (read access for the oracle).
func (s *Server) VerifSessionManager() *SessionManager { return s.sessions }

// VerifPool exposes the client IP pool (read access for the oracle).
func (s *Server) VerifPool() *IPPool { return s.clientIPPool }

// VerifPoolFree returns the number of free addresses in the pool.
func (p *IPPool) VerifPoolFree() (free, allocated int) { return len(p.available), len(p.allocated) }
