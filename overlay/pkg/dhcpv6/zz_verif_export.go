//go:build verif

package dhcpv6

import "net"

// Exported wrappers for the /verif simulator. Add-only, no behaviour change.

// VerifHandle feeds one DHCPv6 message to the message handler.
func (s *Server) VerifHandle(msg *Message, addr *net.UDPAddr) { s.handleMessage(msg, addr) }

// VerifServerDUID returns the serialized server DUID.
func (s *Server) VerifServerDUID() []byte { return s.serverDUID.Serialize() }

// VerifLease is a read-only copy of one lease-table entry.
type VerifLease struct {
	DUID    string
	Address net.IP
	Prefix  *net.IPNet
}

// VerifLeases returns a snapshot of the lease table; ok is false if the table
// is locked at this instant.
func (s *Server) VerifLeases() (out []VerifLease, ok bool) {
	if !s.leasesMu.TryRLock() {
		return nil, false
	}
	defer s.leasesMu.RUnlock()
	for d, l := range s.leases {
		out = append(out, VerifLease{DUID: d, Address: l.Address, Prefix: l.Prefix})
	}
	return out, true
}
