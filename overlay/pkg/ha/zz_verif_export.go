//go:build verif

package ha

import (
	"net/http"
	"time"

	"github.com/codelaboratoryltd/bng/pkg/simrt"
)

// Add-only accessors for the /verif simulator. No behaviour change: they hand
// the components an http.Client whose RoundTripper is simulated (the timeout
// the constructor chose is kept), expose the mux the active node serves, and
// start the active node's loops without binding a socket.

// VerifSetHTTPClient replaces the syncer's HTTP client. A zero Timeout in c is
// replaced by the timeout NewHASyncer configured.
func (s *HASyncer) VerifSetHTTPClient(c *http.Client) {
	if c.Timeout == 0 && s.client != nil {
		c.Timeout = s.client.Timeout
	}
	s.client = c
}

// VerifHandler returns the routes startActive registers on its server.
func (s *HASyncer) VerifHandler() http.Handler {
	mux := http.NewServeMux()
	mux.HandleFunc("/ha/sessions", s.handleGetSessions)
	mux.HandleFunc("/ha/sessions/stream", s.handleSessionStream)
	mux.HandleFunc("/ha/health", s.handleHealth)
	return mux
}

// VerifStartActiveLoops does what startActive does minus ListenAndServe: it
// starts the change broadcaster (as a scheduler task of the calling node).
func (s *HASyncer) VerifStartActiveLoops() {
	s.wg.Add(1)
	simrt.Go(0, s.broadcastLoop)
}

// VerifBackoffMax returns the configured reconnect back-off ceiling.
func (s *HASyncer) VerifBackoffMax() time.Duration { return s.backoffMax }

// VerifSetHTTPClient replaces the monitor's HTTP client, keeping its timeout.
func (m *HealthMonitor) VerifSetHTTPClient(c *http.Client) {
	if c.Timeout == 0 && m.client != nil {
		c.Timeout = m.client.Timeout
	}
	m.client = c
}
