//go:build verif

package qos

import (
	"github.com/cilium/ebpf"
	"github.com/codelaboratoryltd/bng/pkg/radius"
	"go.uber.org/zap"
)

// Exported constructor for the /verif simulator. Add-only, no behaviour change.

// VerifNewManagerWithMaps returns a Manager whose token-bucket maps are the
// given kernel maps (the TC object is never loaded by the harness).
func VerifNewManagerWithMaps(cfg ManagerConfig, policyMgr *radius.PolicyManager, logger *zap.Logger, egress, ingress, stats *ebpf.Map) (*Manager, error) {
	m, err := NewManager(cfg, policyMgr, logger)
	if err != nil {
		return nil, err
	}
	m.qosEgress, m.qosIngress, m.qosStatsMap = egress, ingress, stats
	return m, nil
}

// VerifIPKey exposes the map key derivation.
func VerifIPKey(ip []byte) uint32 { return ipToKey(ip) }
