//go:build verif

package nat

import (
	"encoding/binary"
	"net"

	"github.com/cilium/ebpf"
)

// VerifSetSubscriberNATMap installs a kernel map created by the harness as the
// subscriber_nat map (LoadEBPF needs the compiled object and an interface).
func (m *Manager) VerifSetSubscriberNATMap(mp *ebpf.Map) { m.subscriberNAT = mp }

// VerifSubscriberNATValueSize is the size of the value the manager marshals.
func VerifSubscriberNATValueSize() int { return binary.Size(SubscriberNAT{}) }

// VerifPrivKey is the map key the manager derives from a private address.
func VerifPrivKey(ip net.IP) uint32 { return ipToKey(ip) }
