//go:build verif

package allocator

// Add-only accessors for the C12 scenario of the /verif simulator (JSON
// round-trip of the allocators that a DistributedAllocator / PoolAllocator
// wraps). No behaviour change.

// VerifC12Inner returns the wrapped allocators (exactly one is non-nil).
func (da *DistributedAllocator) VerifC12Inner() (*IPAllocator, *EpochBitmapAllocator) {
	return da.allocator, da.epochAllocator
}

// VerifC12Inner returns the wrapped IPAllocator.
func (p *PoolAllocator) VerifC12Inner() *IPAllocator { return p.allocator }
