//go:build verif

package dhcp

import (
	"context"
	"net"
	"time"

	"github.com/insomniacslk/dhcp/dhcpv4"
)

// Exported wrappers for the /verif simulator. Add-only, no behaviour change.

// VerifHandle feeds one DHCPv4 message to the slow-path packet handler.
func (s *Server) VerifHandle(conn net.PacketConn, peer net.Addr, req *dhcpv4.DHCPv4) {
	s.handleDHCP(conn, peer, req)
}

// VerifRunLeaseCleanup runs the periodic lease cleanup loop until ctx is done.
func (s *Server) VerifRunLeaseCleanup(ctx context.Context) { s.leaseCleanup(ctx) }

// VerifLease is a read-only copy of one lease-table entry.
type VerifLease struct {
	MAC       string
	IP        net.IP
	PoolID    uint32
	ExpiresAt time.Time
	CircuitID []byte
	SessionID string
	STag      uint16
	CTag      uint16
}

// VerifLeases returns a snapshot of the lease table; ok is false if the table
// is locked at this instant (the caller only asks at quiescent points).
func (s *Server) VerifLeases() (out []VerifLease, ok bool) {
	if !s.leasesMu.TryRLock() {
		return nil, false
	}
	defer s.leasesMu.RUnlock()
	for mac, l := range s.leases {
		out = append(out, VerifLease{MAC: mac, IP: append(net.IP(nil), l.IP...), PoolID: l.PoolID, ExpiresAt: l.ExpiresAt,
			CircuitID: append([]byte(nil), l.CircuitID...), SessionID: l.SessionID, STag: l.STag, CTag: l.CTag})
	}
	return out, true
}
