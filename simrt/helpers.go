package simrt

import (
	"fmt"
	"sort"
)

// SelectOrder returns the order in which the rewritten select polls its cases.
func SelectOrder(site int, n int) []int {
	ord := make([]int, n)
	for i := range ord {
		ord[i] = i
	}
	s := cur.Load()
	if s == nil || n < 2 || s.lookup() == nil {
		return ord
	}
	// 0 = source order; otherwise a rotation/permutation drawn from the tape
	for i := 0; i < n-1; i++ {
		j := i + s.Tape.Choose(StSched, n-i)
		ord[i], ord[j] = ord[j], ord[i]
	}
	return ord
}

func TryRecv[T any](ch <-chan T) (v T, ok bool, fired bool) {
	select {
	case v, ok = <-ch:
		return v, ok, true
	default:
		return v, false, false
	}
}

func TrySend[T any](ch chan<- T, v T) bool {
	select {
	case ch <- v:
		return true
	default:
		return false
	}
}

// ZeroOf returns the zero value of a channel's element type (used to declare
// a variable of that type without naming it).
func ZeroOf[T any](ch <-chan T) (z T) { return }

// Elem converts v to the channel's element type.
func Elem[T any](ch chan<- T, v T) T { return v }

// MapKeys returns the keys of m. Outside the simulator the order is Go's own;
// inside it is canonical (sorted) and then permuted by the tape, so map
// iteration order is an explored, replayable dimension instead of a hidden coin.
func MapKeys[M ~map[K]V, K comparable, V any](site int, m M) []K {
	keys := make([]K, 0, len(m))
	for k := range m {
		keys = append(keys, k)
	}
	s := cur.Load()
	if s == nil || len(keys) < 2 {
		return keys
	}
	sortKeys(keys)
	if s.lookup() == nil {
		return keys
	}
	switch s.MapOrder {
	case 0: // canonical
	case 1: // reversed
		for i, j := 0, len(keys)-1; i < j; i, j = i+1, j-1 {
			keys[i], keys[j] = keys[j], keys[i]
		}
	case 2: // rotation from the tape
		r := s.Tape.Choose(StMap, len(keys))
		if r > 0 {
			rot := append(append(make([]K, 0, len(keys)), keys[r:]...), keys[:r]...)
			copy(keys, rot)
		}
	default: // full shuffle from the tape
		for i := 0; i < len(keys)-1; i++ {
			j := i + s.Tape.Choose(StMap, len(keys)-i)
			keys[i], keys[j] = keys[j], keys[i]
		}
	}
	return keys
}

func sortKeys[K comparable](keys []K) {
	switch ks := any(keys).(type) {
	case []string:
		sort.Strings(ks)
	case []int:
		sort.Ints(ks)
	case []uint16:
		sort.Slice(ks, func(i, j int) bool { return ks[i] < ks[j] })
	case []uint32:
		sort.Slice(ks, func(i, j int) bool { return ks[i] < ks[j] })
	case []uint64:
		sort.Slice(ks, func(i, j int) bool { return ks[i] < ks[j] })
	case []int64:
		sort.Slice(ks, func(i, j int) bool { return ks[i] < ks[j] })
	case []uint8:
		sort.Slice(ks, func(i, j int) bool { return ks[i] < ks[j] })
	default:
		strs := make([]string, len(keys))
		for i, k := range keys {
			strs[i] = fmt.Sprintf("%#v", k)
		}
		idx := make([]int, len(keys))
		for i := range idx {
			idx[i] = i
		}
		sort.SliceStable(idx, func(a, b int) bool { return strs[idx[a]] < strs[idx[b]] })
		out := make([]K, len(keys))
		for i, j := range idx {
			out[i] = keys[j]
		}
		copy(keys, out)
	}
}
