package simrt

import (
	"context"
	crand "crypto/rand"
	"io/fs"
	mrand "math/rand"
	"net"
	"os"

	"layeh.com/radius"
)

// FS is the file-system seam for code that calls package os directly.
type FS interface {
	MkdirAll(path string, perm os.FileMode) error
	WriteFile(name string, data []byte, perm os.FileMode) error
	ReadFile(name string) ([]byte, error)
	ReadDir(name string) ([]fs.DirEntry, error)
	Remove(name string) error
	Rename(oldpath, newpath string) error
}

func fsHook() FS {
	if s := cur.Load(); s != nil && s.FS != nil && s.lookup() != nil {
		return s.FS
	}
	return nil
}

func MkdirAll(path string, perm os.FileMode) error {
	if f := fsHook(); f != nil {
		return f.MkdirAll(path, perm)
	}
	return os.MkdirAll(path, perm)
}

func WriteFile(name string, data []byte, perm os.FileMode) error {
	if f := fsHook(); f != nil {
		return f.WriteFile(name, data, perm)
	}
	return os.WriteFile(name, data, perm)
}

func ReadFile(name string) ([]byte, error) {
	if f := fsHook(); f != nil {
		return f.ReadFile(name)
	}
	return os.ReadFile(name)
}

func ReadDir(name string) ([]fs.DirEntry, error) {
	if f := fsHook(); f != nil {
		return f.ReadDir(name)
	}
	return os.ReadDir(name)
}

func Rename(oldpath, newpath string) error {
	if f := fsHook(); f != nil {
		return f.Rename(oldpath, newpath)
	}
	return os.Rename(oldpath, newpath)
}

func Remove(name string) error {
	if f := fsHook(); f != nil {
		return f.Remove(name)
	}
	return os.Remove(name)
}

// RadiusFunc is the RADIUS transport seam (replaces layeh's radius.Exchange).
type RadiusFunc func(ctx context.Context, p *radius.Packet, addr string) (*radius.Packet, error)

func RadiusExchange(ctx context.Context, p *radius.Packet, addr string) (*radius.Packet, error) {
	if s := cur.Load(); s != nil && s.Radius != nil && s.lookup() != nil {
		return s.Radius(ctx, p, addr)
	}
	return radius.Exchange(ctx, p, addr)
}

// CryptoRead replaces crypto/rand.Read.
func CryptoRead(b []byte) (int, error) {
	if s := cur.Load(); s != nil && s.lookup() != nil {
		for i := range b {
			b[i] = byte(s.Tape.Choose(StRand, 256))
		}
		return len(b), nil
	}
	return crand.Read(b)
}

// Int63n replaces math/rand.Int63n.
func Int63n(n int64) int64 {
	if s := cur.Load(); s != nil && s.lookup() != nil {
		if n <= 1<<30 {
			return int64(s.Tape.Choose(StRand, int(n)))
		}
		hi := int64(s.Tape.Choose(StRand, 1<<30))
		lo := int64(s.Tape.Choose(StRand, 1<<30))
		return (hi<<30 | lo) % n
	}
	return mrand.Int63n(n)
}

// InterfaceByName replaces net.InterfaceByName.
func InterfaceByName(name string) (*net.Interface, error) {
	if s := cur.Load(); s != nil && s.lookup() != nil {
		return &net.Interface{Index: 2, MTU: 1500, Name: name,
			HardwareAddr: net.HardwareAddr{0x02, 0xbb, 0x00, 0x00, 0x00, 0x01},
			Flags:        net.FlagUp | net.FlagBroadcast | net.FlagMulticast}, nil
	}
	return net.InterfaceByName(name)
}

// UDPWriteFunc is the seam for code that writes to a concrete *net.UDPConn.
type UDPWriteFunc func(conn *net.UDPConn, b []byte, addr *net.UDPAddr) (int, error)

// UDPWriteTo replaces conn.WriteToUDP(b, addr).
func UDPWriteTo(conn *net.UDPConn, b []byte, addr *net.UDPAddr) (int, error) {
	if s := cur.Load(); s != nil && s.UDPWrite != nil && s.lookup() != nil {
		return s.UDPWrite(conn, b, addr)
	}
	return conn.WriteToUDP(b, addr)
}
