package simrt

// The choice tape: the only source of nondeterminism a simulated run has.
// Exploration mode draws every value from a per-stream SplitMix64 generator
// keyed by (seed, run, stream) and records it; replay mode returns recorded
// values and 0 ("the default": keep running the current task, no fault,
// smallest argument) once a stream is exhausted, which is what gives tape
// shrinking (zeroing / truncating) its meaning.

// Stream identifiers.
const (
	StWorkload = iota
	StSched
	StNet
	StDisk
	StCrash
	StClock
	StKnob
	StMap
	StRand
	NumStreams
)

var StreamNames = [NumStreams]string{"workload", "sched", "net", "disk", "crash", "clock", "knob", "map", "rand"}

type Tape struct {
	Replay bool
	state  [NumStreams]uint64
	In     [NumStreams][]int // replay input
	pos    [NumStreams]int
	Rec    [NumStreams][]int // values actually returned (after clamping)
	Draws  [NumStreams]int
	// MaxRec bounds the recorded length per stream; beyond it values are still
	// drawn (exploration) but not stored, and the run is marked unreplayable.
	MaxRec   int
	Overflow bool
}

func splitmix(x *uint64) uint64 {
	*x += 0x9E3779B97F4A7C15
	z := *x
	z = (z ^ (z >> 30)) * 0xBF58476D1CE4E5B9
	z = (z ^ (z >> 27)) * 0x94D049BB133111EB
	return z ^ (z >> 31)
}

// NewTape makes an exploration tape for (seed, run).
func NewTape(seed uint64, run uint64) *Tape {
	t := &Tape{MaxRec: 1 << 20}
	for i := 0; i < NumStreams; i++ {
		x := seed*0x9E3779B97F4A7C15 ^ (run+1)*0xD1B54A32D192ED03 ^ uint64(i+1)*0x8CB92BA72F3D8DD7
		splitmix(&x)
		t.state[i] = splitmix(&x)
	}
	return t
}

// NewReplayTape makes a tape that replays the given streams.
func NewReplayTape(in map[string][]int) *Tape {
	t := &Tape{Replay: true, MaxRec: 1 << 20}
	for i, n := range StreamNames {
		t.In[i] = in[n]
	}
	return t
}

// Choose returns a value in [0,n). n <= 1 returns 0 without consuming.
func (t *Tape) Choose(stream int, n int) int {
	if n <= 1 {
		return 0
	}
	var v int
	if t.Replay {
		p := t.pos[stream]
		if p < len(t.In[stream]) {
			v = t.In[stream][p]
			if v < 0 {
				v = 0
			}
			v %= n
		}
		t.pos[stream] = p + 1
	} else {
		v = int(splitmix(&t.state[stream]) % uint64(n))
	}
	t.Draws[stream]++
	if len(t.Rec[stream]) < t.MaxRec {
		t.Rec[stream] = append(t.Rec[stream], v)
	} else {
		t.Overflow = true
	}
	return v
}

// Export returns the recorded streams keyed by name, with trailing zeros
// trimmed (an exhausted stream replays as zeros).
func (t *Tape) Export() map[string][]int {
	out := map[string][]int{}
	for i, n := range StreamNames {
		r := t.Rec[i]
		e := len(r)
		for e > 0 && r[e-1] == 0 {
			e--
		}
		if e > 0 {
			out[n] = append([]int(nil), r[:e]...)
		}
	}
	return out
}
