package simrt

// getg returns the address of the running goroutine's descriptor. It is used
// only as a goroutine-local key: every goroutine that is a scheduler task
// registers under it and removes itself on exit, so reuse of a descriptor by a
// later goroutine cannot alias a live task.
func getg() uintptr
