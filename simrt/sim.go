// Package simrt is the runtime that instrumented bng code calls into when it
// runs inside the /verif deterministic simulator. With no simulator installed
// (the normal case, and always the case outside the verif harness) every
// function falls through to the original operation.
package simrt

import (
	"fmt"
	"runtime"
	"runtime/debug"
	"sort"
	"sync"
	"sync/atomic"
	"time"
)

var cur atomic.Pointer[Sim]

// Node is a fencing token: one incarnation of a simulated process. Tasks of a
// dead node are never resumed again.
type Node struct {
	Name string
	dead atomic.Bool
}

func (n *Node) Dead() bool { return n != nil && n.dead.Load() }

const (
	stNew = iota
	stRunning
	stParked
	stDone
)

type Task struct {
	Name      string
	seq       int
	g         uintptr
	ch        chan struct{}
	state     int
	site      int
	lockWait  bool
	lockEpoch uint64
	node      *Node
	pred      func() bool
	panicked  any
}

func (t *Task) Done() bool { return t.state == stDone }

// Sim is one simulated run (one synctest bubble).
type Sim struct {
	mu        sync.Mutex
	byG       map[uintptr]*Task
	tasks     []*Task
	nameCount map[string]int
	seq       int
	wake      chan struct{}
	Tape      *Tape
	Step      uint64
	relEpoch  uint64
	last      *Task
	skip      int

	// knobs
	SkipMax  int // yields skipped between scheduler visits are drawn from [0,SkipMax)
	// StallPm: per mille of scheduler visits from instrumented code at which the task
	// stalls (a descheduled goroutine, a GC pause, a slow node): it sleeps on the virtual
	// clock for a tape-chosen time while everything else goes on. 0 = never.
	StallPm int
	Stalls  []Stall // stalls injected so far
	MapOrder int // 0 canonical, 1 reversed, 2 rotate, 3 shuffle
	MaxSteps uint64
	MaxIdle  time.Duration // longest single virtual-time jump while nothing is runnable
	Deadline time.Duration // virtual time budget for the run

	// quiescence detector (testing/synctest.Wait), installed by the harness
	Wait func()

	// I/O hooks installed by the harness
	FS       FS
	Radius   RadiusFunc
	UDPWrite UDPWriteFunc

	start    time.Time
	Hash     uint64
	Trace    bool
	Ring     []string
	ringMax  int
	Switches int
	Preempts int
	Yields   uint64
	Aborted  string // non-empty: why the run was cut short (steplimit, deadline)
	Panics   []string
	Faults   map[string]int
	Probes   map[string]int
	SchedFP  uint64 // fingerprint of the sequence of (task,site) scheduling decisions
	mainTask *Task
}

func New(tape *Tape) *Sim {
	s := &Sim{
		byG:       map[uintptr]*Task{},
		nameCount: map[string]int{},
		wake:      make(chan struct{}, 1),
		Tape:      tape,
		SkipMax:   1,
		MaxSteps:  200000,
		MaxIdle:   time.Hour,
		Deadline:  24 * 365 * time.Hour,
		ringMax:   6000,
		Faults:    map[string]int{},
		Probes:    map[string]int{},
		Hash:      1469598103934665603,
		SchedFP:   1469598103934665603,
	}
	return s
}

// Stall is one injected stall of a task.
type Stall struct {
	At, D time.Duration
}

var stallDurations = []time.Duration{time.Millisecond, 20 * time.Millisecond, 300 * time.Millisecond, 2 * time.Second}

// StallSum is the total length of the injected stalls that overlap [from, to].
func (s *Sim) StallSum(from, to time.Duration) time.Duration {
	var d time.Duration
	for _, st := range s.Stalls {
		if st.At <= to && st.At+st.D >= from {
			d += st.D
		}
	}
	return d
}

// Current returns the installed simulator or nil.
func Current() *Sim { return cur.Load() }

func (s *Sim) Now() time.Duration { return time.Since(s.start) }

func fnv(h uint64, b string) uint64 {
	for i := 0; i < len(b); i++ {
		h ^= uint64(b[i])
		h *= 1099511628211
	}
	return h
}

func fnvu(h uint64, v uint64) uint64 {
	for i := 0; i < 8; i++ {
		h ^= v & 0xff
		h *= 1099511628211
		v >>= 8
	}
	return h
}

// Logf appends a harness-level event to the event log (hash + ring).
func (s *Sim) Logf(format string, a ...any) {
	s.mu.Lock()
	defer s.mu.Unlock()
	s.logLocked(fmt.Sprintf(format, a...))
}

func (s *Sim) logLocked(line string) {
	s.Hash = fnv(s.Hash, line)
	s.Hash = fnvu(s.Hash, uint64(s.Now()))
	if s.Trace {
		if len(s.Ring) >= s.ringMax {
			copy(s.Ring, s.Ring[1:])
			s.Ring = s.Ring[:len(s.Ring)-1]
		}
		s.Ring = append(s.Ring, fmt.Sprintf("%d t=%v %s", s.Step, s.Now(), line))
	}
}

func (s *Sim) Fault(kind string) {
	s.mu.Lock()
	s.Faults[kind]++
	s.logLocked("fault " + kind)
	s.mu.Unlock()
}

func (s *Sim) Probe(name string) {
	s.mu.Lock()
	s.Probes[name]++
	s.mu.Unlock()
}

// Choose draws from the tape. Only the running task or the scheduler may call it.
func (s *Sim) Choose(stream, n int) int { return s.Tape.Choose(stream, n) }

func (s *Sim) lookup() *Task {
	g := getg()
	s.mu.Lock()
	t := s.byG[g]
	s.mu.Unlock()
	return t
}

// Me returns the calling task (nil if the caller is not a scheduler task).
func (s *Sim) Me() *Task { return s.lookup() }

// CurrentNode returns the fencing token of the calling task.
func (s *Sim) CurrentNode() *Node {
	if t := s.lookup(); t != nil {
		return t.node
	}
	return nil
}

func (s *Sim) newTask(base string, node *Node) *Task {
	s.mu.Lock()
	n := s.nameCount[base]
	s.nameCount[base] = n + 1
	s.seq++
	t := &Task{Name: fmt.Sprintf("%s#%d", base, n), seq: s.seq, ch: make(chan struct{}), node: node}
	s.mu.Unlock()
	return t
}

func (s *Sim) signal() {
	select {
	case s.wake <- struct{}{}:
	default:
	}
}

// start runs fn as task t on a new goroutine; the task parks before fn runs.
func (s *Sim) startTask(t *Task, site int, fn func()) {
	go s.taskBody(t, site, fn)
}

func (s *Sim) taskBody(t *Task, site int, fn func()) {
	t.g = getg()
	s.mu.Lock()
	s.byG[t.g] = t
	s.tasks = append(s.tasks, t)
	t.state = stRunning
	s.mu.Unlock()
	defer func() {
		if r := recover(); r != nil {
			s.mu.Lock()
			s.Panics = append(s.Panics, fmt.Sprintf("task %s: %v\n%s", t.Name, r, debug.Stack()))
			s.mu.Unlock()
			t.panicked = r
		}
		s.mu.Lock()
		delete(s.byG, t.g)
		t.state = stDone
		s.mu.Unlock()
		s.signal()
	}()
	s.park(t, site)
	// a goroutine or timer callback started by the code under test may itself be slow to start
	if site != 0 && s.maybeStall(t) {
		s.park(t, site)
	}
	fn()
}

// park hands control back to the scheduler and blocks until resumed.
func (s *Sim) park(t *Task, site int) {
	s.mu.Lock()
	t.site = site
	t.state = stParked
	s.mu.Unlock()
	s.signal()
	<-t.ch
}

// Spawn starts a named harness task bound to node (nil = never fenced).
func (s *Sim) Spawn(name string, node *Node, fn func()) *Task {
	t := s.newTask(name, node)
	s.startTask(t, 0, fn)
	return t
}

// Kill fences a node: its tasks are never resumed.
func (s *Sim) Kill(n *Node) {
	if n == nil {
		return
	}
	n.dead.Store(true)
	s.Logf("kill %s", n.Name)
}

// KillSelfIfDead parks the calling task forever if its node has been fenced.
// I/O hooks call it after deciding on a crash.
func (s *Sim) DieIfDead() {
	t := s.lookup()
	if t != nil && t.node.Dead() {
		s.park(t, 0) // never resumed
	}
}

// WaitUntil parks the calling task until pred() holds. pred is evaluated by the
// scheduler between steps and must only read state.
func (s *Sim) WaitUntil(pred func() bool) {
	t := s.lookup()
	if t == nil {
		panic("simrt: WaitUntil from a non-task goroutine")
	}
	if pred() {
		return
	}
	t.pred = pred
	s.park(t, 0)
}

// Sleep advances this task's virtual time.
func (s *Sim) Sleep(d time.Duration) {
	time.Sleep(d)
	if t := s.lookup(); t != nil {
		s.park(t, 0)
	}
}

// Pause is an unconditional visit to the scheduler from harness code.
func (s *Sim) Pause() {
	if t := s.lookup(); t != nil {
		s.park(t, 0)
	}
}

// Join waits for all given tasks to finish or be fenced.
func (s *Sim) Join(ts ...*Task) {
	s.WaitUntil(func() bool {
		for _, t := range ts {
			if t.state != stDone && !t.node.Dead() {
				return false
			}
		}
		return true
	})
}

// Run executes main as the scenario's root task and drives the scheduler on the
// calling goroutine (which must be the bubble's root) until main returns.
func (s *Sim) Run(main func()) {
	if s.Wait == nil {
		panic("simrt: Sim.Wait not installed")
	}
	s.start = time.Now()
	if !cur.CompareAndSwap(nil, s) {
		panic("simrt: a simulator is already installed")
	}
	defer cur.Store(nil)
	s.mainTask = s.Spawn("main", nil, main)
	var cands []*Task
	for {
		s.Wait()
		select {
		case <-s.wake:
		default:
		}
		if s.mainTask.state == stDone {
			return
		}
		if s.Step >= s.MaxSteps {
			s.Aborted = "steplimit"
			return
		}
		if s.Now() > s.Deadline {
			s.Aborted = "deadline"
			return
		}
		cands = cands[:0]
		s.mu.Lock()
		live := s.tasks[:0]
		for _, t := range s.tasks {
			if t.state == stDone {
				continue
			}
			live = append(live, t)
			if t.state != stParked || t.node.Dead() {
				continue
			}
			if t.lockWait && t.lockEpoch == s.relEpoch {
				continue
			}
			cands = append(cands, t)
		}
		for i := len(live); i < len(s.tasks); i++ {
			s.tasks[i] = nil
		}
		s.tasks = live
		s.mu.Unlock()
		// predicates are evaluated outside the registry lock
		k := 0
		for _, t := range cands {
			if t.pred != nil {
				if !t.pred() {
					continue
				}
			}
			cands[k] = t
			k++
		}
		cands = cands[:k]
		if len(cands) == 0 {
			tm := time.NewTimer(s.MaxIdle)
			select {
			case <-s.wake:
				tm.Stop()
			case <-tm.C:
			}
			continue
		}
		var pick *Task
		if len(cands) == 1 {
			pick = cands[0]
		} else {
			sort.Slice(cands, func(i, j int) bool { return cands[i].Name < cands[j].Name })
			// choice 0 = keep running the task that ran last, if it can run
			li := -1
			for i, t := range cands {
				if t == s.last {
					li = i
					break
				}
			}
			v := s.Tape.Choose(StSched, len(cands))
			if li >= 0 {
				if v == 0 {
					pick = cands[li]
				} else {
					if v-1 < li {
						pick = cands[v-1]
					} else {
						pick = cands[v]
					}
				}
			} else {
				pick = cands[v]
			}
		}
		if s.SkipMax > 1 {
			s.skip = s.Tape.Choose(StSched, s.SkipMax)
		} else {
			s.skip = 0
		}
		s.Step++
		if pick != s.last {
			s.Switches++
			if s.last != nil && s.last.state == stParked && !s.last.lockWait && s.last.pred == nil {
				s.Preempts++
			}
		}
		s.last = pick
		s.mu.Lock()
		s.SchedFP = fnvu(fnv(s.SchedFP, pick.Name), uint64(pick.site))
		s.logLocked(pick.Name + "@" + SiteName(pick.site))
		pick.state = stRunning
		pick.pred = nil
		s.mu.Unlock()
		pick.ch <- struct{}{}
	}
}

// ---------------------------------------------------------------------------
// entry points used by instrumented code

// Yield is a potential preemption point.
func Yield(site int) {
	s := cur.Load()
	if s == nil {
		return
	}
	s.yield(site)
}

func (s *Sim) yield(site int) {
	t := s.lookup()
	if t == nil {
		return
	}
	if t.state == stRunning && t == s.last && s.skip > 0 {
		s.skip--
		atomic.AddUint64(&s.Yields, 1)
		return
	}
	atomic.AddUint64(&s.Yields, 1)
	s.maybeStall(t)
	s.park(t, site)
}

// maybeStall: with probability StallPm/1000 the calling task sleeps on the virtual clock for a
// tape-chosen time (a descheduled goroutine, a GC pause, a slow node).
func (s *Sim) maybeStall(t *Task) bool {
	if s.StallPm <= 0 || s.Tape.Choose(StClock, 1000) < 1000-s.StallPm {
		return false
	}
	d := stallDurations[s.Tape.Choose(StClock, len(stallDurations))]
	s.mu.Lock()
	s.Stalls = append(s.Stalls, Stall{At: s.Now(), D: d})
	s.Faults["node.stall"]++
	s.logLocked("stall " + t.Name + " " + d.String())
	s.mu.Unlock()
	time.Sleep(d) // virtual: the scheduler sees this task blocked and runs the others
	return true
}

// Woke must follow every operation that may have blocked outside the scheduler
// (channel operation, select, Sleep, WaitGroup/Cond wait): the goroutine may
// have been made runnable by another task or by a timer and has to rejoin the
// single-runner discipline before it touches shared state.
func Woke(site int) {
	s := cur.Load()
	if s == nil {
		return
	}
	t := s.lookup()
	if t == nil {
		return
	}
	s.park(t, site)
}

// Go replaces the go statement.
func Go(site int, fn func()) {
	s := cur.Load()
	if s == nil {
		go fn()
		return
	}
	var node *Node
	if p := s.lookup(); p != nil {
		node = p.node
	}
	t := s.newTask("go:"+SiteName(site), node)
	s.startTask(t, site, fn)
}

// AfterFunc replaces time.AfterFunc: the callback runs as a scheduler task.
func AfterFunc(site int, d time.Duration, f func()) *time.Timer {
	s := cur.Load()
	if s == nil {
		return time.AfterFunc(d, f)
	}
	var node *Node
	if p := s.lookup(); p != nil {
		node = p.node
	}
	base := s.newTask("timer:"+SiteName(site), node).Name
	return time.AfterFunc(d, func() {
		if cur.Load() != s {
			return
		}
		t := s.newTask(base+"/fire", node)
		s.taskBody(t, site, f)
	})
}

func (s *Sim) acquire(site int, try func() bool) bool {
	t := s.lookup()
	if t == nil {
		return false
	}
	if !(t.state == stRunning && t == s.last && s.skip > 0) {
		s.park(t, site)
	} else {
		s.skip--
	}
	atomic.AddUint64(&s.Yields, 1)
	for !try() {
		s.mu.Lock()
		t.lockWait = true
		t.lockEpoch = s.relEpoch
		s.mu.Unlock()
		s.park(t, site)
	}
	t.lockWait = false
	return true
}

// Lock replaces m.Lock() / m.RLock(): try and lock are the method values
// (TryLock, Lock) resp. (TryRLock, RLock) of the same mutex.
func Lock(site int, try func() bool, lock func()) {
	if s := cur.Load(); s != nil && s.acquire(site, try) {
		return
	}
	lock()
}

// Unlock replaces m.Unlock() / m.RUnlock(): f is the method value.
func Unlock(site int, f func()) {
	f()
	if s := cur.Load(); s != nil {
		s.mu.Lock()
		s.relEpoch++
		s.mu.Unlock()
	}
}

// ---------------------------------------------------------------------------

var siteNames []string

// RegisterSites is called by the generated table in the instrumented tree.
func RegisterSites(names []string) { siteNames = names }

func SiteName(id int) string {
	if id > 0 && id < len(siteNames) {
		return siteNames[id]
	}
	return fmt.Sprintf("s%d", id)
}

// Goexit helper for harness teardown (unused by instrumented code).
func Exit() { runtime.Goexit() }
